"""C45 Shutdown releases every connection and stops accepting work.

Layer E (engine E): breadth-first search over event histories of a real Cluster + Session on the
virtual server (2 hosts, protocol v4, every executor task / scheduler entry / timer / answer an
explorer event); `Cluster.shutdown()` and `Session.shutdown()` are injected in EVERY reachable
state, the exploration continues behind them, and every state behind a shutdown is judged.
Layer S (engine S): the shutdown call races one executor worker that is inside a connecting task
(and, for connect, the client thread inside Cluster.connect()), line-granular, preemption bounded.
"""
import gc

from vt import explore, sched
from vt import c45lib   # noqa: F401  imported here so that forked workers inherit the loaded driver

META = {
    'level': 'model_checking',
    'engine': 'E+S',
    'technique': 'explicit-state BFS over event histories with a shutdown injected in every reachable state, plus '
                 'preemption-bounded schedule exploration of the shutdown call racing a connecting executor task',
    'text': 'TODO',
    'note': 'TODO',
    'design_ref': 'C45',
}


_GC = [0]


class H(explore.Harness):
    """params: C45World params + alphabet (list), prefix (events applied in init), max_exec,
    task_window, shutdowns (kinds injected)"""
    name = 'c45'
    _NONE = object()

    def init(self):
        # no cyclic collection inside a history: Session.__del__ of an earlier, dead world would call shutdown()
        gc.disable()
        st = c45lib.C45World(self.params)
        st._evs = st._canon = None
        try:
            for ev in self.params.get('prefix', ()):
                self._apply(st, tuple(ev))
        except BaseException:
            st.close()
            raise
        return st

    # -- menu
    def events(self, st):
        if st._evs is not None:
            return st._evs
        return self._events(st)

    def _events(self, st):
        p, w, trk = self.params, st.w, st.trk
        A = p['alphabet']
        evs = []
        post = trk.kind is not None
        for i in range(min(len(w.tasks), p.get('task_window', 1))):
            evs.append((('task', i), 0))
        if w.sched_tasks and 'sched' in A:
            evs.append((('sched',), 0))
        if 'timer' in A and w.live_timers():
            evs.append((('timer',), 0))
        if 'respond' in A:
            for i in range(len(st.srv.pending)):
                evs.append((('respond', i), 0))
        if not post:
            if 'exec' in A and st.n_exec < p.get('max_exec', 1):
                evs.append((('exec',), 0))
            for h, hs in enumerate(st.srv.hosts):
                if 'kill' in A and hs.up and h in p.get('killable', (1,)):
                    evs.append((('kill', h), 0))
                if 'revive' in A and not hs.up:
                    evs.append((('revive', h), 0))
                if 'push' in A and st.control() is not None and h in p.get('killable', (1,)):
                    evs.append((('push', 'UP', h), 0))
                    evs.append((('push', 'DOWN', h), 0))
            if 'addnode' in A and len(st.srv.hosts) < 3 and st.control() is not None:
                evs.append((('addnode',), 0))
            for kind in p.get('shutdowns', ('cluster', 'session')):
                evs.append((('shutdown', kind), 0))
        else:
            if 'exec_after' in A and st.n_exec < p.get('max_exec', 1) + 1:
                evs.append((('exec',), 0))
        return evs

    def apply(self, st, ev):
        self._apply(st, ev)

    def _apply(self, st, ev):
        st.apply(ev)

    # -- abstraction
    def canon(self, st):
        if st._canon is not None:
            return st._canon
        return self._canon_of(st)

    def _canon_of(self, st):
        w, cl, se, trk = st.w, st.cluster, st.session, st.trk
        now = w.clock.now
        conns = tuple((c.vid, c.creator, c.endpoint.address, c.opened, c.is_closed, c.is_defunct, c.in_flight,
                       len(c.orphaned_request_ids), c.orphaned_threshold_reached, c.open_phase, c.handshake_phase,
                       tuple(sorted(c._requests.keys()))) for c in w.conns)
        pools = tuple(sorted((str(h.endpoint), p.is_shutdown, p._is_replacing,
                              p._connection.vid if p._connection is not None else None,
                              tuple(sorted(c.vid for c in p._trash))) for h, p in se._pools.items()))
        hosts = tuple(sorted((str(h.endpoint), h.is_up, h._reconnection_handler is not None and not h._reconnection_handler._cancelled,
                              h._currently_handling_node_up) for h in cl.metadata.all_hosts()))
        cc = cl.control_connection
        ccs = (cc._connection.vid if cc._connection is not None else None, cc._is_shutdown,
               cc._reconnection_handler is not None and not cc._reconnection_handler._cancelled)
        tasks = tuple(t[4] for t in w.tasks)
        sched = tuple(sorted((round(e[0] - now, 6), getattr(e[2][0], '__qualname__', '?')) for e in w.sched_tasks))
        timers = tuple(round(t.end - now, 6) for t in w.live_timers())
        pend = tuple((p.conn.vid, p.stream, p.req.get('query', '')) for p in st.pending())
        futs = tuple((f._event.is_set(), type(f._final_exception).__name__, f._query_retries,
                      f._connection.vid if f._connection is not None else None) for f in st.futures)
        up = tuple(h.up for h in st.srv.hosts)
        return (trk.kind, trk.phase, cl.is_shutdown, se.is_shutdown, conns, pools, hosts, ccs, tasks, sched, timers,
                pend, futs, up, st.n_exec, len(st.exec_errors))

    # -- monitors
    def check(self, st, part, hist):
        st._evs = self._events(st)
        st._canon = self._canon_of(st)
        trk = st.trk
        if trk.kind is None:
            return
        data = {'layer': 'E', 'params': self.params, 'history': hist}
        if hist and hist[-1][0] == 'shutdown':
            part.count('shutdown_injection_points')
            part.count('shutdown_injection_points_%s' % trk.kind)
            for k, v in sorted(trk.at_shutdown.items()):
                if v:
                    part.count('injected_with_%s' % k)
            part.mark_nontrivial(repr(('E', self.params.get('scenario'), hist)))
            part.sample({'layer': 'E', 'scenario': self.params.get('scenario'), 'history': hist,
                         'state_at_shutdown': sorted(k for k, v in trk.at_shutdown.items() if v)})
        part.count('judged_states')
        before = len(st.w.conns)
        st.judge(part, data, 'E')
        part.outcome(('E', trk.kind, 'open-after-drain=%d' % len(st.open_conns()),
                      'opened-in-or-after-shutdown=%d' % sum(1 for c in st.w.conns[:before] if c.open_phase is not None)))
        if any(c.handshake_phase not in ('before', 'never', 'failed') for c in st.w.conns[:before]):
            part.count('histories_with_handshake_completed_after_shutdown_began')

    def cleanup(self, st):
        st.close()
        _GC[0] += 1
        if _GC[0] % 16 == 0:
            gc.collect()


# ------------------------------------------------------------------------------ configurations
def e_configs(ctx):
    both = ('cluster', 'session')
    q = [
        # requests in flight / timing out / new requests
        ('requests', dict(scenario='requests', alphabet=['exec', 'respond', 'timer'], max_exec=2), 6),
        # orphaned-stream threshold 1: a client timeout makes the pool replace its connection
        ('replace', dict(scenario='replace', hosts=1, orphaned_threshold=1, alphabet=['exec', 'respond', 'timer'], max_exec=3), 8),
        # a node dies with a request in flight: on_down, reconnector, probes, node back: on_up, new pool
        ('reconnect', dict(scenario='reconnect', alphabet=['kill', 'revive', 'sched'], prefix=[('exec',), ('exec',)], max_exec=2,
                           killable=(1,)), 9),
        # the control connection's node dies: control reconnect
        ('control', dict(scenario='control', alphabet=['kill', 'revive', 'sched'], prefix=[('exec',), ('exec',)], max_exec=2,
                         killable=(0,)), 8),
        # a third node joins: refresh, on_add, pool creation
        ('addnode', dict(scenario='addnode', alphabet=['addnode', 'sched', 'push'], killable=(1,)), 6),
    ]
    return q


# ------------------------------------------------------------------------------ layer S
_FOCUS = []


@sched.gc_quiet
def s_harness(params, prefix, part):
    """One schedule of: client thread calling <kind>.shutdown() (for scenario 'connect' also a client
    thread inside Cluster.connect()), executor worker thread(s) running the queued tasks, reactor thread
    delivering the server's answers.  Judged after the threads have ended."""
    if not _FOCUS:
        _FOCUS.extend(c45lib.focus_codes())
    race_connect = params.get('race_connect', False)
    st = c45lib.C45World(params, connect=not race_connect)
    data = {'layer': 'S', 'params': params, 'prefix': list(prefix)}
    try:
        for ev in params.get('prefix', ()):
            st.apply(tuple(ev))
        if params.get('server') == 'refuse':
            for hs in st.srv.hosts:
                if hs.address in params.get('refusing', ()):
                    hs.up = False
        s = sched.Scheduler(prefix, focus=_FOCUS, horizon=params.get('horizon', 60000), clock=st.w.clock)
        kind = params['kind']
        clients = [('shutdown', lambda: st.shutdown(kind))]
        res = {}
        if race_connect:
            def do_connect():
                try:
                    st.session = st.cluster.connect()
                    res['connect'] = 'session'
                except Exception as e:
                    res['connect'] = type(e).__name__
            clients.insert(0, ('connect', do_connect))
        c45lib.run_schedule(st, s, clients, nworkers=params.get('workers', 1))
        data['prefix'] = s.choices()
        if s.failure:
            part.violation('C45/%s/%s/%s' % (kind, s.failure[0], params['scenario']), '%s ; scenario %s' % (s.failure[1], params['scenario']), data)
            return s
        for t in s.threads:
            if t.exc is not None:
                part.violation('C45/%s/thread-exception/%s/%s' % (kind, t.name, type(t.exc).__name__),
                               '%r in thread %s: %s' % (t.exc, t.name, getattr(t, 'exc_tb', '')), data)
        trk = st.trk
        nontrivial = any(p.chosen for p in s.trace)
        if nontrivial:
            part.mark_nontrivial(repr(('S', params['scenario'], kind, params.get('server'), s.choices())))
        part.count('judged_states')
        flags = sorted(k for k, v in trk.at_shutdown.items() if v)
        for k in flags:
            part.count('S_injected_with_%s' % k)
        before = len(st.w.conns)
        hs_after = any(c.handshake_phase not in ('before', 'never', 'failed') for c in st.w.conns)
        opened_before_done_after = any(c.open_phase is None and c.handshake_phase not in ('before', 'never', 'failed') for c in st.w.conns)
        if hs_after:
            part.count('histories_with_handshake_completed_after_shutdown_began')
        if opened_before_done_after:
            part.count('S_histories_with_connection_mid_handshake_at_shutdown')
        part.sample({'layer': 'S', 'scenario': params['scenario'], 'kind': kind, 'choices': s.choices(),
                     'state_at_shutdown': flags, 'connect': res.get('connect')}, limit=1)
        st.judge(part, data, 'S')
        part.outcome(('S', params['scenario'], kind, res.get('connect', ''), 'open-after-drain=%d' % len(st.open_conns()),
                      'mid-handshake-at-shutdown' if opened_before_done_after else ''))
        return s
    finally:
        st.close()


def s_configs(ctx):
    to_probe = [('exec',), ('exec',), ('kill', 1), ('task', 0), ('task', 0), ('task', 0), ('revive', 1), ('sched',)]
    base = [
        ('replace', dict(hosts=1, orphaned_threshold=1, prefix=[('exec',), ('timer',), ('exec',)], refusing=('10.0.0.1',))),
        ('probe', dict(prefix=to_probe, refusing=('10.0.0.2',))),
        ('poolcreate', dict(prefix=to_probe + [('task', 0)], refusing=('10.0.0.2',))),
        ('control', dict(prefix=[('exec',), ('exec',), ('kill', 0), ('task', 0), ('task', 0)], refusing=('10.0.0.2',))),
    ]
    out = []
    for name, p in base:
        for kind in ('cluster', 'session'):
            for server in ('ok', 'refuse'):
                out.append(dict(p, scenario=name, kind=kind, server=server))
    out.append(dict(scenario='connect', kind='cluster', server='ok', race_connect=True))
    return out


def run(ctx):
    for name, params, depth in e_configs(ctx):
        explore.bfs(ctx, H, params, max_depth=depth, label='c45-E-' + name, max_states=200000)
    explore.close_pool()
    bound = 1
    for params in s_configs(ctx):
        name = 'c45-S-%s-%s-%s' % (params['scenario'], params['kind'], params['server'])
        n = sched.explore(ctx, name, s_harness, params, bound)
    ctx.cov['rule'] = 'TODO'


def replay(ctx, data):
    if data.get('layer') == 'E':
        part = explore.replay(H, data['params'], [tuple(e) for e in data['history']])
    else:
        from vt.core import Part
        part = Part()
        s_harness(data['params'], data['prefix'], part)
    for fp, what, _ in part.violations:
        print(fp, '::', what)
    return bool(part.violations)
