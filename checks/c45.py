"""C45 Shutdown releases every connection and stops accepting work.

Layer E (engine E): breadth-first search over event histories of a real Cluster + Session on the
virtual server (2 or 3 hosts, protocol v4, every executor task / scheduler entry / timer / answer an
explorer event); `Cluster.shutdown()` and `Session.shutdown()` are injected in EVERY reachable
state, the exploration continues behind them, and every state behind a shutdown is judged.
Layer S (engine S): the shutdown call races one executor worker that is inside a connecting task
(and, for connect, the client thread inside Cluster.connect()), line-granular, preemption bounded;
the node fails the attempt that is under way in every way it can, and the session keyspace changes
while a pool connection is being opened.
"""
import gc

from vt import explore, sched
from vt.core import Part, jsonable
from vt import c45lib   # noqa: F401  imported here so that forked workers inherit the loaded driver

META = {
    'level': 'model_checking',
    'engine': 'E+S',
    'technique': 'explicit-state BFS over event histories of the real Cluster/Session with a shutdown injected in every reachable state '
                 '(canonical-state dedup), plus preemption-bounded line-granular schedule exploration of the shutdown call racing '
                 'executor tasks that are opening connections and racing Cluster.connect()',
    'text': 'Real Cluster + Session over the virtual server (2 nodes, +1 joining; or 3 nodes; protocol v4; every executor task, scheduler '
            'entry, connection timer and held answer is an explorer event).  Layer E: scenarios (requests in flight / timing out, also on a protocol-v2 legacy pool growing on demand; pool '
            'connection replacement after the orphaned-stream threshold, old connection trashed; node down -> reconnection attempts -> '
            'node up -> pool re-creation; control-connection node down -> control reconnect; the only node down so that the control '
            'reconnect finds no host and arms the scheduled _ControlReconnectionHandler -> failing host probes, node back, probe, pool '
            're-creation, the handler\'s scheduled attempt; the control reconnect with three nodes where the next '
            'node of the plan fails every NEW connection -- closes it at the first or third request, never answers (thorough: fails '
            'STARTUP) -- so that the reconnect has to go on to the third; node joining / status events), all histories '
            'to depth 6-9 (thorough 8-11, either of the first two queued tasks first); Cluster.shutdown() and Session.shutdown() are '
            'injected in EVERY reachable state and exploration continues behind them.  Layer S: client thread calling shutdown vs one '
            '(thorough: also two) executor worker thread(s) running a queued HostConnection._replace / _HostReconnectionHandler.run / '
            'run_add_or_renew_pool / ControlConnection._reconnect plus a reactor thread delivering the handshake and query answers '
            '(connection accepted, or first attempt refused), every virtual primitive and every source line of the connect / reconnect '
            '/ replace / shutdown functions a scheduling point, all schedules with <= 1 preemption; the control reconnect over a plan of '
            'two nodes (3 nodes, one dead) whose first attempt fails in each of six ways (refused; closed by the node during the handshake / '
            'after it; STARTUP or a later query answered with an error; never answered = timeout), second node serving (switches at '
            'blocking points) or nobody accepting any more (<= 1 preemption); pool creation and pool connection replacement while the '
            'session keyspace changes (the answer to an application USE arrives at a moment the schedule chooses, so the new connection '
            'has to be moved to the new keyspace with the session / pool lock released; switches at blocking points, thorough + 1 '
            'preemption capped); scheduled reconnection attempts (_ReconnectionHandler.run moved to the executor '
            'by the scheduler) under way when the shutdown comes: the _ControlReconnectionHandler\'s attempt after the node came back (one '
            'node; two nodes, one still down), the shutdown -- which cancels the handler -- running at every blocking point of the attempt '
            '(handshake, REGISTER, system.local/peers reads), the attempt served or failed by the node in each of the six ways (refused: + 1 '
            'preemption; thorough: served + 1 preemption on one node, Session.shutdown()); and a _HostReconnectionHandler attempt racing, on a '
            'second executor worker, the Cluster.on_up() that a STATUS_CHANGE UP event scheduled and that cancels the handler while its probe '
            'connection is being opened, the shutdown at every blocking point of the two; the reconnection delay as a parameter of the world: with '
            'ConstantReconnectionPolicy(0) (every next attempt due at once: zero-delay schedule() calls) the queued scheduled attempt of '
            'the _ControlReconnectionHandler (one node) and of a _HostReconnectionHandler (two nodes) is failed by the node in each of the '
            'six ways (quick, host: refused / closed during the handshake) while the shutdown is under way (refused: + 1 preemption, so '
            'also between _Scheduler.shutdown() and executor.shutdown(); else switches at blocking points), and layer E scenario ctlsched '
            'with delay 0 to depth 6 (thorough 7); and Cluster.connect() in one client '
            'thread vs Cluster.shutdown() in another from an unconnected cluster (all schedules without preemption, i.e. switches at '
            'blocking points; thorough: + 1 preemption under a per-subtree cap).  Oracle, evaluated behind every shutdown after the '
            'default drain (answers delivered, queued tasks run, scheduler entries fired or dropped as _Scheduler would): every '
            'connection ever opened (control, pool, replacement, reconnection probe) is closed -- for Session.shutdown() every pool '
            'connection of the session, and everything after the following Cluster.shutdown(); no activity that started after the call '
            'returned made a connection attempt; no activity made a further connection attempt (next node of a plan, retry; also one '
            'that is refused or closed again at once) after an attempt of it had ended when the shutdown had already done all its work '
            '(returned, or only waiting in executor.shutdown(wait=True)); no reconnection attempt (_ReconnectionHandler.run) that was handed '
            'to the executor after Cluster.shutdown() had stopped the scheduler made a connection attempt; execute_async() after the shutdown raises or fails (not sent, '
            'not pending); Cluster.connect() after Cluster.shutdown() raises; the shutdown call itself does not raise or deadlock.',
    'note': 'Trusted: the virtual world (vt/world: clock, executor = FIFO queue whose shutdown(wait=True) runs what is queued like '
            'ThreadPoolExecutor, scheduler with the drop-after-shutdown rule of cluster._Scheduler, VConnection implementing only what '
            'every shipped reactor implements).  Layer E handlers are atomic; preemption inside them is layer S at source-line '
            'granularity.  Connection.orphaned_threshold is lowered to 1 on the harness connection class to reach the replacement path.  '
            'Requests that were in flight when the shutdown was called are not judged (the statement is about new requests).',
    'design_ref': 'C45',
}


_GC = [0]


class H(explore.Harness):
    """params: C45World params + alphabet (list), prefix (events applied in init), max_exec,
    task_window, shutdowns (kinds injected)"""
    name = 'c45'
    _NONE = object()

    def init(self):
        # no cyclic collection inside a history: Session.__del__ of an earlier, dead world would call shutdown()
        gc.disable()
        st = c45lib.C45World(self.params)
        st._evs = st._canon = None
        try:
            for ev in self.params.get('prefix', ()):
                self._apply(st, tuple(ev))
        except BaseException:
            st.close()
            raise
        return st

    # -- menu
    def events(self, st):
        if st._evs is not None:
            return st._evs
        return self._events(st)

    def _events(self, st):
        p, w, trk = self.params, st.w, st.trk
        A = p['alphabet']
        evs = []
        post = trk.kind is not None
        for i in range(min(len(w.tasks), p.get('task_window', 1))):
            evs.append((('task', i), 0))
        if w.sched_tasks and 'sched' in A:
            evs.append((('sched',), 0))
        if 'timer' in A and w.live_timers():
            evs.append((('timer',), 0))
        if 'respond' in A:
            for i in range(len(st.srv.pending)):
                evs.append((('respond', i), 0))
        if not post:
            if 'exec' in A and st.n_exec < p.get('max_exec', 1):
                evs.append((('exec',), 0))
            for h, hs in enumerate(st.srv.hosts):
                if 'kill' in A and hs.up and h in p.get('killable', (1,)):
                    evs.append((('kill', h), 0))
                if 'revive' in A and not hs.up:
                    evs.append((('revive', h), 0))
                if 'push' in A and st.control() is not None and h in p.get('killable', (1,)):
                    evs.append((('push', 'UP', h), 0))
                    evs.append((('push', 'DOWN', h), 0))
            if 'addnode' in A and len(st.srv.hosts) < 3 and st.control() is not None:
                evs.append((('addnode',), 0))
            for kind in p.get('shutdowns', ('cluster', 'session')):
                evs.append((('shutdown', kind), 0))
        else:
            if 'exec_after' in A and st.n_exec < p.get('max_exec', 1) + 1:
                evs.append((('exec',), 0))
        return evs

    def apply(self, st, ev):
        self._apply(st, ev)

    def _apply(self, st, ev):
        st.apply(ev)

    # -- abstraction
    def canon(self, st):
        if st._canon is not None:
            return st._canon
        return self._canon_of(st)

    def _canon_of(self, st):
        w, cl, se, trk = st.w, st.cluster, st.session, st.trk
        now = w.clock.now
        conns = tuple((c.vid, c.creator, c.endpoint.address, c.opened, c.is_closed, c.is_defunct, c.in_flight,
                       len(c.orphaned_request_ids), c.orphaned_threshold_reached, c.open_phase, c.handshake_phase,
                       tuple(sorted(c._requests.keys()))) for c in w.conns)
        pools = tuple(sorted((str(h.endpoint), p.is_shutdown, getattr(p, '_is_replacing', None), getattr(p, '_scheduled_for_creation', None),
                              tuple(c.vid for c in p.get_connections()), getattr(p, 'open_count', None),
                              tuple(sorted(c.vid for c in p._trash))) for h, p in se._pools.items()))
        hosts = tuple(sorted((str(h.endpoint), h.is_up, h._reconnection_handler is not None and not h._reconnection_handler._cancelled,
                              h._currently_handling_node_up) for h in cl.metadata.all_hosts()))
        cc = cl.control_connection
        ccs = (cc._connection.vid if cc._connection is not None else None, cc._is_shutdown,
               cc._reconnection_handler is not None and not cc._reconnection_handler._cancelled)
        tasks = tuple(t[4] for t in w.tasks)
        sched = tuple(sorted((round(e[0] - now, 6), getattr(e[2][0], '__qualname__', '?')) for e in w.sched_tasks))
        timers = tuple(round(t.end - now, 6) for t in w.live_timers())
        pend = tuple((p.conn.vid, p.stream, p.req.get('query', '')) for p in st.pending())
        futs = tuple((f._event.is_set(), type(f._final_exception).__name__, f._query_retries,
                      f._connection.vid if f._connection is not None else None) for f in st.futures)
        up = tuple(h.up for h in st.srv.hosts)
        late = tuple((f._event.is_set(), type(f._final_exception).__name__) for f in st.after)
        return (trk.kind, trk.phase, cl.is_shutdown, se.is_shutdown, conns, pools, hosts, ccs, tasks, sched, timers,
                pend, futs, late, up, st.n_exec, len(st.exec_errors))

    # -- monitors
    def check(self, st, part, hist):
        st._evs = self._events(st)
        st._canon = self._canon_of(st)
        trk = st.trk
        if trk.kind is None:
            return
        data = {'layer': 'E', 'params': self.params, 'history': hist}
        if hist and hist[-1][0] == 'shutdown':
            part.count('shutdown_injection_points')
            part.count('shutdown_injection_points_%s' % trk.kind)
            for k, v in sorted(trk.at_shutdown.items()):
                if v:
                    part.count('injected_with_%s' % k)
            part.mark_nontrivial(repr(('E', self.params.get('scenario'), hist)))
            part.sample({'layer': 'E', 'scenario': self.params.get('scenario'), 'history': hist,
                         'state_at_shutdown': sorted(k for k, v in trk.at_shutdown.items() if v)})
        part.count('judged_states')
        before = len(st.w.conns)
        st.judge(part, data, 'E')
        part.outcome(('E', trk.kind, 'open-after-drain=%d' % len(st.open_conns()),
                      'opened-in-or-after-shutdown=%d' % sum(1 for c in st.w.conns[:before] if c.open_phase is not None)))
        if any(c.handshake_phase not in ('before', 'never', 'failed') for c in st.w.conns[:before]):
            part.count('histories_with_handshake_completed_after_shutdown_began')
        if any(a[1] is not None and a[1].startswith(('draining', 'returned')) and a[2] == 'failed' for a in trk.attempt_log):
            part.count('histories_with_connection_attempt_failing_after_shutdown_did_its_work')

    def cleanup(self, st):
        st.close()
        _GC[0] += 1
        if _GC[0] % 16 == 0:
            gc.collect()


# ------------------------------------------------------------------------------ configurations
def e_configs(ctx):
    t = ctx.thorough
    tw = 2 if t else 1          # the real executor has two workers: either of the first two queued tasks may run first
    q = [
        # requests in flight / timing out, new requests
        ('requests', dict(scenario='requests', alphabet=['exec', 'respond', 'timer'] + (['exec_after'] if t else []), max_exec=2,
                          task_window=tw), 8 if t else 6),
        # orphaned-stream threshold 1: a client timeout makes the pool replace its connection (old one trashed or closed)
        ('replace', dict(scenario='replace', hosts=1, orphaned_threshold=1, alphabet=['exec', 'respond', 'timer'], max_exec=3,
                         task_window=tw), 9 if t else 8),
        # a node dies with a request in flight: on_down, reconnector, probes; node back: on_up, new pool
        ('reconnect', dict(scenario='reconnect', alphabet=['kill', 'revive', 'sched'] + (['push'] if t else []),
                           prefix=[('exec',), ('exec',)], max_exec=2, killable=(1,), task_window=tw), 10 if t else 9),
        # the control connection's node dies: control connection reconnect (+ its reconnection handler when nobody is up)
        ('control', dict(scenario='control', alphabet=['kill', 'revive', 'sched'], prefix=[('exec',), ('exec',)], max_exec=2,
                         killable=(0, 1) if t else (0,), task_window=tw), 10 if t else 8),
        # the only node died: ControlConnection._reconnect found no host and armed the scheduled _ControlReconnectionHandler (prefix);
        # host reconnection attempts while the node is dead, node back, probe, pool re-creation, the scheduled control attempt
        ('ctlsched', dict(scenario='ctlsched', hosts=1, alphabet=['revive', 'sched'] + (['kill'] if t else []),
                          prefix=[('exec',), ('exec',), ('kill', 0)] + [('task', 0)] * 5, max_exec=2, killable=(0,), task_window=tw),
         9 if t else 7),
        # the same with reconnection delay 0 (ConstantReconnectionPolicy(0): every next attempt is due at once, zero-delay
        # schedule() calls): small
        ('ctlsched0', dict(scenario='ctlsched0', hosts=1, reconnect_delay=0, reconnect_attempts=8, alphabet=['revive', 'sched'],
                           prefix=[('exec',), ('exec',), ('kill', 0), ('advance', 'control-handler-armed')], max_exec=2, killable=(0,),
                           task_window=tw), 7 if t else 6),
        # three nodes, the control connection's node dies and the next node of the plan does not serve NEW connections
        # (closes them at the first / third request, never answers, fails STARTUP): the reconnect has to go on to the third
    ] + [
        ('control3-' + f, dict(scenario='control3-' + f, hosts=3, degraded={1: f}, alphabet=['kill', 'revive', 'sched'], prefix=[('exec',), ('exec',)],
                               max_exec=2, killable=(0,), task_window=tw), 9 if t else 7)
        for f in (('eof0', 'eof2', 'mute0', 'err1') if t else ('eof0', 'eof2', 'mute0'))
    ] + [
        # protocol v2, legacy HostConnectionPool (1..2 connections per host, a second one is opened when the first is busy)
        ('legacy', dict(scenario='legacy', protocol_version=2, legacy_pool=(1, 2, 1), alphabet=['exec', 'respond', 'timer'], max_exec=3,
                        task_window=tw), 8 if t else 6),
        # a third node joins (NEW_NODE): refresh, on_add, pool creation; UP/DOWN status events
        ('addnode', dict(scenario='addnode', alphabet=['addnode', 'sched', 'push'], killable=(1,), task_window=tw), 8 if t else 6),
    ]
    return q


# ------------------------------------------------------------------------------ layer S
_FOCUS = []


@sched.gc_quiet
def s_harness(params, prefix, part):
    """One schedule of: client thread calling <kind>.shutdown() (for scenario 'connect' also a client
    thread inside Cluster.connect()), executor worker thread(s) running the queued tasks, reactor thread
    delivering the server's answers.  Judged after the threads have ended."""
    if not _FOCUS:
        _FOCUS.extend(c45lib.focus_codes())
    race_connect = params.get('race_connect', False)
    st = c45lib.C45World(params, connect=not race_connect)
    data = {'layer': 'S', 'params': params, 'prefix': list(prefix)}
    try:
        for ev in params.get('prefix', ()):
            st.apply(tuple(ev))
        if params.get('server', 'ok') != 'ok':
            # how the node treats the first connection attempt made from now on (c45lib.FAULTS); later ones are served
            st.fail_next_connection(params['server'])
        if params.get('later', 'ok') != 'ok':
            # ... and every later attempt like this (e.g. 'refuse': no node takes a new connection any more)
            st.faults.append([None, None, c45lib.FAULTS[params['later']]])
        s = sched.Scheduler(prefix, focus=_FOCUS, horizon=params.get('horizon', 60000), clock=st.w.clock)
        kind = params['kind']
        clients = [('shutdown', lambda: st.shutdown(kind))]
        res = {}
        if race_connect:
            def do_connect():
                try:
                    st.session = st.cluster.connect()
                    res['connect'] = 'session'
                except Exception as e:
                    res['connect'] = type(e).__name__
            clients.insert(0, ('connect', do_connect))
        if st.held_use():
            # the node's answer to the application's USE (sent in the prefix) arrives at some moment of the schedule
            clients.append(('node-answers-use', st.release_use))
        n0 = len(st.w.conns)
        c45lib.run_schedule(st, s, clients, nworkers=params.get('workers', 1))
        data['prefix'] = s.choices()
        if s.failure:
            part.violation('C45/%s/%s/%s' % (kind, s.failure[0], params['scenario']), '%s ; scenario %s' % (s.failure[1], params['scenario']), data)
            return s
        for t in s.threads:
            if t.exc is not None:
                part.violation('C45/%s/thread-exception/%s/%s' % (kind, t.name, type(t.exc).__name__),
                               '%r in thread %s: %s' % (t.exc, t.name, getattr(t, 'exc_tb', '')), data)
        trk = st.trk
        nontrivial = any(p.chosen for p in s.trace)
        if nontrivial:
            part.mark_nontrivial(repr(('S', params['scenario'], kind, params.get('server'), s.choices())))
        part.count('judged_states')
        part.count('S_executions')
        flags = sorted(k for k, v in trk.at_shutdown.items() if v)
        for k in flags:
            part.count('S_injected_with_%s' % k)
        before = len(st.w.conns)
        hs_after = any(c.handshake_phase not in ('before', 'never', 'failed') for c in st.w.conns)
        opened_before_done_after = any(c.open_phase is None and c.handshake_phase not in ('before', 'never', 'failed') for c in st.w.conns)
        if hs_after:
            part.count('histories_with_handshake_completed_after_shutdown_began')
        if opened_before_done_after:
            part.count('S_histories_with_connection_mid_handshake_at_shutdown')
        done = ('draining', 'returned')
        if any(a[0] in (None, 'in') and a[1] in done and a[2] == 'failed' for a in trk.attempt_log):
            part.count('S_histories_with_attempt_under_way_at_shutdown_failing_after_it')
        if any(a[0] in (None, 'in') and a[1] in done and a[2] == 'connected' for a in trk.attempt_log):
            part.count('S_histories_with_attempt_under_way_at_shutdown_connecting_after_it')
        for act in trk.handler_runs:
            # a scheduled reconnection attempt whose handler was cancelled (ControlConnection.shutdown(), Cluster.on_up() ...)
            # between the start and the end of the attempt, after the attempt had opened its connection
            if act.cancelled_during_attempt() and any(c.opened for c in act.conns):
                part.count('S_histories_with_%s_reconnection_handler_cancelled_during_its_attempt' % act.kind)
                if any(c.handshake_phase not in ('never', 'failed') for c in act.conns):
                    part.count('S_histories_with_%s_reconnection_handler_cancelled_during_its_attempt_that_then_connected' % act.kind)
        for c in st.w.conns[n0:]:
            if c.creator in c45lib.POOL_KINDS and len(set(u[0] for u in c.use_log)) > 1:
                part.count('S_histories_with_keyspace_switch_on_connection_being_opened')
                if any(u[1] == 'before' and u[2] not in ('before', None) for u in c.use_log[1:]):
                    part.count('S_histories_with_shutdown_inside_that_keyspace_switch')
                break
        part.sample({'layer': 'S', 'scenario': params['scenario'], 'kind': kind, 'choices': s.choices(),
                     'state_at_shutdown': flags, 'connect': res.get('connect')}, limit=1)
        st.judge(part, data, 'S')
        part.outcome(('S', params['scenario'], kind, res.get('connect', ''), 'open-after-drain=%d' % len(st.open_conns()),
                      'mid-handshake-at-shutdown' if opened_before_done_after else ''))
        return s
    finally:
        st.close()


def s_configs(ctx):
    """[(params, preemption bound, execution cap per subtree or None)]"""
    to_probe = [('exec',), ('exec',), ('kill', 1), ('task', 0), ('task', 0), ('task', 0), ('revive', 1), ('sched',)]
    base = [
        # orphaned-stream threshold reached: HostConnection._replace is queued
        ('replace', dict(hosts=1, orphaned_threshold=1, prefix=[('exec',), ('timer',), ('exec',)])),
        # node was down, is back, the reconnection attempt (_HostReconnectionHandler.run) is queued
        ('probe', dict(prefix=to_probe)),
        # the attempt succeeded: Cluster.on_up queued the pool creation (run_add_or_renew_pool)
        ('poolcreate', dict(prefix=to_probe + [('task', 0)])),
        # the control connection's node died: ControlConnection._reconnect is queued
        ('control', dict(prefix=[('exec',), ('exec',), ('kill', 0), ('task', 0), ('task', 0)])),
        # protocol v2 pool whose only connection is busy: HostConnectionPool._create_new_connection is queued
        ('legacyspawn', dict(protocol_version=2, legacy_pool=(1, 2, 1), prefix=[('exec',)])),
    ]
    out = []
    for name, p in base:
        for kind in ('cluster', 'session'):
            for server in ('ok', 'refuse'):
                if not ctx.thorough and ((server == 'refuse' and name == 'legacyspawn') or
                                         (kind == 'session' and server == 'ok' and name in ('probe', 'control', 'legacyspawn'))):
                    # thorough only: the refusal marks the node down, a long cascade (about 6000 executions each);
                    # Session.shutdown() against the cluster-level tasks (3700 / 4700 executions) and the v2 pool (2200)
                    continue
                # quick: the long control-connection reconnect task only with switches at blocking points (bound 0)
                bound = 0 if (name == 'control' and server == 'ok' and not ctx.thorough) else 1
                out.append((dict(p, scenario=name, kind=kind, server=server), bound, None))
    if ctx.thorough:
        for name, p in base:
            for kind in ('cluster', 'session'):
                out.append((dict(p, scenario=name, kind=kind, server='ok', workers=2), 1, 60))
    # the session keyspace changes while a pool connection is being opened: the application's USE was sent before (prefix), the
    # node's answer arrives at a moment the schedule chooses (thread 'node-answers-use'); the pool creation / replacement then
    # has to move its new connection to the new keyspace (lock released meanwhile) before it publishes it.  Four or five
    # threads: switches at blocking points only (thorough: + 1 preemption under a per-subtree cap)
    ks = [('poolks', dict(keyspace='ks1', prefix=to_probe + [('task', 0), ('use', 'ks2')])),
          ('replaceks', dict(hosts=1, orphaned_threshold=1, keyspace='ks1', prefix=[('exec',), ('timer',), ('exec',), ('use', 'ks2')]))]
    for name, p in ks:
        for kind in ('cluster', 'session'):
            out.append((dict(p, scenario=name, kind=kind, server='ok'), 0, None))
            if ctx.thorough:
                out.append((dict(p, scenario=name, kind=kind, server='ok'), 1, 12))
    # control-connection reconnect over a plan of two nodes (three nodes, the control connection's node died); the attempt to
    # the first one fails in each way a node can fail a connection (c45lib.FAULTS).  The second node serves: switches at blocking
    # points (a long cascade follows); no node takes a connection any more (short): + 1 preemption
    c3 = dict(hosts=3, prefix=[('exec',), ('exec',), ('kill', 0), ('task', 0), ('task', 0)])
    for f in sorted(c45lib.FAULTS):
        out.append((dict(c3, scenario='control3', kind='cluster', server=f), 0, None))
        if ctx.thorough:
            out.append((dict(c3, scenario='control3', kind='cluster', server=f), 1, 8))
    for f in ('eof0', 'eof2', 'err1', 'mute0'):
        out.append((dict(c3, scenario='control3', kind='cluster', server=f, later='refuse'), 1, None))
    # scheduled reconnection attempts (_ReconnectionHandler.run moved to the executor by the scheduler) under way when the
    # shutdown comes.  Control connection: its node died while no other node was reachable, so ControlConnection._reconnect
    # got NoHostAvailable and armed the _ControlReconnectionHandler; the node is back (host reconnector probed it, pool
    # re-created), the handler's next attempt is queued.  The shutdown (which cancels the handler) runs while the attempt waits
    # for the node: during the handshake, for REGISTER, for the system.local / peers answers (switches at blocking points);
    # the attempt's node fails it in each way (c45lib.FAULTS); refused: + 1 preemption (short).  One node, and two nodes of
    # which one stays down.
    to_ctl1 = [('exec',), ('exec',), ('kill', 0)] + [('task', 0)] * 5 + [('revive', 0), ('sched',), ('task', 0), ('task', 0), ('sched',)]
    to_ctl2 = [('exec',), ('exec',), ('kill', 0), ('kill', 1)] + [('task', 0)] * 7 + [('revive', 0), ('sched',), ('sched',)] + \
        [('task', 0)] * 3 + [('sched',)]
    for name, p in (('ctlsched', dict(hosts=1, prefix=to_ctl1)), ('ctlsched2', dict(hosts=2, prefix=to_ctl2))):
        out.append((dict(p, scenario=name, kind='cluster', server='ok'), 0, None))
        if ctx.thorough:
            if name == 'ctlsched':
                out.append((dict(p, scenario=name, kind='cluster', server='ok'), 1, None))     # about 4200 executions
            out.append((dict(p, scenario=name, kind='session', server='ok'), 0, None))
        if name == 'ctlsched':
            for f in sorted(c45lib.FAULTS):
                out.append((dict(p, scenario=name, kind='cluster', server=f), 1 if f == 'refuse' else 0, None))
    # host reconnector: its scheduled attempt (probe connection) is queued and so is the Cluster.on_up() that a STATUS_CHANGE UP
    # event from the node scheduled, which cancels the reconnector: two executor workers, so the handler is cancelled while its
    # attempt's connection is being opened; the shutdown comes at any blocking point of the two
    to_probe_up = to_probe + [('push', 'UP', 1), ('sched',)]
    out.append((dict(prefix=to_probe_up, scenario='probeup', kind='cluster', server='ok', workers=2), 0, None))
    # the reconnection delay is a parameter of the world: with ConstantReconnectionPolicy(0) the next attempt of a handler is due
    # the moment the previous one failed (zero-delay schedule() calls).  The scheduled control-connection attempt (one node, back
    # again) and the host reconnector's attempt (two nodes) are queued (goal-directed prefix: default continuation until the
    # attempt is at the head of the executor queue, however the driver got it there); the attempt FAILS in each way while the
    # shutdown is under way, so that the handler asks for its next attempt of a scheduler that is being / has been stopped
    zero = dict(reconnect_delay=0, reconnect_attempts=8)
    to_ctl0 = [('exec',), ('exec',), ('kill', 0), ('advance', 'control-handler-armed'), ('revive', 0), ('advance', 'control-attempt-queued')]
    to_probe0 = [('exec',), ('exec',), ('kill', 1), ('advance', 'host-attempt-queued'), ('revive', 1)]
    for name, p in (('ctlsched0', dict(zero, hosts=1, prefix=to_ctl0)), ('probe0', dict(zero, prefix=to_probe0))):
        for f in sorted(c45lib.FAULTS) if (ctx.thorough or name == 'ctlsched0') else ('refuse', 'eof0'):
            out.append((dict(p, scenario=name, kind='cluster', server=f), 1 if f == 'refuse' else 0, None))
        if ctx.thorough:
            out.append((dict(p, scenario=name, kind='cluster', server='eof0'), 1, 40))
    # Cluster.connect() in one client thread, Cluster.shutdown() in another, from an unconnected cluster
    for order in ((1, -1) if ctx.thorough else (1,)):
        out.append((dict(scenario='connect', kind='cluster', server='ok', race_connect=True, future_order=order),
                    0, None))
    if ctx.thorough:
        out.append((dict(scenario='connect', kind='cluster', server='ok', race_connect=True, future_order=1), 1, 100))
    return out


def _s_root(args):
    params, bound, cap = args
    part = Part()
    s = s_harness(params, [], part)
    part.count('executions')
    part.count('transitions', s.steps)
    return part, [k for k, _ in sched.children(s.trace, 0, bound)], len(s.trace)


def _s_subtree(args):
    """All executions below one first-level deviation (disjoint from the other subtrees)."""
    params, bound, cap, prefix = args
    part = Part()
    stack, n, maxpts, capped = [prefix], 0, 0, False
    while stack:
        if cap is not None and n >= cap:
            capped = True
            part.count('S_subtrees_capped')
            break
        pre = stack.pop()
        s = s_harness(params, pre, part)
        n += 1
        maxpts = max(maxpts, len(s.trace))
        part.count('executions')
        part.count('transitions', s.steps)
        stack.extend(k for k, _ in sched.children(s.trace, len(pre), bound))
    return part, n, maxpts, capped


def run_s(ctx):
    cfgs = s_configs(ctx)
    roots = ctx.pmap(_s_root, cfgs)
    jobs, info = [], {}
    for (params, bound, cap), (part, kids, npts) in zip(cfgs, roots):
        ctx.merge(part)
        name = 'c45-S-%s-%s-%s%s%s%s-b%d' % (params['scenario'], params['kind'], params['server'],
                                            '-then-' + params['later'] if params.get('later') else '',
                                            '-w2' if params.get('workers') == 2 else '',
                                          '-newest-first' if params.get('future_order') == -1 else '', bound)
        info[name] = {'params': jsonable(params), 'preemption_bound': bound, 'executions': 1, 'max_choice_points': npts,
                      'subtree_cap': cap, 'complete': True}
        for k in kids:
            jobs.append((name, (params, bound, cap, k)))
    jobs = ctx.rotate(jobs)
    # big subtrees first would need their size; a fine-grained chunking balances well enough
    results = ctx.pmap(_s_subtree, [j for _, j in jobs], chunksize=max(1, len(jobs) // (ctx.nproc * 16)))
    s_samples = []
    for (name, _), (part, n, maxpts, capped) in zip(jobs, results):
        ctx.merge(part)
        if len(s_samples) < 2 and part.samples and part.samples[0].get('state_at_shutdown'):
            s_samples.append(part.samples[0])
        info[name]['executions'] += n
        info[name]['max_choice_points'] = max(info[name]['max_choice_points'], maxpts)
        info[name]['subtrees'] = info[name].get('subtrees', 0) + 1
        if capped:
            info[name]['complete'] = False
            info[name]['subtrees_cut'] = info[name].get('subtrees_cut', 0) + 1
    for name, d in info.items():
        ctx.cov.setdefault('harnesses', {})[name] = d
        if not d['complete']:
            ctx.cap('%s: %d of the %d subtrees below a first deviation were cut at %d executions each (depth-first, preemption bound %d); '
                    'the default schedule and every single deviation from it were run' % (
                        name, d['subtrees_cut'], d['subtrees'], d['subtree_cap'], d['preemption_bound']))
    ctx.count('states', ctx.counters.get('S_executions', 0))
    return s_samples


def run(ctx):
    gc.collect()
    gc.freeze()
    for name, params, depth in e_configs(ctx):
        explore.bfs(ctx, H, params, max_depth=depth, label='c45-E-' + name, max_states=400000)
    explore.close_pool()
    t_e = ctx.elapsed()
    s_samples = run_s(ctx)
    e_samples = [x for x in ctx.samples if isinstance(x, dict) and x.get('state_at_shutdown')] or list(ctx.samples)
    ctx.cov['samples'] = e_samples[:3] + s_samples
    ctx.cov['wall_s_by_layer'] = {'E': round(t_e, 1), 'S': round(ctx.elapsed() - t_e, 1)}
    c = ctx.counters
    ctx.cov['shutdown_injection_points'] = {
        'E (distinct canonical pre-shutdown states x {cluster, session})': c.get('shutdown_injection_points', 0),
        'S (executions; the shutdown thread starts/resumes at a different scheduling point in each)': c.get('S_executions', 0)}
    ctx.cov['non_vacuity'] = {k: v for k, v in sorted(c.items()) if k.startswith(('injected_with_', 'S_injected_with_', 'histories_with', 'S_histories'))}
    ctx.cov['rule'] = ('E: state = event history replayed on a fresh real Cluster+Session; every state behind a shutdown event is drained by the '
                       'default continuation and judged; non-trivial = distinct (scenario, history) at which a shutdown was injected.  '
                       'S: one execution per schedule within the preemption bound, judged after the threads ended; non-trivial = execution '
                       'with at least one non-default scheduling choice.  outcomes = (layer, kind, connections still open, ...), probe results.  '
                       'non_vacuity counts executions / injection points by what was going on: ..._attempt_under_way_at_shutdown_failing_after_it = '
                       'a Connection.factory() call begun before the shutdown had done its work ended with an exception after that; '
                       '..._shutdown_inside_that_keyspace_switch = the node received the USE for the changed keyspace on a connection being '
                       'opened before the shutdown was called and its answer was read after the call had begun; '
                       '..._injected_with_scheduled_<control|host>_reconnection_attempt_<connecting|connected> = at the call of shutdown() a '
                       '_ReconnectionHandler.run task of that handler kind was running and its connection was open (handshake under way / done); '
                       '..._reconnection_handler_cancelled_during_its_attempt = the handler was not cancelled when its attempt began and was '
                       'when it was over (host: when its Connection.factory() call ended; control: when the task ended), the attempt having '
                       'opened a connection.  Scenarios ctlsched0 / probe0 run with reconnection delay 0; their prefix is goal-directed '
                       '(event (\'advance\', goal): default continuation until the handler is armed / its attempt is at the head of the '
                       'executor queue).')
    ctx.assume('"after shutdown" is judged from the moment the shutdown call has returned; what the call itself runs while draining the '
               'executor (ThreadPoolExecutor.shutdown(wait=True) lets queued tasks run) is part of the call: such a task may still make '
               'the ONE connection attempt it is about (it must close it).  Not a second one: once an attempt of an activity has ended '
               'while Cluster.shutdown() had set every flag, shut down scheduler, control connection and sessions and was only waiting '
               'for the executor (or had returned), a further attempt by that activity is a new attempt after the shutdown')
    ctx.assume('the scheduler is stopped from the moment _Scheduler.shutdown() has returned inside Cluster.shutdown(); a reconnection '
               'attempt task handed to the executor from then on (whoever hands it over) that goes as far as constructing a connection '
               'is a reconnection attempt started after the shutdown, also while Cluster.shutdown() has not returned yet; one handed '
               'over before that moment and still queued is covered by the first assumption')
    ctx.assume('an attempt of an activity ends when Connection.factory() returns or raises in its thread, or when that thread calls close() '
               'on a connection; a shutdown that completes between that moment and the start of the next attempt is not held against '
               'the driver (check-then-act window without a lock)')
    ctx.assume('a node fails a new connection by refusing it, closing it (EOF -> close(), as the shipped reactors do), answering with an '
               'ERROR frame, or not answering (the connect timeout passes only when no thread can run); protocol-version negotiation '
               '(downgrade and retry inside _try_connect) is not enumerated: the cluster is created with an explicit version')
    ctx.assume('Session.shutdown(): the connections the session opened are its pools\' connections (creation and replacement); the '
               'control connection and host reconnection probes belong to the cluster and are judged after the following Cluster.shutdown()')
    ctx.assume('event handlers are atomic in layer E (single-threaded histories); preemption inside them is layer S, at source-line granularity')
    ctx.assume('virtual server answers are well-formed protocol v4 frames; a dead node resets its connections and refuses new ones')
    ctx.assume('requests in flight when the shutdown is called are outside the statement (only NEW requests must be refused); their fate is recorded as an outcome')


def replay(ctx, data):
    if data.get('layer') == 'E':
        part = explore.replay(H, data['params'], [tuple(e) for e in data['history']])
    else:
        part = Part()
        params = dict(data['params'])
        if 'prefix' in params:
            params['prefix'] = [tuple(e) for e in params['prefix']]
        s_harness(params, data['prefix'], part)
    for fp, what, _ in part.violations:
        print(fp, '::', what)
    return bool(part.violations)
