"""C16 Retries do exactly what the retry policy decided.

Every error sequence (length <= 3) x scripted decision x consistency chosen by the policy is
played against a real Session; the frames the virtual nodes received and the final outcome are
compared with a reference interpretation of the decision list over the query plan.
"""
import itertools

from vt import reqworld
from vt.core import Part, HarnessError

META = {
    'level': 'model_checking',
    'engine': 'E',
    'technique': 'exhaustive enumeration of error/decision histories on the real Session, compared with a reference interpreter of the retry decisions',
    'text': 'All sequences of up to 3 errors over {read/write timeout, unavailable, overloaded, bootstrapping, server error, '
            'truncate, connection failure} x decision {RETRY, RETRY_NEXT_HOST, RETHROW, IGNORE} x policy-chosen consistency '
            '{None, ANY, QUORUM} (thorough: + ONE), ended by a success, are replayed on a real 3-host Session (fixed plan): the (host, consistency) '
            'of every frame received, the hook and retry_num of every policy call and the final outcome must equal the reference; '
            'statement kinds x speculative policy: SimpleStatement, PreparedStatement handed to the session, BoundStatement '
            '(mark inherited from the PreparedStatement, overridden to False, overridden to True), BatchStatement (own mark x member '
            'kind simple/bound x member mark), each with the mark set and cleared, with 0/1/2 speculative executions allowed: after every '
            'speculative timer before the client timeout has fired, a statement whose own is_idempotent is False has produced exactly '
            'one frame (one marked idempotent 1 + allowed), and after a following RETRY_NEXT_HOST decision exactly two.  Speculative '
            'layer: BFS over every order of {speculative timer fires, outstanding attempt i answered with rows or a retryable error '
            'and each decision} with 1-2 speculative executions (several attempts outstanding on different hosts), a reference '
            'model advanced with every event: RETRY goes to the host whose attempt failed, RETRY_NEXT_HOST to the next unused host '
            'of the shared plan, the consistency chosen by the policy is carried by every later frame.  Stream-id layer: the position of '
            'each connection\'s stream-id queue is part of the initial state: besides the queue as it is after the handshake, every error '
            'sequence of the quick alphabet (thorough: + all sequences of <= 2 errors) is replayed with every connection\'s queue cycled so that '
            'stream id 0 (a valid id, re-issued every ~300 frames) is handed to frame number j on it, for every j up to the largest number of '
            'frames the reference puts on one host (first / next-host attempt, 1st, 2nd, 3rd same-host retry); the statement-kind cases are run '
            'with id 0 on the first frame of every connection (first, speculative and next-host attempts); the speculative BFS is run with 1 and '
            '2 speculative executions and id 0 on frame 0, 1 (and 2) of every connection.  In each the harness checks that the frame really '
            'went out on stream id 0.',
    'note': 'Executor tasks are run to completion after each event (ordering of tasks is explored by C14). The reference '
            'interpreter is 40 lines in this file and follows the RetryPolicy documentation.',
    'design_ref': 'C16',
}

KINDS = ['read_timeout', 'write_timeout', 'unavailable', 'overloaded', 'bootstrapping', 'server_error', 'truncate', 'fault']
HOOK = {'read_timeout': 'read_timeout', 'write_timeout': 'write_timeout', 'unavailable': 'unavailable',
        'overloaded': 'request_error', 'bootstrapping': 'request_error', 'server_error': 'request_error',
        'truncate': 'request_error', 'fault': 'request_error'}
EXC = {'read_timeout': 'ReadTimeout', 'write_timeout': 'WriteTimeout', 'unavailable': 'Unavailable',
       'overloaded': 'OverloadedErrorMessage', 'bootstrapping': 'IsBootstrappingErrorMessage',
       'server_error': 'ServerError', 'truncate': 'TruncateError', 'fault': 'ConnectionShutdown'}
CLS = {None: None, 'ONE': 1, 'QUORUM': 4, 'ANY': 0}
START_CL = 6   # LOCAL_QUORUM


def reference(seq, plan):
    """-> (frames [(host, cl)], calls [(hook, retry_num)], outcome)"""
    frames, calls = [], []
    hi, cl, retries = 0, START_CL, 0
    frames.append((plan[hi], cl))
    for kind, decision, newcl in seq:
        calls.append((HOOK[kind], retries))
        if decision == 'RETHROW':
            return frames, calls, ('error', EXC[kind])
        if decision == 'IGNORE':
            return frames, calls, ('result', 'empty')
        retries += 1
        if CLS[newcl] is not None:
            cl = CLS[newcl]
        if decision == 'RETRY_NEXT_HOST' or kind == 'fault':
            # a failed connection cannot be reused: its pool has no open connection until it is replaced
            if decision == 'RETRY' and kind == 'fault':
                return None      # outcome depends on replacement timing: not judged here
            hi += 1
            if hi >= len(plan):
                return frames, calls, ('error', 'NoHostAvailable')
        frames.append((plan[hi], cl))
    return frames, calls, ('result', 'rows')


def sequences(quick):
    later = ['read_timeout', 'unavailable', 'overloaded', 'fault'] if quick else KINDS
    # ANY has the numeric value 0: a decision carrying it must be honoured like any other level
    cont = [(d, c) for d in ('RETRY', 'RETRY_NEXT_HOST') for c in ((None, 'ANY', 'QUORUM') if quick else (None, 'ANY', 'ONE', 'QUORUM'))]
    term = [('RETHROW', None), ('IGNORE', None)]
    out = [()]
    for n in (1, 2, 3):
        tail = later if (n < 3 or not quick) else ['read_timeout', 'fault']
        for kinds in itertools.product(*([KINDS] + [tail] * (n - 1))):
            for conts in itertools.product(cont, repeat=n - 1):
                for last in term + cont:
                    steps = tuple((k, d, c) for k, (d, c) in zip(kinds, list(conts) + [last]))
                    out.append(steps)
    return out


def id0_positions(ref):
    """Positions of stream id 0 worth telling apart for one sequence: None = the connections' id queues as they are
    after the handshake (stream id 0 is ~300 frames away), j = every connection's queue has cycled so that stream id 0 is
    handed to the (j+1)-th frame sent on it, for every j up to the largest number of frames the reference puts on
    one host (j = 0: a first attempt / next-host attempt, j >= 1: the j-th retry on the same host)."""
    per_host = {}
    for h, _ in ref[0]:
        per_host[h] = per_host.get(h, 0) + 1
    return [None] + list(range(max(per_host.values())))


def play(seq, idempotent=True, spec=0, id0=None):
    st = reqworld.ReqWorld(dict(hosts=3, spec=spec, timeout=10.0, id0=id0 is not None, id0_offset=id0 or 0))
    try:
        from cassandra import ConsistencyLevel
        f = st.execute('x', idempotent=idempotent, stmt_kw={'consistency_level': ConsistencyLevel.LOCAL_QUORUM})
        for kind, decision, newcl in seq:
            pend = st.pending()
            if len(pend) != 1:
                return st, f, 'expected exactly one outstanding attempt, found %d' % len(pend)
            st.retry.next = (decision, CLS[newcl])
            if kind == 'fault':
                p = pend[0]
                st.server.pending.remove(p)
                p.conn.defunct(OSError(104, 'reset'))
            else:
                st.respond(0, kind)
            guard = 0
            while st.w.tasks and guard < 50:
                st.w.run_task(0)
                st.w.deliver_outbox()
                guard += 1
        pend = st.pending()
        if pend and not f._event.is_set():
            st.respond(0, 'rows')
        return st, f, None
    except BaseException:
        st.close()
        raise


def observe(st, f):
    frames = [(a, r.get('consistency')) for a, r in st.sent_app_requests() if r['op'] == 'QUERY' and r.get('query') == 'SELECT x']
    calls = [(h, n) for h, n, _ in st.retry.calls]
    if not f._event.is_set():
        out = ('open', '')
    elif f._final_exception is not None:
        out = ('error', type(f._final_exception).__name__)
    else:
        r = f._final_result
        out = ('result', 'empty' if not r else 'rows')
    return frames, calls, out


def frame_streams(st, query='SELECT x'):
    """-> {host: [stream id of every frame of the request received by that host, in order]}"""
    out = {}
    conns = st.w.conns
    for vid, stream, req in st.server.received[st.handshake_received:]:
        if req['op'] == 'QUERY' and req.get('query') == query:
            out.setdefault(conns[vid].endpoint.address, []).append(stream)
    return out


def assert_id0_placed(st, id0, what):
    """non-vacuity of the id0 dimension: on every host that received more than id0 frames, frame number id0 carried
    stream id 0 (only called when the frames are the reference's, i.e. the driver behaved)"""
    for host, streams in frame_streams(st).items():
        if len(streams) > id0 and streams[id0] != 0:
            raise HarnessError('C16 %s: frame %d on %s went out on stream %r, not 0 (%r)' % (what, id0, host, streams[id0], streams))


def run_chunk(cases):
    """cases: (error/decision sequence, position of stream id 0 in every connection's id queue or None)"""
    part = Part()
    plan = ['10.0.0.1', '10.0.0.2', '10.0.0.3']
    for seq, id0 in cases:
        ref = reference(seq, plan)
        if ref is None:
            part.count('skipped_replacement_timing')
            continue
        part.count('evaluations')
        data = {'seq': seq, 'id0': id0}
        sfx = '' if id0 is None else '/stream-id-0'
        tag = '%r%s' % (seq, '' if id0 is None else ' with stream id 0 on frame %d of every connection' % id0)
        if id0 is not None:
            part.count('evaluations_stream_id_0')
        st, f, err = play(seq, id0=id0)
        try:
            if err:
                part.violation('C16/unexpected-attempts' + sfx, '%s after %s' % (err, tag), data)
                continue
            got = observe(st, f)
            if id0 is not None and got[0] == ref[0]:
                assert_id0_placed(st, id0, tag)
        finally:
            st.close()
        part.outcome(got[2])
        if len(seq) >= 2:
            part.mark_nontrivial(repr((seq, id0)) if id0 is not None else repr(seq))
        part.sample({'seq': seq, 'id0': id0, 'frames': got[0], 'policy_calls': got[1], 'outcome': got[2]}, limit=2)
        if got[0] != ref[0]:
            which = 'consistency' if [h for h, _ in got[0]] == [h for h, _ in ref[0]] else 'host'
            part.violation('C16/frames/%s%s' % (which, sfx), 'frames %r, reference %r for %s' % (got[0], ref[0], tag), data)
        if got[1] != ref[1]:
            part.violation('C16/policy-calls' + sfx, 'policy consulted %r, reference %r for %s' % (got[1], ref[1], tag), data)
        if got[2] != ref[2]:
            part.violation('C16/outcome/%s%s' % (ref[2][1], sfx), 'outcome %r, reference %r for %s' % (got[2], ref[2], tag), data)
    return part


# ---------------------------------------------------------------------- statement kinds x speculative policy
PREP_QUERY = 'SELECT v FROM ks1.t WHERE k = ?'
PREP_ID = b'qid-C16A'


def stmt_cases():
    """Every way an application can hand a statement to the session, with every placement of the idempotence mark.
    The mark that counts is the one on the statement object the application executes."""
    out = []
    for flag in (True, False):
        out.append(('simple', flag))
        out.append(('prepared', flag))                       # the PreparedStatement itself, bound by the session
        for override in ('inherit', False, True):
            out.append(('bound', flag, override))            # flag of the PreparedStatement, mark set on the BoundStatement
        for mkind in ('simple', 'bound'):
            for mflag in (True, False):
                out.append(('batch', flag, mkind, mflag))    # mark of the BatchStatement, kind and mark of its member
    return out


def marked_idempotent(case):
    """-> True / False (the executed statement's own mark), None = not judged"""
    kind = case[0]
    if kind in ('simple', 'prepared'):
        return case[1]
    if kind == 'bound':
        return case[1] if case[2] == 'inherit' else case[2]
    if kind == 'batch':
        if case[1] and not case[3]:
            return None          # a batch marked idempotent that contains a member not marked: the statement does not say
        return case[1]
    raise ValueError(case)


def stmt_class(case):
    if case[0] == 'bound':
        return 'bound-inherit' if case[2] == 'inherit' else 'bound-own-mark'
    return case[0]


def _prepare(st):
    """Session.prepare() against the auto server (PREPARE answered on every host), then hold again."""
    from vt.world import wire
    srv = st.server
    srv.hold = lambda c, r: False
    st.w.manual = False

    def on_req(server, conn, stream, req):
        if req['op'] == 'PREPARE':
            return wire.OP_RESULT, wire.result_prepared(PREP_ID, [('k', wire.T_INT)], [('v', wire.T_INT)], req['version'],
                                                        pk_indexes=(0,), ks='ks1', table='t')
        return None
    srv.on_request = on_req
    try:
        ps = st.session.prepare(PREP_QUERY)
        st.w.settle()
    finally:
        srv.on_request = None
        srv.hold = st._hold
        st.w.manual = True
    return ps


def build_statement(st, case):
    """-> (statement, parameters) for Session.execute_async"""
    from cassandra.query import SimpleStatement, BatchStatement
    kind = case[0]
    if kind == 'simple':
        return SimpleStatement('SELECT y', is_idempotent=case[1]), None
    if kind == 'prepared':
        ps = _prepare(st)
        ps.is_idempotent = case[1]
        return ps, [1]
    if kind == 'bound':
        ps = _prepare(st)
        ps.is_idempotent = case[1]
        bound = ps.bind([1])
        if case[2] != 'inherit':
            bound.is_idempotent = case[2]
        return bound, None
    if kind == 'batch':
        batch = BatchStatement()
        if case[2] == 'simple':
            batch.add(SimpleStatement('INSERT y', is_idempotent=case[3]))
        else:
            ps = _prepare(st)
            ps.is_idempotent = case[3]
            batch.add(ps.bind([1]))
        batch.is_idempotent = case[1]
        return batch, None
    raise ValueError(case)


def run_spec_chunk(cases):
    """statement kind x placement of the idempotence mark x speculative policy: every speculative timer before the
    client timeout is fired; a statement that is not marked idempotent must have produced exactly one frame"""
    part = Part()
    for item in cases:
        case, spec = item[0], item[1]
        id0 = item[2] if len(item) > 2 else None      # 0: the first frame on every connection carries stream id 0
        case = tuple(case)
        part.count('evaluations')
        sfx = '' if id0 is None else '/stream-id-0'
        st = reqworld.ReqWorld(dict(hosts=3, spec=spec, timeout=10.0))
        try:
            stmt, params = build_statement(st, case)
            if id0 is not None:
                st.place_id0(id0)                     # after Session.prepare() has used and returned its ids
            mark = len(st.server.received)
            f = st.session.execute_async(stmt, params)
            st.futures.append(f)
            t_end = st.w.clock.now + 9.0

            def fire_due():
                fired = 0
                while fired <= 10:
                    live = [t for t in st.w.live_timers() if t.end < t_end]
                    if not live:
                        break
                    st.w.fire_timer(live[0])
                    fired += 1
            fire_due()

            def sent():
                return [(st.w.conns[vid].endpoint.address, req['op']) for vid, stream, req in st.server.received[mark:]
                        if req['op'] in ('QUERY', 'EXECUTE', 'BATCH')]

            def streams():
                return [stream for vid, stream, req in st.server.received[mark:] if req['op'] in ('QUERY', 'EXECUTE', 'BATCH')]
            frames = sent()
            n = len(frames)
            want_op = {'simple': 'QUERY', 'prepared': 'EXECUTE', 'bound': 'EXECUTE', 'batch': 'BATCH'}[case[0]]
            if not frames or any(op != want_op for _, op in frames):
                raise HarnessError('C16 statement kinds: %r produced frames %r' % (case, frames))
            idem = marked_idempotent(case)
            if id0 == 0 and len(set(a for a, _ in frames)) == len(frames) and any(s_ != 0 for s_ in streams()):
                raise HarnessError('C16 statement kinds: %r first frames went out on streams %r, not 0' % (case, streams()))
            part.outcome((stmt_class(case), {True: 'marked', False: 'not-marked', None: 'unjudged'}[idem], spec, n) + ((sfx,) if sfx else ()))
            part.mark_nontrivial(repr((case, spec) + ((id0,) if id0 is not None else ())))
            part.sample({'stmt': case, 'spec': spec, 'id0': id0, 'frames': frames}, limit=2)
            data = {'stmt': list(case), 'spec': spec, 'id0': id0}
            on0 = '' if id0 is None else ', stream id 0 next on every connection'
            if idem is False and n != 1:
                part.violation('C16/speculative-non-idempotent/%s%s' % (stmt_class(case), sfx),
                               'statement %r is not marked idempotent but was sent %d times (%r) with %d speculative executions allowed%s'
                               % (case, n, frames, spec, on0), data)
            if idem is True and n != 1 + spec:
                part.violation('C16/speculative-count/%s%s' % (stmt_class(case), sfx),
                               'statement %r marked idempotent was sent %d times (%r) with %d speculative executions allowed%s'
                               % (case, n, frames, spec, on0), data)
            if idem is False and n == 1:
                # the one attempt fails and the policy moves it to the next host: one more frame, and the speculative
                # timers that become due afterwards still send nothing
                st.retry.next = ('RETRY_NEXT_HOST', None)
                st.respond(0, 'overloaded')
                guard = 0
                while st.w.tasks and guard < 50:
                    st.w.run_task(0)
                    st.w.deliver_outbox()
                    guard += 1
                fire_due()
                frames2 = sent()
                part.outcome((stmt_class(case), 'not-marked', spec, 'after RETRY_NEXT_HOST', len(frames2)))
                if [a for a, _ in frames2] != ['10.0.0.1', '10.0.0.2']:
                    part.violation('C16/speculative-non-idempotent/%s/after-retry%s' % (stmt_class(case), sfx),
                                   'statement %r is not marked idempotent; after one RETRY_NEXT_HOST decision the frames are %r '
                                   '(%d speculative executions allowed%s)' % (case, frames2, spec, on0), data)
        finally:
            st.close()
    return part


# ---------------------------------------------------------------------- speculative executions (BFS)
from vt import explore          # noqa: E402

PLAN = ['10.0.0.1', '10.0.0.2', '10.0.0.3']


class HS(explore.Harness):
    """Several attempts of one request outstanding at once (speculative executions): every order of
    {speculative timer fires, attempt i answered with rows / a retryable error + scripted decision}.
    A reference model of the decisions is advanced with every event; executor tasks run to completion
    after each event.  The model stops judging once it says the request is complete."""
    name = 'c16-spec'

    def init(self):
        from cassandra import ConsistencyLevel
        p = self.params
        # id0: every connection's id queue has cycled; stream id 0 goes to frame number id0_offset sent on it
        st = reqworld.ReqWorld(dict(hosts=3, spec=p['spec'], spec_delay=1.0, timeout=10.0, id0=p.get('id0', False),
                                    id0_offset=p.get('id0_offset', 0)))
        st.execute('x', idempotent=True, stmt_kw={'consistency_level': ConsistencyLevel.LOCAL_QUORUM})
        st.m = {'frames': [(PLAN[0], START_CL)], 'k': 1, 'cl': START_CL, 'retries': 0, 'calls': [], 'done': None,
                'spec_fired': 0, 'undecided': False}
        return st

    def events(self, st):
        p = self.params
        evs = []
        if st.m['done'] is not None or st.m['undecided']:
            return evs
        pend = st.pending()
        for i in range(len(pend)):
            evs.append((('respond', i, 'rows', '', ''), 0))
            for kind in p['kinds']:
                for d in ('RETHROW', 'IGNORE'):
                    evs.append((('respond', i, kind, d, ''), 0))
                for d in ('RETRY', 'RETRY_NEXT_HOST'):
                    for cl in p['cls']:
                        evs.append((('respond', i, kind, d, cl or ''), 0))
        if st.w.live_timers():
            evs.append((('timer',), 0))
        return evs

    def apply(self, st, ev):
        m = st.m
        if ev[0] == 'timer':
            if m['done'] is None:
                if m['spec_fired'] < self.params['spec']:
                    m['spec_fired'] += 1
                    if m['k'] < len(PLAN):
                        m['frames'].append((PLAN[m['k']], m['cl']))
                        m['k'] += 1
                else:
                    m['done'] = ('error', 'OperationTimedOut')
            st.w.fire_timer(st.w.live_timers()[0])
        else:
            _, i, kind, d, cl = ev
            cl = cl or None
            pnd = st.pending()[i]
            host = pnd.conn.endpoint.address
            if m['done'] is None:
                if kind == 'rows':
                    m['done'] = ('result', 'rows')
                else:
                    m['calls'].append((HOOK[kind], m['retries']))
                    if d == 'RETHROW':
                        m['done'] = ('error', EXC[kind])
                    elif d == 'IGNORE':
                        m['done'] = ('result', 'empty')
                    else:
                        m['retries'] += 1
                        if CLS[cl] is not None:
                            m['cl'] = CLS[cl]
                        if d == 'RETRY':
                            m['frames'].append((host, m['cl']))
                        elif m['k'] < len(PLAN):
                            m['frames'].append((PLAN[m['k']], m['cl']))
                            m['k'] += 1
                        else:
                            # plan exhausted while other attempts may still be outstanding
                            m['done'] = ('error', 'NoHostAvailable')
            st.retry.next = (d or 'RETHROW', CLS[cl])
            st.respond(i, kind)
        guard = 0
        while st.w.tasks and guard < 50:
            st.w.run_task(0)
            st.w.deliver_outbox()
            guard += 1

    def observed(self, st):
        f = st.futures[0]
        frames = [(a, r.get('consistency')) for a, r in st.sent_app_requests() if r['op'] == 'QUERY' and r.get('query') == 'SELECT x']
        calls = [(h, n) for h, n, _ in st.retry.calls]
        if not f._event.is_set():
            out = None
        elif f._final_exception is not None:
            out = ('error', type(f._final_exception).__name__)
        else:
            out = ('result', 'empty' if not f._final_result else 'rows')
        return frames, calls, out

    def canon(self, st):
        m = st.m
        return (tuple(m['frames']), m['k'], m['cl'], m['retries'], m['done'], m['spec_fired'], self.observed(st),
                st.pending_canon(), st.timers_canon())

    def check(self, st, part, hist):
        m = st.m
        frames, calls, out = self.observed(st)
        data = {'params': self.params, 'history': hist}
        part.outcome((m['done'] or ('open', ''), len(frames)))
        if len(frames) >= 3:
            part.mark_nontrivial(repr((tuple(frames), tuple(calls))))
        if self.params.get('id0') and frames == m['frames']:
            assert_id0_placed(st, self.params.get('id0_offset', 0), 'speculative layer %r' % (hist,))
        if frames != m['frames']:
            which = 'consistency' if [h for h, _ in frames] == [h for h, _ in m['frames']] else 'host'
            part.violation('C16/spec/frames/%s' % which, 'frames %r, reference %r after %r' % (frames, m['frames'], hist), data)
        if calls != m['calls']:
            part.violation('C16/spec/policy-calls', 'policy consulted %r, reference %r after %r' % (calls, m['calls'], hist), data)
        if out != m['done']:
            part.violation('C16/spec/outcome/%s' % (m['done'][1] if m['done'] else 'open'),
                           'outcome %r, reference %r after %r' % (out, m['done'], hist), data)


def run(ctx):
    for name, params, depth in (
            ('spec1', dict(spec=1, kinds=['overloaded', 'unavailable'], cls=[None, 'ANY']), 4 if ctx.quick else 6),
            ('spec2', dict(spec=2, kinds=['read_timeout'], cls=[None, 'ONE']), 4 if ctx.quick else 6),
            ('spec1-id0', dict(spec=1, kinds=['overloaded'], cls=[None], id0=True), 4 if ctx.quick else 5),
            # stream id 0 on the 2nd / 3rd frame of a connection: a same-host retry of the first or of the speculative attempt
            ('spec1-id0@1', dict(spec=1, kinds=['overloaded'], cls=[None], id0=True, id0_offset=1), 4 if ctx.quick else 5),
            ('spec1-id0@2', dict(spec=1, kinds=['overloaded'], cls=[None], id0=True, id0_offset=2), 4 if ctx.quick else 5),
            ('spec2-id0', dict(spec=2, kinds=['read_timeout'], cls=[None], id0=True), 4 if ctx.quick else 5),
            ('spec2-id0@1', dict(spec=2, kinds=['read_timeout'], cls=[None], id0=True, id0_offset=1), 4 if ctx.quick else 5)):
        explore.bfs(ctx, HS, params, max_depth=depth, label='c16-' + name, max_states=400000 if ctx.thorough else 60000)
    seqs = sequences(ctx.quick)
    # the stream-id-0 dimension: every sequence of the quick alphabet (thorough: + every sequence of <= 2 errors of the
    # thorough alphabet) x every frame position of one connection that stream id 0 can fall on
    quick_set = seqs if ctx.quick else sequences(True)
    qs = set(quick_set)
    id0_seqs = list(quick_set) + ([] if ctx.quick else [s for s in seqs if len(s) <= 2 and s not in qs])
    cases = [(s, None) for s in seqs]
    for s in id0_seqs:
        ref = reference(s, PLAN)
        if ref is not None:
            cases += [(s, j) for j in id0_positions(ref) if j is not None]
    cases = ctx.rotate(cases)
    n = ctx.nproc * 4
    for part in ctx.pmap(run_chunk, [cases[i::n] for i in range(n) if cases[i::n]]):
        ctx.merge(part)
    sc = ctx.rotate([(c, s, i0) for c in stmt_cases() for s in (0, 1, 2) for i0 in (None, 0)])
    for part in ctx.pmap(run_spec_chunk, [sc[i::n] for i in range(n) if sc[i::n]]):
        ctx.merge(part)
    ctx.count('states', ctx.counters.get('evaluations', 0))
    ctx.count('transitions', sum(len(s) + 1 for s, _ in cases))
    ctx.cov['rule'] = ('error sequences of length <= 3, first error from all 8 kinds, later ones from %s (quick: 2 kinds at length 3); decisions and policy-chosen '
                       'consistency enumerated completely; non-trivial = sequence with >= 2 errors; statement kinds: %d (kind, mark placement) cases x {0,1,2} '
                       'speculative executions x stream id 0 {far away, on the first frame of every connection}, each non-trivial; stream id 0: %d sequences x every '
                       'frame position on one connection (%d evaluations); speculative BFS harnesses with id0 / id0_offset params'
                       % ('4 kinds' if ctx.quick else 'all 8 kinds', len(stmt_cases()), len(id0_seqs), sum(1 for _, j in cases if j is not None)))
    ctx.cov['exhaustive'] = True
    ctx.assume('a BatchStatement marked idempotent that contains a member not marked idempotent is executed but its number of frames is not judged')
    ctx.assume('RETRY on the same host after a connection failure depends on when the pool replaces the connection; those sequences are counted as skipped, not judged')


def replay(ctx, data):
    if 'history' in data:
        part = explore.replay(HS, data['params'], [tuple(e) for e in data['history']])
    elif 'seq' in data:
        part = run_chunk([(tuple(tuple(s) for s in data['seq']), data.get('id0'))])
    elif 'stmt' in data:
        part = run_spec_chunk([(tuple(data['stmt']), data['spec'], data.get('id0'))])
    else:
        part = run_spec_chunk([(('simple', data['idempotent']), data['spec'])])
    for fp, what, _ in part.violations:
        print(fp, '::', what)
    return bool(part.violations)
