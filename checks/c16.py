"""C16 Retries do exactly what the retry policy decided.

Every error sequence (length <= 3) x scripted decision x consistency chosen by the policy is
played against a real Session; the frames the virtual nodes received and the final outcome are
compared with a reference interpretation of the decision list over the query plan.
"""
import itertools

from vt import reqworld
from vt.core import Part

META = {
    'level': 'model_checking',
    'engine': 'E',
    'technique': 'exhaustive enumeration of error/decision histories on the real Session, compared with a reference interpreter of the retry decisions',
    'text': 'All sequences of up to 3 errors over {read/write timeout, unavailable, overloaded, bootstrapping, server error, '
            'truncate, connection failure} x decision {RETRY, RETRY_NEXT_HOST, RETHROW, IGNORE} x policy-chosen consistency '
            '{None, ANY, QUORUM} (thorough: + ONE), ended by a success, are replayed on a real 3-host Session (fixed plan): the (host, consistency) '
            'of every frame received, the hook and retry_num of every policy call and the final outcome must equal the reference; '
            'non-idempotent statements with a speculative-execution policy must never produce a second frame.  Speculative '
            'layer: BFS over every order of {speculative timer fires, outstanding attempt i answered with rows or a retryable error '
            'and each decision} with 1-2 speculative executions (several attempts outstanding on different hosts), a reference '
            'model advanced with every event: RETRY goes to the host whose attempt failed, RETRY_NEXT_HOST to the next unused host '
            'of the shared plan, the consistency chosen by the policy is carried by every later frame.',
    'note': 'Executor tasks are run to completion after each event (ordering of tasks is explored by C14). The reference '
            'interpreter is 40 lines in this file and follows the RetryPolicy documentation.',
    'design_ref': 'C16',
}

KINDS = ['read_timeout', 'write_timeout', 'unavailable', 'overloaded', 'bootstrapping', 'server_error', 'truncate', 'fault']
HOOK = {'read_timeout': 'read_timeout', 'write_timeout': 'write_timeout', 'unavailable': 'unavailable',
        'overloaded': 'request_error', 'bootstrapping': 'request_error', 'server_error': 'request_error',
        'truncate': 'request_error', 'fault': 'request_error'}
EXC = {'read_timeout': 'ReadTimeout', 'write_timeout': 'WriteTimeout', 'unavailable': 'Unavailable',
       'overloaded': 'OverloadedErrorMessage', 'bootstrapping': 'IsBootstrappingErrorMessage',
       'server_error': 'ServerError', 'truncate': 'TruncateError', 'fault': 'ConnectionShutdown'}
CLS = {None: None, 'ONE': 1, 'QUORUM': 4, 'ANY': 0}
START_CL = 6   # LOCAL_QUORUM


def reference(seq, plan):
    """-> (frames [(host, cl)], calls [(hook, retry_num)], outcome)"""
    frames, calls = [], []
    hi, cl, retries = 0, START_CL, 0
    frames.append((plan[hi], cl))
    for kind, decision, newcl in seq:
        calls.append((HOOK[kind], retries))
        if decision == 'RETHROW':
            return frames, calls, ('error', EXC[kind])
        if decision == 'IGNORE':
            return frames, calls, ('result', 'empty')
        retries += 1
        if CLS[newcl] is not None:
            cl = CLS[newcl]
        if decision == 'RETRY_NEXT_HOST' or kind == 'fault':
            # a failed connection cannot be reused: its pool has no open connection until it is replaced
            if decision == 'RETRY' and kind == 'fault':
                return None      # outcome depends on replacement timing: not judged here
            hi += 1
            if hi >= len(plan):
                return frames, calls, ('error', 'NoHostAvailable')
        frames.append((plan[hi], cl))
    return frames, calls, ('result', 'rows')


def sequences(quick):
    later = ['read_timeout', 'unavailable', 'overloaded', 'fault'] if quick else KINDS
    # ANY has the numeric value 0: a decision carrying it must be honoured like any other level
    cont = [(d, c) for d in ('RETRY', 'RETRY_NEXT_HOST') for c in ((None, 'ANY', 'QUORUM') if quick else (None, 'ANY', 'ONE', 'QUORUM'))]
    term = [('RETHROW', None), ('IGNORE', None)]
    out = [()]
    for n in (1, 2, 3):
        tail = later if (n < 3 or not quick) else ['read_timeout', 'fault']
        for kinds in itertools.product(*([KINDS] + [tail] * (n - 1))):
            for conts in itertools.product(cont, repeat=n - 1):
                for last in term + cont:
                    steps = tuple((k, d, c) for k, (d, c) in zip(kinds, list(conts) + [last]))
                    out.append(steps)
    return out


def play(seq, idempotent=True, spec=0):
    st = reqworld.ReqWorld(dict(hosts=3, spec=spec, timeout=10.0))
    try:
        from cassandra import ConsistencyLevel
        f = st.execute('x', idempotent=idempotent, stmt_kw={'consistency_level': ConsistencyLevel.LOCAL_QUORUM})
        for kind, decision, newcl in seq:
            pend = st.pending()
            if len(pend) != 1:
                return st, f, 'expected exactly one outstanding attempt, found %d' % len(pend)
            st.retry.next = (decision, CLS[newcl])
            if kind == 'fault':
                p = pend[0]
                st.server.pending.remove(p)
                p.conn.defunct(OSError(104, 'reset'))
            else:
                st.respond(0, kind)
            guard = 0
            while st.w.tasks and guard < 50:
                st.w.run_task(0)
                st.w.deliver_outbox()
                guard += 1
        pend = st.pending()
        if pend and not f._event.is_set():
            st.respond(0, 'rows')
        return st, f, None
    except BaseException:
        st.close()
        raise


def observe(st, f):
    frames = [(a, r.get('consistency')) for a, r in st.sent_app_requests() if r['op'] == 'QUERY' and r.get('query') == 'SELECT x']
    calls = [(h, n) for h, n, _ in st.retry.calls]
    if not f._event.is_set():
        out = ('open', '')
    elif f._final_exception is not None:
        out = ('error', type(f._final_exception).__name__)
    else:
        r = f._final_result
        out = ('result', 'empty' if not r else 'rows')
    return frames, calls, out


def run_chunk(seqs):
    part = Part()
    plan = ['10.0.0.1', '10.0.0.2', '10.0.0.3']
    for seq in seqs:
        ref = reference(seq, plan)
        if ref is None:
            part.count('skipped_replacement_timing')
            continue
        part.count('evaluations')
        st, f, err = play(seq)
        try:
            if err:
                part.violation('C16/unexpected-attempts', '%s after %r' % (err, seq), {'seq': seq})
                continue
            got = observe(st, f)
        finally:
            st.close()
        part.outcome(got[2])
        if len(seq) >= 2:
            part.mark_nontrivial(repr(seq))
        part.sample({'seq': seq, 'frames': got[0], 'policy_calls': got[1], 'outcome': got[2]}, limit=2)
        if got[0] != ref[0]:
            which = 'consistency' if [h for h, _ in got[0]] == [h for h, _ in ref[0]] else 'host'
            part.violation('C16/frames/%s' % which, 'frames %r, reference %r for %r' % (got[0], ref[0], seq), {'seq': seq})
        if got[1] != ref[1]:
            part.violation('C16/policy-calls', 'policy consulted %r, reference %r for %r' % (got[1], ref[1], seq), {'seq': seq})
        if got[2] != ref[2]:
            part.violation('C16/outcome/%s' % ref[2][1], 'outcome %r, reference %r for %r' % (got[2], ref[2], seq), {'seq': seq})
    return part


def run_spec_chunk(cases):
    """non-idempotent + speculative policy: firing every timer before the timeout sends nothing more"""
    part = Part()
    for idem, spec in cases:
        part.count('evaluations')
        st, f, err = play((), idempotent=idem, spec=spec)
        try:
            # play() answered the first attempt; start again without answering
            f2 = st.execute('y', idempotent=idem)
            fired = 0
            while True:
                live = [t for t in st.w.live_timers() if t.end < st.w.clock.now + 9.0]
                if not live:
                    break
                st.w.fire_timer(live[0])
                fired += 1
                if fired > 10:
                    break
            n = len([1 for a, r in st.sent_app_requests() if r.get('query') == 'SELECT y'])
            part.outcome(('idempotent' if idem else 'non-idempotent', spec, n))
            part.mark_nontrivial(repr((idem, spec)))
            if not idem and n != 1:
                part.violation('C16/speculative-non-idempotent', 'non-idempotent statement sent %d frames with %d speculative executions allowed' % (n, spec),
                               {'idempotent': idem, 'spec': spec})
            if idem and n != 1 + spec:
                part.violation('C16/speculative-count', 'idempotent statement sent %d frames with %d speculative executions allowed' % (n, spec),
                               {'idempotent': idem, 'spec': spec})
        finally:
            st.close()
    return part


# ---------------------------------------------------------------------- speculative executions (BFS)
from vt import explore          # noqa: E402

PLAN = ['10.0.0.1', '10.0.0.2', '10.0.0.3']


class HS(explore.Harness):
    """Several attempts of one request outstanding at once (speculative executions): every order of
    {speculative timer fires, attempt i answered with rows / a retryable error + scripted decision}.
    A reference model of the decisions is advanced with every event; executor tasks run to completion
    after each event.  The model stops judging once it says the request is complete."""
    name = 'c16-spec'

    def init(self):
        from cassandra import ConsistencyLevel
        p = self.params
        st = reqworld.ReqWorld(dict(hosts=3, spec=p['spec'], spec_delay=1.0, timeout=10.0, id0=p.get('id0', False)))
        st.execute('x', idempotent=True, stmt_kw={'consistency_level': ConsistencyLevel.LOCAL_QUORUM})
        st.m = {'frames': [(PLAN[0], START_CL)], 'k': 1, 'cl': START_CL, 'retries': 0, 'calls': [], 'done': None,
                'spec_fired': 0, 'undecided': False}
        return st

    def events(self, st):
        p = self.params
        evs = []
        if st.m['done'] is not None or st.m['undecided']:
            return evs
        pend = st.pending()
        for i in range(len(pend)):
            evs.append((('respond', i, 'rows', '', ''), 0))
            for kind in p['kinds']:
                for d in ('RETHROW', 'IGNORE'):
                    evs.append((('respond', i, kind, d, ''), 0))
                for d in ('RETRY', 'RETRY_NEXT_HOST'):
                    for cl in p['cls']:
                        evs.append((('respond', i, kind, d, cl or ''), 0))
        if st.w.live_timers():
            evs.append((('timer',), 0))
        return evs

    def apply(self, st, ev):
        m = st.m
        if ev[0] == 'timer':
            if m['done'] is None:
                if m['spec_fired'] < self.params['spec']:
                    m['spec_fired'] += 1
                    if m['k'] < len(PLAN):
                        m['frames'].append((PLAN[m['k']], m['cl']))
                        m['k'] += 1
                else:
                    m['done'] = ('error', 'OperationTimedOut')
            st.w.fire_timer(st.w.live_timers()[0])
        else:
            _, i, kind, d, cl = ev
            cl = cl or None
            pnd = st.pending()[i]
            host = pnd.conn.endpoint.address
            if m['done'] is None:
                if kind == 'rows':
                    m['done'] = ('result', 'rows')
                else:
                    m['calls'].append((HOOK[kind], m['retries']))
                    if d == 'RETHROW':
                        m['done'] = ('error', EXC[kind])
                    elif d == 'IGNORE':
                        m['done'] = ('result', 'empty')
                    else:
                        m['retries'] += 1
                        if CLS[cl] is not None:
                            m['cl'] = CLS[cl]
                        if d == 'RETRY':
                            m['frames'].append((host, m['cl']))
                        elif m['k'] < len(PLAN):
                            m['frames'].append((PLAN[m['k']], m['cl']))
                            m['k'] += 1
                        else:
                            # plan exhausted while other attempts may still be outstanding
                            m['done'] = ('error', 'NoHostAvailable')
            st.retry.next = (d or 'RETHROW', CLS[cl])
            st.respond(i, kind)
        guard = 0
        while st.w.tasks and guard < 50:
            st.w.run_task(0)
            st.w.deliver_outbox()
            guard += 1

    def observed(self, st):
        f = st.futures[0]
        frames = [(a, r.get('consistency')) for a, r in st.sent_app_requests() if r['op'] == 'QUERY' and r.get('query') == 'SELECT x']
        calls = [(h, n) for h, n, _ in st.retry.calls]
        if not f._event.is_set():
            out = None
        elif f._final_exception is not None:
            out = ('error', type(f._final_exception).__name__)
        else:
            out = ('result', 'empty' if not f._final_result else 'rows')
        return frames, calls, out

    def canon(self, st):
        m = st.m
        return (tuple(m['frames']), m['k'], m['cl'], m['retries'], m['done'], m['spec_fired'], self.observed(st),
                st.pending_canon(), st.timers_canon())

    def check(self, st, part, hist):
        m = st.m
        frames, calls, out = self.observed(st)
        data = {'params': self.params, 'history': hist}
        part.outcome((m['done'] or ('open', ''), len(frames)))
        if len(frames) >= 3:
            part.mark_nontrivial(repr((tuple(frames), tuple(calls))))
        if frames != m['frames']:
            which = 'consistency' if [h for h, _ in frames] == [h for h, _ in m['frames']] else 'host'
            part.violation('C16/spec/frames/%s' % which, 'frames %r, reference %r after %r' % (frames, m['frames'], hist), data)
        if calls != m['calls']:
            part.violation('C16/spec/policy-calls', 'policy consulted %r, reference %r after %r' % (calls, m['calls'], hist), data)
        if out != m['done']:
            part.violation('C16/spec/outcome/%s' % (m['done'][1] if m['done'] else 'open'),
                           'outcome %r, reference %r after %r' % (out, m['done'], hist), data)


def run(ctx):
    for name, params, depth in (
            ('spec1', dict(spec=1, kinds=['overloaded', 'unavailable'], cls=[None, 'ANY']), 4 if ctx.quick else 6),
            ('spec2', dict(spec=2, kinds=['read_timeout'], cls=[None, 'ONE']), 4 if ctx.quick else 6),
            ('spec1-id0', dict(spec=1, kinds=['overloaded'], cls=[None], id0=True), 4 if ctx.quick else 5)):
        explore.bfs(ctx, HS, params, max_depth=depth, label='c16-' + name, max_states=400000 if ctx.thorough else 60000)
    seqs = ctx.rotate(sequences(ctx.quick))
    n = ctx.nproc * 4
    for part in ctx.pmap(run_chunk, [seqs[i::n] for i in range(n) if seqs[i::n]]):
        ctx.merge(part)
    ctx.merge(run_spec_chunk([(i, s) for i in (True, False) for s in (0, 1, 2)]))
    ctx.count('states', ctx.counters.get('evaluations', 0))
    ctx.count('transitions', sum(len(s) + 1 for s in seqs))
    ctx.cov['rule'] = ('error sequences of length <= 3, first error from all 8 kinds, later ones from %s (quick: 2 kinds at length 3); decisions and policy-chosen '
                       'consistency enumerated completely; non-trivial = sequence with >= 2 errors' % ('4 kinds' if ctx.quick else 'all 8 kinds'))
    ctx.cov['exhaustive'] = True
    ctx.assume('RETRY on the same host after a connection failure depends on when the pool replaces the connection; those sequences are counted as skipped, not judged')


def replay(ctx, data):
    if 'history' in data:
        part = explore.replay(HS, data['params'], [tuple(e) for e in data['history']])
    elif 'seq' in data:
        part = run_chunk([tuple(tuple(s) for s in data['seq'])])
    else:
        part = run_spec_chunk([(data['idempotent'], data['spec'])])
    for fp, what, _ in part.violations:
        print(fp, '::', what)
    return bool(part.violations)
