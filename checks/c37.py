"""C37 cqlengine statements bind every placeholder to its own clause's value.

Engine N.  Query-set chains (filters with every operator, token(), IN, CONTAINS, LIKE,
Min/MaxTimeUUID, column-expression filters, order/limit/only/defer/allow_filtering, iff,
if_exists, ttl, timestamp) are enumerated to a fixed length and finished by every terminal
(select, count, update variants with every collection operator incl. empty operands, delete);
every update/delete terminal is run three ways: unbatched, as the first statement(s) of a
BatchQuery that another DML follows, and after that DML in the batch (statements built from one
query set share their clause objects, so the numbering done by the batch is what is looked at);
instance DML with options; all ordered pairs of DML makers inside a BatchQuery.  Every value that
is requested is unique, so a placeholder bound to another clause's value is visible.  The
statement text given to the fake session is parsed by the independent parser
(`vt.spec.minicql.parse`) and compared clause by clause with the request.
Render histories with a shared value object: one Min/MaxTimeUUID / Token function object or one ready
WhereClause is given to the last filter() call of two query sets of different shapes (so that it sits at
different WHERE positions / placeholder offsets); the two query sets themselves are then rendered by every
history of 3 operations (select, count, update, delete; A first) and, bound to one BatchQuery, by every
history of 2..3 DML operations followed by the batch; every render is judged like any other statement.
"""
import datetime
import itertools

from vt.core import Part, HarnessError

META = {
    'level': 'exploration',
    'engine': 'N',
    'technique': 'bounded-exhaustive enumeration of query-set chains (unbatched and at both positions of a batch), DML options and 2-maker batches; rendered text parsed back by an independent parser',
    'text': 'All chains of up to 2 (quick) / 3 (thorough) query-set operations over a 39-letter alphabet and all chains one longer over a '
            '24-letter sub-alphabet (those with 7 of the terminals), the others finished by each of 21 terminals; every update/delete terminal of a chain of up to 3 operations '
            'is executed unbatched, inside a BatchQuery before a companion instance update, and inside a BatchQuery after it (an update that also nulls columns puts an UPDATE and a DELETE '
            'built from the same filter/condition objects into the batch); plus instance and query-set DML makers (incl. updates that write one column and null others under conditions '
            'given in either order) under every option combination alone and every ordered pair of them in one BatchQuery; '
            'plus render histories: one value object (MaxTimeUUID, MinTimeUUID, Token, or a WhereClause made by a column expression) shared by the '
            'last filter() call of two query sets, every ordered pair of 7 query-set shapes (shared clause at WHERE position 0..3, placeholder '
            'offset 0..3), every history of 3 operations from {select, count, update, delete} x {A, B} starting on A run on the query sets '
            'themselves (renders A, B, A and the like; select/count answered from the cache of the query set are counted, not judged), and every history of 2..3 operations from '
            '{update, delete, update that also nulls a column} on the two query sets bound to one BatchQuery, judged on the BATCH text. '
            'For each statement handed to the session: the %(n)s markers in the text and the keys of the parameter dict are in '
            'bijection; the WHERE, IF, SET, DELETE-selection and USING parts parsed from the text, with each marker replaced by its '
            'bound value, equal the requested filters, conditions, assignments and options as multisets (all requested values are '
            'distinct, so a marker bound to a foreign value cannot go unnoticed).',
    'note': 'Chains cqlengine itself refuses (QueryException / ValidationError / its own documented restrictions) are counted, not judged. '
            'Empty collection operands are requests to add/remove nothing. The select list (only/defer) and ORDER/LIMIT are not part of the statement.',
    'design_ref': 'C37',
}

_w = {}
# letters left out of the longest chains (operators that differ from a kept one only in the symbol)
REDUNDANT = {'c1>=', 'c1<=', 'c1<', 'l contains', 'token<=', 'token=', 'limit None', 'order -c1', 'expr p2==', 'expr c1>', 'iff b=', 'c2<max',
             'b=', 'p1 in', 'defer b'}
# terminals used for the longest chains
LONG_TERMINALS = {'select', 'update mixed', 'update mixed2', 'update nulls', 'update collections=', 'update m__update empty', 'delete'}


def world():
    if _w:
        return _w
    from vt import cqle
    from cassandra.cqlengine import columns
    from cassandra.cqlengine.models import Model

    class Q(Model):
        __table_name__ = 'q'
        p1 = columns.Integer(partition_key=True)
        p2 = columns.Text(partition_key=True)
        c1 = columns.Integer(primary_key=True)
        c2 = columns.TimeUUID(primary_key=True)
        a = columns.Integer(index=True)
        b = columns.Text()
        s = columns.Set(columns.Integer)
        l = columns.List(columns.Integer)
        m = columns.Map(columns.Integer, columns.Text)

    def handler(call):
        if call.query.startswith('SELECT COUNT'):
            return [{'count': 0}]
        return []
    _w['session'] = cqle.install_fake(handler)
    _w['Q'] = Q
    _w['cqle'] = cqle
    return _w


class Fresh(object):
    """Source of pairwise distinct values."""
    def __init__(self):
        self.n = 1000

    def i(self):
        self.n += 1
        return self.n

    def t(self):
        self.n += 1
        return 'v%d' % self.n

    def dt(self):
        self.n += 1
        return datetime.datetime(2001, 1, 1) + datetime.timedelta(seconds=self.n)


class Req(object):
    """What has been requested so far."""
    def __init__(self):
        self.where, self.iff = [], []
        self.ttl = self.timestamp = None
        self.if_exists = False

    def copy(self):
        r = Req()
        r.where, r.iff = list(self.where), list(self.iff)
        r.ttl, r.timestamp, r.if_exists = self.ttl, self.timestamp, self.if_exists
        return r


def ms(d):
    from vt.spec import minicql
    return minicql.millis_of(d)


# ------------------------------------------------------------------------------ alphabet
def alphabet():
    """[(name, fn(q, req, fresh) -> q)]; fn appends what it requested to req."""
    from cassandra.cqlengine.functions import Token, MinTimeUUID, MaxTimeUUID
    Q = world()['Q']
    A = []

    def flt(name, kwname, col, op, kind='i'):
        def f(q, r, fr):
            v = fr.i() if kind == 'i' else fr.t()
            r.where.append((col, op, v))
            return q.filter(**{kwname: v})
        A.append((name, f))
    flt('p1=', 'p1', 'p1', '=')
    flt('p2=', 'p2', 'p2', '=', 't')
    flt('c1=', 'c1', 'c1', '=')
    flt('c1>', 'c1__gt', 'c1', '>')
    flt('c1>=', 'c1__gte', 'c1', '>=')
    flt('c1<', 'c1__lt', 'c1', '<')
    flt('c1<=', 'c1__lte', 'c1', '<=')
    flt('a=', 'a', 'a', '=')
    flt('b=', 'b', 'b', '=', 't')
    flt('b like', 'b__like', 'b', 'LIKE', 't')
    flt('s contains', 's__contains', 's', 'CONTAINS')
    flt('l contains', 'l__contains', 'l', 'CONTAINS')
    flt('m contains', 'm__contains', 'm', 'CONTAINS', 't')

    def f_in(q, r, fr):
        v = [fr.i(), fr.i()]
        r.where.append(('c1', 'IN', tuple(v)))
        return q.filter(c1__in=v)
    A.append(('c1 in', f_in))

    def f_in1(q, r, fr):
        v = [fr.i()]
        r.where.append(('p1', 'IN', tuple(v)))
        return q.filter(p1__in=v)
    A.append(('p1 in', f_in1))

    def f_two(q, r, fr):
        v1, v2 = fr.i(), fr.t()
        r.where.append(('p1', '=', v1))
        r.where.append(('p2', '=', v2))
        return q.filter(p1=v1, p2=v2)
    A.append(('p1=,p2=', f_two))

    def tok(op, kw):
        def f(q, r, fr):
            v1, v2 = fr.i(), fr.t()
            r.where.append((('token', ('p1', 'p2')), op, ('token', (v1, v2))))
            return q.filter(**{kw: Token(v1, v2)})
        return f
    A.append(('token>', tok('>', 'pk__token__gt')))
    A.append(('token<=', tok('<=', 'pk__token__lte')))
    A.append(('token=', tok('=', 'pk__token')))

    def e_gt(q, r, fr):
        v = fr.i()
        r.where.append(('c1', '>', v))
        return q.filter(Q.c1 > v)
    A.append(('expr c1>', e_gt))

    def e_eq(q, r, fr):
        v = fr.t()
        r.where.append(('p2', '=', v))
        return q.filter(Q.p2 == v)
    A.append(('expr p2==', e_eq))

    def e_in(q, r, fr):
        v = [fr.i(), fr.i(), fr.i()]
        r.where.append(('a', 'IN', tuple(v)))
        return q.filter(Q.a.in_(v))
    A.append(('expr a.in_', e_in))

    def e_ct(q, r, fr):
        v = fr.i()
        r.where.append(('s', 'CONTAINS', v))
        return q.filter(Q.s.contains_(v))
    A.append(('expr s.contains_', e_ct))

    def tu(name, kw, op, cls, fname):
        def f(q, r, fr):
            d = fr.dt()
            r.where.append(('c2', op, (fname, ms(d))))
            return q.filter(**{kw: cls(d)})
        A.append((name, f))
    tu('c2>min', 'c2__gt', '>', MinTimeUUID, 'mintimeuuid')
    tu('c2<max', 'c2__lt', '<', MaxTimeUUID, 'maxtimeuuid')

    def cond(name, kw, col, op, kind):
        def f(q, r, fr):
            v = fr.i() if kind == 'i' else fr.t()
            r.iff.append((col, op, v))
            return q.iff(**{kw: v})
        A.append((name, f))
    cond('iff a=', 'a', 'a', '=', 'i')
    cond('iff b=', 'b', 'b', '=', 't')
    cond('iff a>', 'a__gt', 'a', '>', 'i')

    def iff2(q, r, fr):
        v1, v2 = fr.i(), fr.t()
        r.iff.append(('a', '=', v1))
        r.iff.append(('b', '=', v2))
        return q.iff(a=v1, b=v2)
    A.append(('iff a=,b=', iff2))

    def plain(name, fn):
        A.append((name, lambda q, r, fr: fn(q)))
    plain('order c1', lambda q: q.order_by('c1'))
    plain('order -c1', lambda q: q.order_by('-c1'))
    plain('limit 7', lambda q: q.limit(7))
    plain('limit None', lambda q: q.limit(None))
    plain('only a,b', lambda q: q.only(['a', 'b']))
    plain('defer b', lambda q: q.defer(['b']))
    plain('allow_filtering', lambda q: q.allow_filtering())

    def ttl(q, r, fr):
        r.ttl = fr.i()
        return q.ttl(r.ttl)
    A.append(('ttl', ttl))

    def ts(q, r, fr):
        r.timestamp = fr.i()
        return q.timestamp(r.timestamp)
    A.append(('timestamp', ts))

    def ife(q, r, fr):
        r.if_exists = True
        return q.if_exists()
    A.append(('if_exists', ife))
    return A


# ------------------------------------------------------------------------------ terminals
def terminals():
    """[(name, fn(q, req, fresh) -> list of expected statements)].
    expected statement: dict kind, set, delete, where, iff, ttl, timestamp, if_exists, optional"""
    T = []

    def sel(kind):
        def f(q, r, fr):
            if kind == 'select':
                list(q.all())
            else:
                q.all().count()
            return [dict(kind='SELECT', where=r.where)]
        return f
    T.append(('select', sel('select')))
    T.append(('count', sel('count')))

    def upd(name, mk):
        def f(q, r, fr):
            kwargs, sets, nulled = mk(fr)
            q.update(**kwargs)
            out = []
            out.append(dict(kind='UPDATE', set=sets, where=r.where, iff=r.iff, ttl=r.ttl, timestamp=r.timestamp,
                            if_exists=r.if_exists, optional=not effective(sets)))
            if nulled:
                out.append(dict(kind='DELETE', delete=[(c, None) for c in nulled], where=r.where, iff_subset=r.iff,
                                if_exists=r.if_exists))
            return out
        T.append((name, f))

    def mk_scalar(fr):
        v = fr.i()
        return {'a': v}, [('a', 'set', v)], []
    upd('update a', mk_scalar)

    def mk_mixed(fr):
        b, s1, l1, l2, k1, k2, x1, x2 = fr.t(), fr.i(), fr.i(), fr.i(), fr.i(), fr.i(), fr.t(), fr.t()
        return ({'b': b, 's__add': {s1}, 'l__prepend': [l1, l2], 'm__update': {k1: x1, k2: x2}},
                [('b', 'set', b), ('s', 'plus', frozenset([s1])), ('l', 'prepend', (l1, l2)), ('m', 'put', k1, x1), ('m', 'put', k2, x2)], [])
    upd('update mixed', mk_mixed)

    def mk_mixed2(fr):
        a, s1, s2, l1, k1 = fr.i(), fr.i(), fr.i(), fr.i(), fr.i()
        return ({'m__remove': {k1}, 'l__append': [l1], 's__remove': {s1, s2}, 'a': a},
                [('m', 'delkey', k1), ('l', 'plus', (l1,)), ('s', 'minus', frozenset([s1, s2])), ('a', 'set', a)], [])
    upd('update mixed2', mk_mixed2)

    def mk_assign(fr):
        s1, l1, k1, x1 = fr.i(), fr.i(), fr.i(), fr.t()
        return ({'s': {s1}, 'l': [l1, l1], 'm': {k1: x1}},
                [('s', 'set', frozenset([s1])), ('l', 'set', (l1, l1)), ('m', 'set', ((k1, x1),))], [])
    upd('update collections=', mk_assign)

    def mk_null(fr):
        b = fr.t()
        return {'a': None, 'b': b, 's': None}, [('b', 'set', b)], ['a', 's']
    upd('update nulls', mk_null)

    def mk_onlynull(fr):
        return {'a': None}, [], ['a']
    upd('update only null', mk_onlynull)

    def empties(name, kw, val):
        def mk(fr):
            b = fr.t()
            return {kw: val, 'b': b}, [('b', 'set', b)], []
        upd(name, mk)

        def mk2(fr):
            return {kw: val}, [], []
        upd(name + ' alone', mk2)
    empties('update s__add empty', 's__add', set())
    empties('update s__remove empty', 's__remove', set())
    empties('update l__append empty', 'l__append', [])
    empties('update l__prepend empty', 'l__prepend', [])
    empties('update m__update empty', 'm__update', {})
    empties('update m__remove empty', 'm__remove', set())

    def dele(q, r, fr):
        q.delete()
        return [dict(kind='DELETE', delete=[], where=r.where, iff=r.iff, timestamp=r.timestamp, if_exists=r.if_exists)]
    T.append(('delete', dele))
    return T


def effective(sets):
    return [x for x in sets if not (x[1] in ('plus', 'minus', 'prepend') and not x[2])]


# ------------------------------------------------------------------------------ parsed -> comparable
def bound(term, params, minicql):
    if isinstance(term, minicql.Placeholder):
        v = params[term.name]
        return freeze(v)
    if isinstance(term, minicql.Literal):
        return ('literal', term.value)
    if isinstance(term, minicql.Func):
        args = tuple(bound(a, params, minicql) for a in term.args)
        if term.name == 'token':
            return ('token', args)
        return (term.name, args[0]) if len(args) == 1 else (term.name, args)
    raise HarnessError('unknown term %r' % (term,))


def freeze(v):
    if isinstance(v, (set, frozenset)):
        return frozenset(freeze(x) for x in v)
    if isinstance(v, (list, tuple)):
        return tuple(freeze(x) for x in v)
    if isinstance(v, dict):
        return tuple(sorted(((freeze(k), freeze(x)) for k, x in v.items()), key=repr))
    return v


def rel_tuple(r, params, minicql):
    lhs = r.column if r.lhs[0] == 'col' else ('token', tuple(r.lhs[1]))
    rhs = bound(r.rhs, params, minicql) if r.rhs is not None else None
    return (lhs, r.op, rhs)


def set_tuples(st, params, minicql):
    out = []
    for a in st.assignments:
        v = bound(a.term, params, minicql)
        if a.kind == 'elem':
            out.append((a.column, 'put', bound(a.key, params, minicql), v))
        elif a.kind == 'plus' and isinstance(v, tuple) and v and all(isinstance(i, tuple) and len(i) == 2 for i in v) and a.column == 'm':
            out.extend((a.column, 'put', k, x) for k, x in v)
        elif a.kind == 'minus' and a.column == 'm':
            out.extend((a.column, 'delkey', k) for k in (v or ()))
        else:
            out.append((a.column, a.kind, v))
    return out


def canon_expected_sets(sets):
    out = []
    for x in effective(sets):
        out.append(tuple(freeze(i) for i in x))
    return out


def msort(xs):
    return sorted(xs, key=repr)


def judge(part, label, case, calls, expected):
    """Compare the executed calls with the expected statements; returns nothing."""
    from vt.spec import minicql
    w = world()
    stmts = []
    for call in calls:
        part.count('evaluations')
        text = call.query
        params = w['cqle'].plain_params(call.params)
        # 1. markers <-> context keys
        marks = minicql.all_placeholders(text)
        keys = sorted(params.keys())
        if len(set(marks)) != len(marks):
            dup = sorted(set(m for m in marks if marks.count(m) > 1))
            part.violation('C37/bijection/marker-twice/%s' % label, 'marker(s) %r occur twice in %r (params %r)' % (dup, text, params), case)
        if sorted(set(marks)) != keys:
            missing = sorted(set(marks) - set(keys))
            extra = sorted(set(keys) - set(marks))
            kind = 'unbound-marker' if missing else 'unused-value'
            part.violation('C37/bijection/%s/%s' % (kind, label),
                           'text %r has markers without value %r / values without marker %r (params %r)' % (text, missing, extra, params), case)
            continue
        try:
            st = minicql.parse(text)
        except minicql.ParseError as e:
            part.violation('C37/unparsable/%s' % label, 'statement is not one of the CQL shapes: %s' % e, case)
            continue
        inner = st.statements if st.kind == 'BATCH' else [st]
        for s in inner:
            stmts.append((s, params))
    exp = list(expected)
    if len(stmts) != len(exp):
        # statements without any effect may be left out by cqlengine
        exp = [e for e in exp if not e.get('optional')]
    if len(stmts) != len(exp):
        part.violation('C37/statements/count/%s' % label,
                       'expected %d statement(s) %r, cqlengine executed %d: %r' % (
                           len(exp), [e['kind'] for e in exp], len(stmts), [c.query for c in calls]), case)
        return
    for (s, params), e in zip(stmts, exp):
        text = [c.query for c in calls]
        if s.kind != e['kind']:
            part.violation('C37/statements/kind/%s' % label, 'expected %s, got %s: %r' % (e['kind'], s.kind, text), case)
            continue
        got_where = msort(rel_tuple(r, params, minicql) for r in s.where)
        want_where = msort((c, op, freeze(v)) for c, op, v in e.get('where', []))
        if got_where != want_where:
            part.violation('C37/where/%s/%s' % (s.kind, label),
                           'WHERE binds %r, requested filters %r; statement %r params %r' % (got_where, want_where, text, params), case)
        if 'iff' in e:
            got_if = msort(rel_tuple(r, params, minicql) for r in s.conditions)
            want_if = msort((c, op, freeze(v)) for c, op, v in e['iff'])
            if got_if != want_if:
                part.violation('C37/if/%s/%s' % (s.kind, label),
                               'IF binds %r, requested conditions %r; statement %r params %r' % (got_if, want_if, text, params), case)
        if 'iff_subset' in e:
            got_if = [rel_tuple(r, params, minicql) for r in s.conditions]
            allowed = [(c, op, freeze(v)) for c, op, v in e['iff_subset']]
            if any(g not in allowed for g in got_if) or len(got_if) != len(set(got_if)):
                part.violation('C37/if/%s-nulls/%s' % (s.kind, label),
                               'IF binds %r, which is not among the requested conditions %r; statement %r' % (got_if, allowed, text), case)
        if s.if_exists != bool(e.get('if_exists', False)) and s.kind != 'SELECT':
            part.violation('C37/if-exists/%s/%s' % (s.kind, label), 'IF EXISTS rendered=%r requested=%r: %r' % (s.if_exists, e.get('if_exists'), text), case)
        if s.kind == 'INSERT':
            if s.if_not_exists != bool(e.get('if_not_exists', False)):
                part.violation('C37/if-not-exists/%s' % label, 'IF NOT EXISTS rendered=%r requested=%r: %r' % (s.if_not_exists, e.get('if_not_exists'), text), case)
            got = msort((c, bound(v, params, minicql)) for c, v in zip(s.columns, s.values))
            want = msort((c, freeze(v)) for c, v in e['values'])
            if got != want:
                part.violation('C37/values/%s' % label, 'INSERT binds %r, requested %r; %r params %r' % (got, want, text, params), case)
        if s.kind == 'UPDATE':
            got = msort(set_tuples(s, params, minicql))
            got = [g for g in got if not (g[1] in ('plus', 'minus', 'prepend') and not g[2])]
            want = msort(canon_expected_sets(e['set']))
            if got != want:
                cls = 'empty-operand' if not e.get('set_all_nonempty', True) else 'assignments'
                part.violation('C37/set/%s/%s' % (cls, label),
                               'SET binds %r, requested assignments %r; statement %r params %r' % (got, want, text, params), case)
        if s.kind == 'DELETE':
            got = msort((x.column, bound(x.key, params, minicql) if x.key is not None else None) for x in s.selections)
            want = msort((c, freeze(k)) for c, k in e.get('delete', []))
            if got != want:
                part.violation('C37/delete-selection/%s' % label, 'DELETE selects %r, requested %r; %r params %r' % (got, want, text, params), case)
        if s.kind in ('UPDATE', 'INSERT', 'DELETE'):
            using = s.using or {}
            want_using = {}
            if e.get('ttl') and s.kind != 'DELETE':
                want_using['ttl'] = e['ttl']
            if e.get('timestamp'):
                want_using['timestamp'] = e['timestamp']
            if 'ttl' in e or 'timestamp' in e:
                if using != want_using:
                    part.violation('C37/using/%s/%s' % (s.kind, label), 'USING rendered %r, requested %r: %r' % (using, want_using, text), case)
    part.outcome((label.split('/')[0], tuple(s.kind for s, _ in stmts), len(stmts and stmts[0][1])))


# ------------------------------------------------------------------------------ chain worker
# a terminal is run unbatched, as the first statement(s) of a BatchQuery that a companion DML follows, and after that companion
MODES = (None, 'batch-first', 'batch-second')
NOT_BATCHABLE = ('select', 'count')
COMPANION = 'inst update b[iff]'
BATCH_MAX_LEN = 3                      # chains longer than this (thorough tier only) are run unbatched only


def companion():
    for name, fn, opts in flat_makers():
        if name == COMPANION:
            return fn, opts
    raise HarnessError('no DML maker %r' % COMPANION)


def run_terminal(q, req, fr, tname, tfn, mode, comp):
    """Run terminal tfn on query set q (unbatched or inside a 2-maker batch); returns the expected statements in order."""
    s = world()['session']
    if not mode:
        exp = tfn(q, req, fr)
    else:
        from cassandra.cqlengine.query import BatchQuery
        b = BatchQuery()
        cfn, copts = comp
        if mode == 'batch-first':
            mine = tfn(q.batch(b), req, fr)
            other = cfn(fr, b, copts)
        else:
            other = cfn(fr, b, copts)
            mine = tfn(q.batch(b), req, fr)
        if s.take():
            raise HarnessError('a batched operation executed a statement before the batch ran: %s' % tname)
        b.execute()
        for e_ in mine:
            if 'set' in e_:
                e_['set_all_nonempty'] = 'empty' not in tname
        return mine + other if mode == 'batch-first' else other + mine
    for e_ in exp:
        if 'set' in e_:
            e_['set_all_nonempty'] = 'empty' not in tname
    return exp


def run_chains(args):
    prefixes, nmin, nmax, letters, long_only = args
    from cassandra.cqlengine import CQLEngineException
    from cassandra.cqlengine.query import QueryException
    from cassandra.cqlengine.operators import QueryOperatorException
    w = world()
    Q, s = w['Q'], w['session']
    A, T = alphabet(), terminals()
    comp = companion()
    part = Part()
    refuse = (CQLEngineException, QueryOperatorException)
    for prefix in prefixes:
        for n in range(nmin, nmax + 1):
            for rest in itertools.product(letters, repeat=n):
                chain = tuple(prefix) + rest
                fr0, req0 = Fresh(), Req()
                q0 = Q.objects
                names = []
                try:
                    for ai in chain:
                        names.append(A[ai][0])
                        q0 = A[ai][1](q0, req0, fr0)
                except refuse as e:
                    part.count('refused_by_cqlengine')
                    continue
                except Exception as e:
                    part.violation('C37/raises/chain/%s' % type(e).__name__, 'building the query set %r raised %r' % (names, e),
                                   {'chain': list(chain), 'terminal': 0, 'names': names})
                    continue
                for ti, (tname, tfn) in enumerate(T):
                    if long_only and tname not in LONG_TERMINALS:
                        continue
                    for mode in (MODES if len(chain) <= BATCH_MAX_LEN else MODES[:1]):
                        if mode and tname in NOT_BATCHABLE:
                            continue
                        fr, req = Fresh(), req0.copy()
                        fr.n = fr0.n
                        s.take()
                        case = {'chain': list(chain), 'terminal': ti, 'names': names + [tname]}
                        if mode:
                            case['mode'] = mode
                        label = tname.replace(' alone', '') + ('/' + mode if mode else '')
                        try:
                            exp = run_terminal(q0, req, fr, tname, tfn, mode, comp)
                        except refuse as e:
                            part.count('refused_by_cqlengine')
                            part.outcome(('refused', tname, type(e).__name__))
                            continue
                        except HarnessError:
                            raise
                        except Exception as e:
                            part.violation('C37/raises/%s/%s' % (label, type(e).__name__),
                                           '%r (%s) raised %r' % (names + [tname], mode or 'unbatched', e), case)
                            continue
                        part.count('chains_in_batch' if mode else 'chains')
                        calls = s.take()
                        if mode and len(calls) != 1:
                            raise HarnessError('batch executed %d statements' % len(calls))
                        judge(part, label, case, calls, exp)
                        if mode or len(req.where) + len(req.iff) >= 2:
                            part.count('distinct_nontrivial')      # every (chain, terminal, mode) is enumerated once
                        if len(chain) >= 2:
                            part.sample({'chain': names + [tname], 'mode': mode or 'unbatched', 'statements': [c.query for c in calls],
                                         'params': [w['cqle'].plain_params(c.params) for c in calls]}, limit=1)
    return part


# ------------------------------------------------------------------------------ shared value objects, render histories
# One value object (a filtering function Min/MaxTimeUUID or Token, or a ready WhereClause from a column expression) is handed to
# the last filter() call of TWO query sets, where it lands at different WHERE positions; the two query sets themselves (no clones)
# are then rendered by a history of operations (A, B, A ...): every render must number and bind on its own.
SHARED_KINDS = ('maxtimeuuid', 'mintimeuuid', 'token', 'clause')
# (filters chained before the last filter() call, filters of the last call before the shared one, ... after the shared one)
SHARED_SHAPES = [((), (), ()),
                 ((), ('p1',), ()),
                 ((), (), ('a',)),
                 ((), ('p1', 'p2'), ()),
                 (('p1', 'p2'), (), ('a',)),
                 (('p1',), ('p2', 'c1in'), ()),
                 ((), ('p1',), ('p2', 'a'))]
SHARED_OPS = ('select', 'count', 'update', 'delete')
SHARED_BATCH_OPS = ('update', 'delete', 'update nulls')
SHARED_LEN = 3


def shared_value(kind, fr):
    """-> (positional args, keyword args of filter(), the requested relation)"""
    from cassandra.cqlengine.functions import Token, MinTimeUUID, MaxTimeUUID
    Q = world()['Q']
    if kind == 'maxtimeuuid':
        d = fr.dt()
        return (), {'c2__lt': MaxTimeUUID(d)}, ('c2', '<', ('maxtimeuuid', ms(d)))
    if kind == 'mintimeuuid':
        d = fr.dt()
        return (), {'c2__gt': MinTimeUUID(d)}, ('c2', '>', ('mintimeuuid', ms(d)))
    if kind == 'token':
        v1, v2 = fr.i(), fr.t()
        return (), {'pk__token__gt': Token(v1, v2)}, ((('token', ('p1', 'p2'))), '>', ('token', (v1, v2)))
    if kind == 'clause':
        v = fr.i()
        return (Q.c1 > v,), {}, ('c1', '>', v)
    raise HarnessError('unknown shared value kind %r' % kind)


def shared_filler(name, fr):
    if name == 'p1':
        v = fr.i()
        return {'p1': v}, ('p1', '=', v)
    if name == 'p2':
        v = fr.t()
        return {'p2': v}, ('p2', '=', v)
    if name == 'a':
        v = fr.i()
        return {'a': v}, ('a', '=', v)
    if name == 'c1in':
        v = [fr.i(), fr.i()]
        return {'c1__in': v}, ('c1', 'IN', tuple(v))
    raise HarnessError('unknown filler %r' % name)


def shared_queryset(shape, sv, fr, batch):
    """Build one query set whose LAST filter() call receives the shared value object -> (query set, requested where list)."""
    Q = world()['Q']
    pre, before, after = shape
    args, kwargs, rel = sv
    q = Q.objects.allow_filtering()
    if batch is not None:
        q = q.batch(batch)
    where = []
    for n in pre:
        kw, r = shared_filler(n, fr)
        where.append(r)
        q = q.filter(**kw)
    last = {}
    for n in before:
        kw, r = shared_filler(n, fr)
        where.append(r)
        last.update(kw)
    where.append(rel)
    last.update(kwargs)
    for n in after:
        kw, r = shared_filler(n, fr)
        where.append(r)
        last.update(kw)
    return q.filter(*args, **last), where


def shared_op(q, where, op, fr, done):
    """Run one rendering operation on the query set itself -> expected statements (None = answered from the query set's cache:
    the fake session returns no rows, so a select has always read all rows)."""
    if op == 'select':
        list(q)
        return None if 'select' in done else [dict(kind='SELECT', where=where)]
    if op == 'count':
        q.count()
        # a query set that has read all its rows answers count() from them
        return None if ('count' in done or 'select' in done) else [dict(kind='SELECT', where=where)]
    if op == 'update':
        v = fr.i()
        q.update(a=v)
        return [dict(kind='UPDATE', set=[('a', 'set', v)], where=where, iff=[], ttl=None, timestamp=None)]
    if op == 'update nulls':
        v = fr.t()
        q.update(b=v, s=None)
        return [dict(kind='UPDATE', set=[('b', 'set', v)], where=where, iff=[], ttl=None, timestamp=None),
                dict(kind='DELETE', delete=[('s', None)], where=where, iff_subset=[])]
    if op == 'delete':
        q.delete()
        return [dict(kind='DELETE', delete=[], where=where, iff=[], timestamp=None)]
    raise HarnessError('unknown operation %r' % op)


def run_shared_history(part, kind, ia, ib, history, batched):
    """history: [(query set 0/1, operation)].  Unbatched: each operation is judged when it runs; batched: both query sets are bound
    to one BatchQuery, the operations only register statements, and the single BATCH is judged at the end."""
    from cassandra.cqlengine import CQLEngineException
    from cassandra.cqlengine.operators import QueryOperatorException
    from cassandra.cqlengine.query import BatchQuery
    s = world()['session']
    fr = Fresh()
    case = {'shared': kind, 'shapes': [ia, ib], 'history': [list(h) for h in history], 'batched': bool(batched)}
    batch = BatchQuery() if batched else None
    s.take()
    try:
        sv = shared_value(kind, fr)
        qs = [shared_queryset(SHARED_SHAPES[ia], sv, fr, batch), shared_queryset(SHARED_SHAPES[ib], sv, fr, batch)]
    except (CQLEngineException, QueryOperatorException):
        part.count('refused_by_cqlengine')
        return
    done = [set(), set()]
    seen = []
    expected_all = []
    for step, (qi, op) in enumerate(history):
        q, where = qs[qi]
        # a re-render: this query set was rendered before and the other one since
        again = qi in seen and (1 - qi) in seen[seen.index(qi):]
        label = 'shared-%s/%s%s%s' % (kind, op, '/batched' if batched else '', '/rendered-again' if again else '')
        try:
            exp = shared_op(q, where, op, fr, done[qi])
        except (CQLEngineException, QueryOperatorException) as e:
            part.count('refused_by_cqlengine')
            part.outcome(('refused', 'shared', op, type(e).__name__))
            s.take()
            continue
        except HarnessError:
            raise
        except Exception as e:
            part.violation('C37/raises/%s/%s' % (label, type(e).__name__), 'step %d of %r raised %r' % (step, case, e), dict(case, step=step))
            return
        done[qi].add(op)
        seen.append(qi)
        if batched:
            if s.take():
                raise HarnessError('a batched operation executed a statement before the batch ran: %r' % (case,))
            expected_all.extend(exp)
            continue
        calls = s.take()
        if exp is None:
            if calls:
                raise HarnessError('a cached %s executed a statement: %r' % (op, case))
            part.count('shared_served_from_cache')
            continue
        part.count('shared_renders')
        if again:
            part.count('shared_renders_again')
            part.count('distinct_nontrivial')
        judge(part, label, dict(case, step=step), calls, exp)
    if batched and expected_all:
        batch.execute()
        calls = s.take()
        if len(calls) != 1:
            raise HarnessError('batch executed %d statements' % len(calls))
        part.count('shared_batches')
        part.count('distinct_nontrivial')
        judge(part, 'shared-%s/batch' % kind, case, calls, expected_all)
    if len(history) == SHARED_LEN:
        part.sample({'shared': kind, 'shapes': [SHARED_SHAPES[ia], SHARED_SHAPES[ib]], 'history': [list(h) for h in history],
                     'batched': bool(batched)}, limit=1)


def shared_histories(batched):
    ops = SHARED_BATCH_OPS if batched else SHARED_OPS
    letters = [(qi, op) for qi in (0, 1) for op in ops]
    # the first operation is on query set 0: every ordered pair of shapes is enumerated, so the mirrored histories are covered
    first = [l for l in letters if l[0] == 0]
    lengths = (2, 3) if batched else (SHARED_LEN,)
    for n in lengths:
        for f in first:
            for rest in itertools.product(letters, repeat=n - 1):
                yield (f,) + rest


def run_shared(args):
    kind, ia = args
    world()
    part = Part()
    for ib in range(len(SHARED_SHAPES)):
        for batched in (False, True):
            for h in shared_histories(batched):
                part.count('shared_histories')
                run_shared_history(part, kind, ia, ib, h, batched)
    return part


# ------------------------------------------------------------------------------ instance DML and batches
def makers():
    """DML makers usable alone or in a batch: fn(fresh, batch) -> expected statements."""
    from cassandra.cqlengine.query import BatchQuery  # noqa
    Q = world()['Q']
    import uuid
    M = []

    def keys(fr):
        k = dict(p1=fr.i(), p2=fr.t(), c1=fr.i(), c2=uuid.UUID('00000000-0000-1000-8000-%012x' % fr.i()))
        return k, [(c, '=', v) for c, v in k.items()]

    def create(fr, batch, opts):
        k, where = keys(fr)
        a, b, s1, l1, k1, x1 = fr.i(), fr.t(), fr.i(), fr.i(), fr.i(), fr.t()
        vals = dict(k, a=a, b=b, s={s1}, l=[l1], m={k1: x1})
        q = Q.objects
        e = dict(kind='INSERT', values=list(vals.items()), where=[], ttl=None, timestamp=None)
        if batch is not None:
            q = q.batch(batch)
        if 'ttl' in opts:
            e['ttl'] = fr.i()
            q = q.ttl(e['ttl'])
        if 'timestamp' in opts:
            e['timestamp'] = fr.i()
            q = q.timestamp(e['timestamp'])
        if 'if_not_exists' in opts:
            e['if_not_exists'] = True
            q = q.if_not_exists()
        q.create(**vals)
        return [e]
    M.append(('create', create, [(), ('ttl',), ('timestamp',), ('if_not_exists',), ('ttl', 'timestamp'), ('ttl', 'timestamp', 'if_not_exists')]))

    def loaded(fr):
        k, where = keys(fr)
        vals = dict(k, a=fr.i(), b=fr.t(), s={fr.i(), fr.i()}, l=[fr.i(), fr.i()], m={fr.i(): fr.t(), fr.i(): fr.t()})
        inst = Q._construct_instance(dict(vals))
        return inst, vals, where

    def decorate(inst, fr, batch, opts, e):
        if batch is not None:
            inst.batch(batch)
        if 'ttl' in opts:
            e['ttl'] = fr.i()
            inst.ttl(e['ttl'])
        if 'timestamp' in opts:
            e['timestamp'] = fr.i()
            inst.timestamp(e['timestamp'])
        if 'iff' in opts:
            v = fr.i()
            e['iff'] = [('a', '=', v)]
            inst.iff(a=v)
        if 'iff2' in opts:
            v1, v2 = fr.i(), fr.t()
            e['iff'] = [('a', '=', v1), ('b', '=', v2)]
            inst.iff(a=v1, b=v2)
        if 'iff2r' in opts:
            v1, v2 = fr.t(), fr.i()
            e['iff'] = [('b', '=', v1), ('a', '=', v2)]
            inst.iff(b=v1, a=v2)
        if 'if_exists' in opts:
            e['if_exists'] = True
            inst.if_exists()

    DML_OPTS = [(), ('ttl',), ('timestamp',), ('iff',), ('iff2',), ('if_exists',), ('ttl', 'timestamp', 'iff2')]

    def inst_update_scalar(fr, batch, opts):
        inst, vals, where = loaded(fr)
        b = fr.t()
        e = dict(kind='UPDATE', set=[('b', 'set', b)], where=where, iff=[], ttl=None, timestamp=None)
        decorate(inst, fr, batch, opts, e)
        inst.update(b=b)
        return [e]
    M.append(('inst update b', inst_update_scalar, DML_OPTS))

    def inst_update_colls(fr, batch, opts):
        inst, vals, where = loaded(fr)
        s1, l0, l9, k9, x9 = fr.i(), fr.i(), fr.i(), fr.i(), fr.t()
        oldkeys = sorted(vals['m'])
        e = dict(kind='UPDATE', where=where, iff=[], ttl=None, timestamp=None,
                 set=[('s', 'plus', frozenset([s1])), ('l', 'prepend', (l0,)), ('l', 'plus', (l9,)), ('m', 'put', k9, x9)])
        decorate(inst, fr, batch, opts, e)
        inst.s.add(s1)
        inst.l.insert(0, l0)
        inst.l.append(l9)
        inst.m[k9] = x9
        del inst.m[oldkeys[0]]
        inst.a = None
        inst.save()
        d = dict(kind='DELETE', delete=[('a', None), ('m', oldkeys[0])], where=where, if_exists=e.get('if_exists', False))
        # conditions on columns not updated by the UPDATE are repeated on the DELETE; not demanded here
        d['iff_subset'] = e.get('iff', [])
        return [e, d]
    M.append(('inst save collections', inst_update_colls, DML_OPTS))

    def inst_update_nulls(fr, batch, opts):
        # one column written, two set to null: an UPDATE and a DELETE built from the same conditions
        inst, vals, where = loaded(fr)
        b = fr.t()
        e = dict(kind='UPDATE', set=[('b', 'set', b)], where=where, iff=[], ttl=None, timestamp=None)
        decorate(inst, fr, batch, opts, e)
        inst.update(b=b, a=None, s=None)
        d = dict(kind='DELETE', delete=[('a', None), ('s', None)], where=where, if_exists=e.get('if_exists', False))
        d['iff_subset'] = e.get('iff', [])
        return [e, d]
    M.append(('inst update b, null a s', inst_update_nulls, DML_OPTS + [('iff2r',), ('ttl', 'timestamp', 'iff2r')]))

    def inst_delete(fr, batch, opts):
        inst, vals, where = loaded(fr)
        e = dict(kind='DELETE', delete=[], where=where, iff=[], timestamp=None)
        decorate(inst, fr, batch, opts, e)
        inst.delete()
        return [e]
    M.append(('inst delete', inst_delete, [(), ('timestamp',), ('iff',), ('iff2',), ('if_exists',), ('timestamp', 'iff2')]))

    def qs_update(fr, batch, opts):
        k, where = keys(fr)
        q = Q.objects.filter(**k)
        if batch is not None:
            q = q.batch(batch)
        e = dict(kind='UPDATE', where=where, iff=[], ttl=None, timestamp=None)
        if 'ttl' in opts:
            e['ttl'] = fr.i()
            q = q.ttl(e['ttl'])
        if 'iff2' in opts:
            v1, v2 = fr.i(), fr.t()
            e['iff'] = [('a', '=', v1), ('b', '=', v2)]
            q = q.iff(a=v1, b=v2)
        k1, k2, x1, x2, a, s1 = fr.i(), fr.i(), fr.t(), fr.t(), fr.i(), fr.i()
        e['set'] = [('m', 'put', k1, x1), ('m', 'put', k2, x2), ('a', 'set', a), ('s', 'minus', frozenset([s1]))]
        q.update(m__update={k1: x1, k2: x2}, a=a, s__remove={s1})
        return [e]
    M.append(('qs update map2', qs_update, [(), ('ttl',), ('iff2',), ('ttl', 'iff2')]))

    def qs_update_nulls(fr, batch, opts):
        k, where = keys(fr)
        q = Q.objects.filter(**k)
        if batch is not None:
            q = q.batch(batch)
        e = dict(kind='UPDATE', where=where, iff=[], ttl=None, timestamp=None)
        if 'iff2' in opts:
            v1, v2 = fr.i(), fr.t()
            e['iff'] = [('a', '=', v1), ('b', '=', v2)]
            q = q.iff(a=v1, b=v2)
        if 'iff2r' in opts:
            v1, v2 = fr.t(), fr.i()
            e['iff'] = [('b', '=', v1), ('a', '=', v2)]
            q = q.iff(b=v1, a=v2)
        if 'if_exists' in opts:
            e['if_exists'] = True
            q = q.if_exists()
        b, l1 = fr.t(), fr.i()
        e['set'] = [('b', 'set', b), ('l', 'plus', (l1,))]
        q.update(b=b, a=None, l__append=[l1], m=None)
        d = dict(kind='DELETE', delete=[('a', None), ('m', None)], where=where, iff_subset=e['iff'], if_exists=e.get('if_exists', False))
        return [e, d]
    M.append(('qs update b l, null a m', qs_update_nulls, [(), ('iff2',), ('iff2r',), ('if_exists',)]))

    def qs_delete(fr, batch, opts):
        k, where = keys(fr)
        q = Q.objects.filter(**k)
        if batch is not None:
            q = q.batch(batch)
        e = dict(kind='DELETE', delete=[], where=where, iff=[], timestamp=None)
        if 'iff2' in opts:
            v1, v2 = fr.i(), fr.t()
            e['iff'] = [('a', '=', v1), ('b', '=', v2)]
            q = q.iff(a=v1, b=v2)
        q.delete()
        return [e]
    M.append(('qs delete', qs_delete, [(), ('iff2',)]))
    return M


def flat_makers():
    out = []
    for name, fn, optlist in makers():
        for opts in optlist:
            out.append(('%s[%s]' % (name, '+'.join(opts)), fn, opts))
    return out


def run_dml(args):
    which, idxs = args
    from cassandra.cqlengine.query import BatchQuery
    w = world()
    s = w['session']
    F = flat_makers()
    part = Part()
    if which == 'single':
        for i in idxs:
            name, fn, opts = F[i]
            fr = Fresh()
            s.take()
            try:
                exp = fn(fr, None, opts)
            except HarnessError:
                raise
            except Exception as e:
                part.violation('C37/raises/dml/%s/%s' % (name.split('[')[0], type(e).__name__), '%s raised %r' % (name, e), {'dml': i, 'name': name})
                continue
            calls = s.take()
            part.count('dml_cases')
            judge(part, 'dml/' + name.split('[')[0], {'dml': i, 'name': name}, calls, exp)
            part.count('distinct_nontrivial')
            part.sample({'dml': name, 'statements': [c.query for c in calls], 'params': [w['cqle'].plain_params(c.params) for c in calls]}, limit=1)
    else:
        for i in idxs:
            for j in range(len(F)):
                (n1, f1, o1), (n2, f2, o2) = F[i], F[j]
                fr = Fresh()
                s.take()
                b = BatchQuery()
                try:
                    exp = f1(fr, b, o1) + f2(fr, b, o2)
                    if s.take():
                        raise HarnessError('a batched operation executed a statement before the batch ran: %s %s' % (n1, n2))
                    b.execute()
                except HarnessError:
                    raise
                except Exception as e:
                    part.violation('C37/raises/batch/%s/%s' % (n2.split('[')[0], type(e).__name__), 'batch of %s and %s raised %r' % (n1, n2, e),
                                   {'batch': [i, j], 'names': [n1, n2]})
                    continue
                calls = s.take()
                if len(calls) != 1:
                    raise HarnessError('batch executed %d statements' % len(calls))
                part.count('batches')
                judge(part, 'batch/%s' % n2.split('[')[0], {'batch': [i, j], 'names': [n1, n2]}, calls, exp)
                part.count('distinct_nontrivial')
                part.sample({'batch': [n1, n2], 'statement': calls[0].query, 'params': w['cqle'].plain_params(calls[0].params)}, limit=1)
    return part


def run(ctx):
    from vt.spec import minicql
    minicql.selftest()
    world()
    A, T, F = alphabet(), terminals(), flat_makers()
    full_depth = 2 if ctx.quick else 3          # every chain over the full alphabet up to this length
    depth = full_depth + 1                      # plus every chain of this length over the reduced alphabet
    full = list(range(len(A)))
    reduced = [i for i in full if A[i][0] not in REDUNDANT]
    letters = ctx.rotate(full)
    # split by the first two letters for load balance
    jobs = [('chains', ([(a,)], 0, 0, full, False)) for a in letters]
    jobs += [('chains', ([(a, b)], 0, full_depth - 2, full, False)) for a in letters for b in full]
    red_rot = [a for a in letters if a in reduced]
    jobs += [('chains', ([(a, b)], depth - 2, depth - 2, reduced, True)) for a in red_rot for b in reduced]
    jobs.append(('dml', ('single', list(range(len(F))))))
    for i in range(len(F)):
        jobs.append(('dml', ('batch', [i])))
    jobs += [('shared', (k, ia)) for k in SHARED_KINDS for ia in ctx.rotate(list(range(len(SHARED_SHAPES))))]
    for part in ctx.pmap(_job, jobs):
        ctx.merge(part)
    ctx.count('alphabet', len(A))
    ctx.count('reduced_alphabet', len(reduced))
    ctx.cov['rule'] = ('alphabet of %d query-set operations, every chain of length 1..%d over it and every chain of length %d over the reduced '
                       'alphabet (without %s) finished by the terminals %s, the others each finished by %d terminals; each update/delete terminal of a '
                       'chain of length <= %d additionally inside a BatchQuery before and after the companion maker %r (counter chains_in_batch); %d DML maker x option '
                       'cases alone and all %d ordered pairs in one BatchQuery; an evaluation = one statement text handed to the session; '
                       'non-trivial = an unbatched chain with at least two bound filter/condition values, every batched chain, every DML case and every batch; '
                       'shared value objects %r x %d x %d ordered shape pairs %r x histories of %d operations %r (unbatched, first on A) and of 2..3 '
                       'operations %r (both query sets in one BatchQuery): counters shared_histories, shared_renders, shared_renders_again '
                       '(the query set was rendered before and the other one since; these and the batches count as non-trivial), shared_batches'
                       % (len(A), full_depth, depth, sorted(REDUNDANT), sorted(LONG_TERMINALS), len(T), BATCH_MAX_LEN, COMPANION, len(F), len(F) * len(F),
                          SHARED_KINDS, len(SHARED_SHAPES), len(SHARED_SHAPES), SHARED_SHAPES, SHARED_LEN, SHARED_OPS, SHARED_BATCH_OPS))
    ctx.cov['exhaustive'] = True
    ctx.assume('an empty set/list/map operand of add/remove/append/prepend/update asks for nothing to be added or removed; '
               'cqlengine may drop the clause or the whole statement')
    ctx.assume('map updates may be rendered per key ("m"[k] = v) or as a map addition, map key removal as m = m - {k} or per key; both forms are accepted')
    ctx.assume('conditions repeated on the DELETE that cqlengine issues for nulled columns must be among the requested ones (which of them is not fixed by the statement)')
    ctx.assume('USING TIMESTAMP is requested with integer microsecond values only (datetime/timedelta timestamps depend on the local clock and zone)')
    ctx.assume('a value object or WhereClause handed to filter() may be handed to filter() of another query set as well (nothing in cqlengine forbids it); '
               'query sets are rendered one at a time (no threads)')
    ctx.assume('the select list, ORDER BY and LIMIT are outside the property statement and not judged')


def _job(job):
    kind, args = job
    if kind == 'shared':
        return run_shared(args)
    return run_chains(args) if kind == 'chains' else run_dml(args)


def replay(ctx, data):
    w = world()
    s = w['session']
    part = Part()
    if 'shared' in data:
        run_shared_history(part, data['shared'], data['shapes'][0], data['shapes'][1], [tuple(h) for h in data['history']], data['batched'])
    elif 'chain' in data:
        A, T = alphabet(), terminals()
        fr, req = Fresh(), Req()
        q = w['Q'].objects
        for ai in data['chain']:
            q = A[ai][1](q, req, fr)
        s.take()
        tname, tfn = T[data['terminal']]
        mode = data.get('mode')
        exp = run_terminal(q, req, fr, tname, tfn, mode, companion())
        judge(part, tname.replace(' alone', '') + ('/' + mode if mode else ''), data, s.take(), exp)
    elif 'dml' in data:
        part = run_dml(('single', [data['dml']]))
    else:
        from cassandra.cqlengine.query import BatchQuery
        F = flat_makers()
        i, j = data['batch']
        fr = Fresh()
        s.take()
        b = BatchQuery()
        exp = F[i][1](fr, b, F[i][2]) + F[j][1](fr, b, F[j][2])
        b.execute()
        judge(part, 'batch/%s' % F[j][0].split('[')[0], data, s.take(), exp)
    for fp, what, _ in part.violations:
        print(fp, '::', what)
    return bool(part.violations)
