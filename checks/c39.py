"""C39 Column encryption is transparent, including for nulls.

Engine N.  An `AES256ColumnEncryptionPolicy` with a fixed key and IV is configured for some columns of
a table.  A real `PreparedStatement` is made from a PREPARED response (built by the independent frame
builders, decoded by the driver's own `decode_message`) exactly as `Session.prepare` does, rows are
bound through `BoundStatement.bind`, the EXECUTE frame the driver would send is encoded and parsed with
the independent request parser to obtain the wire bytes of every value, those bytes are echoed back in
a RESULT rows body (with column metadata, and with the NO_METADATA flag + the prepared statement's
result metadata, which is what the driver asks for after a prepare), and the body is decoded by
`ProtocolHandler.decode_message` of a handler class that carries the policy (as `Session` builds it).

Oracle (written with the `cryptography` primitives and the reference value codec, not with the
policy's own code): a bound non-null value of an encrypted column is on the wire as IV || AES-256-CBC
ciphertext that differs from the plain encoding and decrypts (PKCS7) to the reference encoding of the
value for the policy's type; plain columns carry the reference encoding; null stays null; the decoded
rows equal the bound rows, None included.

`run_cases()` is also called by C07 inside its compiled build so that the Cython row parsers
(`obj_parser.pyx`) are judged by the same oracle.
"""
import itertools

from vt.core import Part, HarnessError
from vt.spec import frames as F
from vt.spec import values as V
from vt.spec import valuegen as G
from vt import valbridge as B

META = {
    'level': 'exploration',
    'engine': 'N',
    'technique': 'bounded-exhaustive enumeration of (column layout, type, boundary value or null, row count, protocol version, metadata mode) '
                 'through real bind -> wire -> echo -> decode, judged by an independent AES/codec reference',
    'text': 'Every scalar type the AES256 policy accepts (20 CQL types) x every boundary value of the C01 generator and null as a single '
            'encrypted column; column layouts of 1-3 columns with every encrypted/plain pattern x 0-3 rows x null in every position; '
            'protocol versions 4 (quick) / 3,4,5,DSE_V2 (thorough); result echoed with column metadata and with NO_METADATA + the '
            'prepared result metadata. Checked: wire bytes of encrypted non-null values = IV || ciphertext, differ from the plain '
            'encoding and decrypt (independent AES-256-CBC/PKCS7) to the reference encoding; plain columns carry the reference encoding; '
            'null is sent as null; decoded rows equal the bound rows including None.',
    'note': 'Trusted base: vt/spec/frames.py (PREPARED / RESULT builders, EXECUTE parser), vt/spec/values.py (value codec), the '
            '`cryptography` package. Encrypted columns are declared blob by the server, as the feature documents. This claim is '
            'for the pure-Python decoders (ProtocolHandler and its subclasses as built in this image); the compiled row parsers '
            '(obj_parser.pyx) are judged by the same run_cases() inside the out-of-tree Cython build of the C07 check, which is '
            'claimed separately (see MANIFEST / DESIGN.md section 9).',
    'design_ref': 'C39',
}

KEY = bytes(range(32))
KEY2 = bytes(range(100, 132))
IV = bytes(range(200, 216))
KS, TABLE = 'ks1', 'tbl'


def supported_types():
    from cassandra.cqltypes import _cqltypes
    # counters cannot live in a blob column; everything else the policy accepts by name and that is a CQL scalar
    return [k for k in V.SCALARS if k in _cqltypes and k != 'counter']


def ref_decrypt(key, wire):
    """Independent AES-256-CBC + PKCS7 decryption of IV || ciphertext."""
    from cryptography.hazmat.primitives import padding
    from cryptography.hazmat.primitives.ciphers import Cipher, algorithms, modes
    if len(wire) < 32 or len(wire) % 16:
        raise ValueError('not IV || whole AES blocks: %d bytes' % len(wire))
    d = Cipher(algorithms.AES(key), modes.CBC(wire[:16])).decryptor()
    padded = d.update(wire[16:]) + d.finalize()
    u = padding.PKCS7(128).unpadder()
    return u.update(padded) + u.finalize()


def wire_type(name, pv):
    """Type name for the frame builders of a plain column."""
    if name == 'text':
        return 'varchar'          # the text type code only exists in v1/v2
    return name


def plain_allowed(name, pv):
    return F.type_allowed(wire_type(name, pv), pv) and not (name == 'duration' and F.is_dse(pv))


class Layout(object):
    """Columns of one table: list of (name, cql type name, key or None)."""
    def __init__(self, cols):
        self.cols = cols

    def label(self):
        return '+'.join('%s:%s' % ('E' if k else 'P', t) for _, t, k in self.cols)

    def pattern(self):
        return ''.join('E' if k else 'P' for _, t, k in self.cols)


class World(object):
    """Driver objects for one (layout, protocol version): policy, handler class, prepared statement."""
    def __init__(self, layout, pv, handler_name):
        import cassandra.protocol as cp
        from cassandra.policies import ColDesc
        from cassandra.column_encryption.policies import AES256ColumnEncryptionPolicy
        from cassandra.query import PreparedStatement
        from cassandra.metadata import Metadata
        self.cp, self.pv, self.layout = cp, pv, layout
        self.policy = AES256ColumnEncryptionPolicy(iv=IV)
        for name, t, key in layout.cols:
            if key:
                self.policy.add_column(ColDesc(KS, TABLE, name), key, t)
        base = getattr(cp, handler_name)
        if base is None:
            raise HarnessError('cassandra.protocol.%s is None in this build' % handler_name)
        # what Session.__init__ does with Cluster.column_encryption_policy
        self.handler = type('verif-ProtocolHandler', (base,), {'column_encryption_policy': self.policy})
        self.wire_cols = [(KS, TABLE, name, 'blob' if key else wire_type(t, pv)) for name, t, key in layout.cols]
        args = dict(query_id=b'\x0a\x0b', bind_cols=self.wire_cols, bind_global=True)
        if pv >= 4:
            args['pk_indexes'] = []
        if pv != 1:
            args['result_cols'] = self.wire_cols
            args['result_meta'] = {'global_spec': True}
        if F.has_metadata_id(pv):
            args['result_metadata_id'] = b'\x77\x66'
        frame = F.build_response(pv, {'op': 'RESULT', 'kind': 'prepared', 'args': args})
        msg = self._decode(frame, None, cp._ProtocolHandler)
        self.prepared = PreparedStatement.from_message(
            msg.query_id, msg.bind_metadata, msg.pk_indexes, Metadata(), 'INSERT INTO ks1.tbl (...) VALUES (...)', None,
            pv, msg.column_metadata, msg.result_metadata_id, self.policy)

    def _decode(self, frame, result_metadata, handler):
        version, is_resp, flags, stream, opcode, length, hl = F.split_header(frame)
        return handler.decode_message(version, {}, stream, flags, opcode, frame[hl:], None, result_metadata)

    def bind_to_wire(self, row):
        """Bind one row and return the values as they appear in the EXECUTE frame."""
        from cassandra import ConsistencyLevel
        bound = self.prepared.bind(row)
        msg = self.cp.ExecuteMessage(self.prepared.query_id, bound.values, ConsistencyLevel.ONE, None, None, None, None,
                                     skip_meta=bool(self.prepared.result_metadata),
                                     result_metadata_id=self.prepared.result_metadata_id)
        frame = self.handler.encode_message(msg, 1, self.pv, None, False)
        req = F.parse_request(bytes(frame))
        if req['opcode'] != 'EXECUTE' or req['query_id'] != b'\x0a\x0b':
            raise HarnessError('unexpected request %r' % (req,))
        return req['values'], req['skip_metadata']

    def echo(self, wire_rows, no_metadata):
        meta = {'no_metadata': True} if no_metadata else {'global_spec': True}
        if not no_metadata and not self.wire_cols:
            meta['global_names'] = (KS, TABLE)
        frame = F.build_response(self.pv, {'op': 'RESULT', 'kind': 'rows', 'cols': self.wire_cols, 'rows': wire_rows,
                                           'encoded': True, 'meta': meta}, stream=1)
        msg = self._decode(frame, self.prepared.result_metadata if no_metadata else None, self.handler)
        rows = msg.parsed_rows
        return None if rows is None else [tuple(r) for r in rows]


# ------------------------------------------------------------------------------------------------
def layouts_and_rows(pv, thorough):
    """-> list of (layout, list of rows (reference values), tag)."""
    types = supported_types()
    out = []
    # 1. one encrypted column: every boundary value, and null, one row each; then all of them as rows of one result
    for t in types:
        lay = Layout([('c', t, KEY)])
        vals = G.scalar_values(t, thorough)
        for v in vals:
            out.append((lay, [(v,)], 'single'))
        out.append((lay, [(None,)], 'single-null'))
        out.append((lay, [], 'no-rows'))
        out.append((lay, [(vals[0],), (None,), (vals[-1],)], 'three-rows'))
        out.append((lay, [(None,), (None,)], 'all-null'))
    # 2. mixes: every encrypted/plain pattern over 2 and 3 columns, 0..3 rows, null in every position
    pool = [t for t in types if plain_allowed(t, pv)]
    patterns2 = [p for p in itertools.product('EP', repeat=2) if 'E' in p]
    patterns3 = [p for p in itertools.product('EP', repeat=3) if 'E' in p]
    for i, t in enumerate(pool):
        t2 = pool[(i + 1) % len(pool)]
        t3 = pool[(i + 7) % len(pool)]
        pats = patterns2 + (patterns3 if thorough or i % 3 == 0 else [patterns3[i % len(patterns3)]])
        for pat in pats:
            ts = (t, t2, t3)[:len(pat)]
            keys = (KEY, KEY2, KEY)
            lay = Layout([('c%d' % j, ts[j], keys[j] if pat[j] == 'E' else None) for j in range(len(pat))])
            a = tuple(G.pair((x,))[0] for x in ts)
            b = tuple(G.pair((x,))[1] for x in ts)
            nulls = [a[:j] + (None,) + a[j + 1:] for j in range(len(pat))]
            out.append((lay, [], 'mix-0'))
            out.append((lay, [a], 'mix-1'))
            out.append((lay, [a, b], 'mix-2'))
            out.append((lay, [a, nulls[0], b], 'mix-3'))
            for j, n in enumerate(nulls):
                out.append((lay, [n], 'mix-null%d' % j))
            out.append((lay, [(None,) * len(pat), b], 'mix-allnull'))
    # a plain-only layout as a control: the policy must leave it alone
    out.append((Layout([('c0', 'int', None), ('c1', 'varchar', None)]), [(1, 'x'), (None, None)], 'plain-only'))
    return out


def value_class(t, v):
    if v is None:
        return 'null'
    if v in ('', b''):
        return 'empty'
    return 'value'


def run_cases(pvs, thorough, handler_names, slice_=(0, 1), only=None, fp_prefix='C39'):
    """Enumerate; returns a Part.  handler_names: attribute names of cassandra.protocol to decode with."""
    import logging
    import resource
    logging.getLogger('cassandra').setLevel(logging.CRITICAL)
    part = Part()
    idx = -1
    # self-protection: a broken tree may turn an integer into a buffer of that many bytes (bytes(2**33));
    # with a 1.5 GiB address-space cap that is a quick MemoryError (reported as a bind failure), not a stalled machine
    soft, hard = resource.getrlimit(resource.RLIMIT_AS)
    cap = 3 << 29
    if hard != resource.RLIM_INFINITY:
        cap = min(cap, hard)
    resource.setrlimit(resource.RLIMIT_AS, (cap, hard))
    try:
        return _run_cases(part, idx, pvs, thorough, handler_names, slice_, only, fp_prefix)
    finally:
        resource.setrlimit(resource.RLIMIT_AS, (soft, hard))


def _run_cases(part, idx, pvs, thorough, handler_names, slice_, only, fp_prefix):
    for pv in pvs:
        worlds = {}
        for lay, rows, tag in layouts_and_rows(pv, thorough):
            idx += 1
            if idx % slice_[1] != slice_[0]:
                continue
            if only is not None and (only['index'] != idx or only['pv'] != pv):
                continue
            key = lay.label()
            if key not in worlds:
                worlds[key] = dict((h, World(lay, pv, h)) for h in handler_names)
            for h in handler_names:
                one_case(part, worlds[key][h], h, pv, lay, rows, tag, idx, thorough, fp_prefix)
    return part


def one_case(part, w, hname, pv, lay, rows, tag, idx, thorough, P):
    case = {'index': idx, 'pv': pv, 'layout': lay.label(), 'tag': tag, 'thorough': thorough, 'handler': hname,
            'rows': B.short(rows, 300)}
    types = [(t,) for _, t, _ in lay.cols]
    part.count('evaluations')
    # ---- bind -> wire
    wire_rows = []
    for r in rows:
        drow = [B.to_driver(t, v) for t, v in zip(types, r)]
        try:
            wire, skip = w.bind_to_wire(drow)
        except HarnessError:
            raise
        except Exception as e:
            bad = next((t[0] for t, v in zip(types, r) if v is not None), 'none')
            part.violation('%s/bind/raises-%s/%s' % (P, type(e).__name__, bad),
                           'binding row %s to layout %s (pv %s) raised %s: %s' % (B.short(r), lay.label(), pv, type(e).__name__, e), case)
            part.outcome((hname, tag, 'bind-raises'))
            return
        if len(wire) != len(r):
            part.violation('%s/wire/value-count' % P, 'EXECUTE carries %d values for %d columns' % (len(wire), len(r)), case)
            return
        for (name, t, key), v, wb in zip(lay.cols, r, wire):
            enc = 'encrypted' if key else 'plain'
            if v is None:
                if wb is not None:
                    part.violation('%s/wire/null-not-null/%s' % (P, enc),
                                   'null bound for %s column %s of type %s went out as %r' % (enc, name, t, wb), case)
                continue
            if wb is None or wb is F.UNSET:
                part.violation('%s/wire/value-became-null/%s' % (P, enc), 'value %s of %s column %s (%s) went out as %r' % (
                    B.short(v), enc, name, t, wb), case)
                continue
            plain = V.encode((t,), v, pv)
            if key:
                part.count('encrypted_values')
                if wb == plain or (len(plain) >= 4 and plain in wb):
                    part.violation('%s/wire/plaintext-on-wire/%s' % (P, t),
                                   'encrypted column %s (%s): value %s is on the wire in clear: %s' % (name, t, B.short(v), wb.hex()[:200]), case)
                    continue
                try:
                    back = ref_decrypt(key, wb)
                except Exception as e:
                    part.violation('%s/wire/not-decryptable/%s' % (P, t),
                                   'encrypted column %s (%s): wire bytes %s of value %s are not IV||AES-256-CBC/PKCS7 under the column key: %s' % (
                                       name, t, wb.hex()[:200], B.short(v), e), case)
                    continue
                if wb[:16] != IV:
                    part.violation('%s/wire/iv' % P, 'the configured IV does not lead the wire bytes: %s' % wb[:16].hex(), case)
                if back != plain:
                    part.violation('%s/wire/decrypts-to-other-bytes/%s' % (P, t),
                                   'encrypted column %s: wire bytes decrypt to %s, the %s encoding of %s is %s' % (
                                       name, back.hex()[:120], t, B.short(v), plain.hex()[:120]), case)
            elif wb != plain:
                part.violation('%s/wire/plain-column-altered/%s' % (P, t),
                               'plain column %s (%s): value %s went out as %s, reference encoding %s' % (
                                   name, t, B.short(v), wb.hex()[:120], plain.hex()[:120]), case)
        wire_rows.append(list(wire))
    # ---- echo -> decode
    has_null_enc = any(v is None and key for r in rows for (_, _, key), v in zip(lay.cols, r))
    for no_meta in (False, True):
        if no_meta and pv == 1:
            continue
        mode = 'nometa' if no_meta else 'meta'
        part.count('decodes')
        try:
            got = w.echo(wire_rows, no_meta)
        except HarnessError:
            raise
        except Exception as e:
            cls_ = 'null-in-encrypted-column' if has_null_enc else 'no-null/%s' % '+'.join(sorted(set(t for _, t, k in lay.cols if k)))
            part.violation('%s/decode/%s/raises-%s/%s' % (P, hname, type(e).__name__, cls_),
                           'decoding the echoed rows %s of layout %s (pv %s, %s) with %s raised %s: %s' % (
                               B.short(rows), lay.label(), pv, mode, hname, type(e).__name__, e), case)
            part.outcome((hname, tag, mode, 'decode-raises'))
            continue
        if got is None or len(got) != len(rows):
            part.violation('%s/decode/%s/row-count' % (P, hname), 'sent %d rows, decoded %r' % (len(rows), None if got is None else len(got)), case)
            continue
        ok = True
        for r, g in zip(rows, got):
            if len(g) != len(r):
                part.violation('%s/decode/%s/row-width' % (P, hname), 'row %s decoded as %s' % (B.short(r), B.short(g)), case)
                ok = False
                continue
            for (name, t, key), v, x in zip(lay.cols, r, g):
                d = B.diff((t,), v, B.from_driver((t,), x))
                if d is not None:
                    ok = False
                    tail, text = B.describe(d)
                    part.violation('%s/decode/%s/%s/%s' % (P, hname, 'encrypted' if key else 'plain', tail),
                                   '%s column %s of layout %s (pv %s, %s): bound %s, decoded %s: %s' % (
                                       'encrypted' if key else 'plain', name, lay.label(), pv, mode, B.short(v), B.short(x), text), case)
        part.outcome((hname, tag, mode, 'ok' if ok else 'mismatch'))
    if rows and any(k for _, _, k in lay.cols):
        part.mark_nontrivial(repr((pv, lay.label(), tag, B.short(rows, 80))))
    if tag in ('mix-3', 'three-rows') and wire_rows:
        part.sample({'layout': lay.label(), 'pv': pv, 'rows': B.short(rows, 160),
                     'wire_first_row': [None if x is None else x.hex()[:64] for x in wire_rows[0]]}, limit=1)


def selftest():
    """The reference decryption against a vector computed with the cryptography package alone
    (AES-256-CBC of one PKCS7 block, NIST-style sanity: decrypt(encrypt(x)) == x and differs from x)."""
    from cryptography.hazmat.primitives import padding
    from cryptography.hazmat.primitives.ciphers import Cipher, algorithms, modes
    p = padding.PKCS7(128).padder()
    data = p.update(b'\x00\x00\x00\x07') + p.finalize()
    e = Cipher(algorithms.AES(KEY), modes.CBC(IV)).encryptor()
    wire = IV + e.update(data) + e.finalize()
    if ref_decrypt(KEY, wire) != b'\x00\x00\x00\x07' or len(wire) != 32:
        raise HarnessError('reference AES self-test failed')
    try:
        ref_decrypt(KEY2, wire)
        raise HarnessError('reference AES accepts a wrong key')
    except ValueError:
        pass


def pvs_of(thorough):
    return (3, 4, 5, 66) if thorough else (4,)


def run_slice(args):
    thorough, i, n = args
    return run_cases(pvs_of(thorough), thorough, ['ProtocolHandler'], (i, n))


def run(ctx):
    V.selftest()
    if not F.selftest():
        raise HarnessError('vt.spec.frames self-test failed')
    selftest()
    import cassandra.protocol as cp
    import cassandra.query  # noqa  (imported before the fork)
    n = 4 if ctx.quick else ctx.nproc
    items = ctx.rotate([(ctx.thorough, i, n) for i in range(n)])
    for part in ctx.pmap(run_slice, items):
        ctx.merge(part)
    ctx.cov['handler'] = 'cassandra.protocol.ProtocolHandler (%s)' % ('Cython row parser' if cp.HAVE_CYTHON else 'pure Python')
    ctx.cov['protocol_versions'] = list(pvs_of(ctx.thorough))
    ctx.cov['types'] = supported_types()
    ctx.cov['rule'] = ('cases = per version: per type {each boundary value, null, no rows, three rows with a null, all-null} as one encrypted column + '
                       'per type the 2-column patterns EE/EP/PE and 3-column patterns with at least one E (all 7 in thorough) x {0,1,2,3 rows, null in '
                       'each position, an all-null row}; each case is decoded twice (with metadata / NO_METADATA + prepared result metadata); '
                       'non-trivial = at least one row and at least one encrypted column')
    ctx.cov['exhaustive'] = True
    ctx.assume('the server declares encrypted columns as blob and returns the stored bytes unchanged')
    ctx.assume('counter is left out (a counter cannot be stored in a blob column); collection types cannot be named to add_column and are out of the policy\'s reach')
    ctx.assume('the compiled row parsers are exercised by C07, which calls run_cases() of this module inside its Cython build')
    ctx.assume('AES256ColumnEncryptionPolicy.encode_and_encrypt (helper for simple statements) is outside the statement (prepared statements only)')


def replay(ctx, data):
    part = run_cases((data['pv'],), bool(data['thorough']), [data.get('handler', 'ProtocolHandler')], only=data)
    for fp, what, _ in part.violations:
        print(fp, '::', what)
    return bool(part.violations)
