"""C33 Driver collection types behave as their mathematical models.

Engine N (sequence search): breadth-first exploration of operation sequences on real
cassandra.util.SortedSet / OrderedMap / OrderedMapSerializedKey objects, next to a model (python sets
of element indices; an insertion-ordered list of (key, value) keyed by an independently computed CQL
encoding).  A state is (model state, complete internal state of the driver object); states are rebuilt
by replaying their operation path, every operation of the alphabet is applied in every state, and its
result or exception class is compared with the model's; after every operation the whole observable
state (iteration, len, membership of every domain element) of every object involved is compared too.
The map harnesses carry a second object, a plain OrderedMap constructed from the map under test (None until the first
'copy'), with its own model: construction from another map, every keyed operation on the copy and on the source, and
aliasing between the two are part of the same search.
"""
import copy
import struct
from collections import OrderedDict

from vt.core import Part, HarnessError

META = {
    'level': 'model_checking',
    'engine': 'N',
    'technique': 'breadth-first operation-sequence search with state deduplication vs set / ordered-dict models',
    'text': 'SortedSet: two sets a, b over a 3-element domain (ints; tuples; lists = unhashable; dicts = unhashable and '
            'only ==-comparable; SortedSets/frozensets = partially ordered, as produced for set<frozen<set>> columns); '
            'alphabet add/remove/pop/clear/|=/&=/-=/^=/update on a (operand b, a builtin set, a itself; update also with a list / '
            'b / an iterator), add/clear on b, and the queries in, len, iter, reversed, index, '
            'union/intersection/difference/symmetric_difference and operators (also reflected with builtin sets, and with a '
            'itself as the operand), <=,<,>=,>,==,!=, issubset/issuperset/isdisjoint (operand SortedSet, set, list, tuple), copy; '
            'all sequences to depth 4 (quick) / 6 (thorough) modulo state equality.  In every state the n-ary methods '
            'union/intersection/difference are called with every argument tuple of length 0..3: each argument any of the 8 '
            'subsets of the domain, all built as SortedSet, list, tuple (hashable domains: also set, frozenset), or the live a / b '
            'in any position (arity 3 with b: the other two as lists); tuples that do not read b are run once per distinct state '
            'of a.  OrderedMap and OrderedMapSerializedKey (int, text, frozen list<int>, frozen '
            'map<int,int> keys incl. an alias key with the same encoding; protocol 4, thorough also 3 and 5): set/get/del/'
            'popitem/contains/len/iter/keys/values/items/get/==/construction (from pairs, an iterator with a repeated key, a dict, '
            'keyword arguments, another map, another map plus keyword arguments).  Copies: in every harness the alphabet also has '
            'copy (c = OrderedMap(m): a plain OrderedMap constructed from the map under test, i.e. from a plain OrderedMap or from '
            'an OrderedMapSerializedKey as a map column decodes to; replaces an earlier copy), recopy (c = OrderedMap(c)) and '
            'set/del/popitem/get/contains/len/iter/keys on the copy (written values differ from every value of the source) and '
            'm == c / c == m / m != c; the copy has its own model (same pairs as the source at the time of copying, then '
            'independent; keys of the type-less copy identified by python equality) and after every operation the whole observable '
            'state of BOTH the source and the copy is compared, so a copy that cannot find its keys, and any storage shared '
            'between source and copy (mutate one, observe the other, either direction), is a violation; sequences of source '
            'mutators, copies and copy mutators interleaved to depth 4 (quick) / 6 (thorough).  Total-order domains are also held '
            'to ascending iteration; the other domains only to set semantics.',
    'note': 'Dedup key contains the complete __dict__ of the driver objects, so no behaviour is abstracted away.  Mixed '
            'non-comparable elements (int/None) are outside the statement ("any single comparable type") and not generated.',
    'design_ref': 'C33',
}


class Unknown(Exception):
    pass


# =========================================================================================== SortedSet
def ss_domains():
    from cassandra.util import sortedset
    return {
        'int': ([0, 1, 2], 'total'),
        'tuple': ([(0,), (0, 1), (1,)], 'total'),
        'list': ([[0], [0, 1], [1]], 'total'),
        'dict': ([{0: 0}, {0: 1}, {1: 0}], 'eq-only'),
        'frozenset': ([frozenset([1]), frozenset([2]), frozenset([3])], 'partial-order'),
        'nested-sortedset': ([sortedset([1]), sortedset([2]), sortedset([3])], 'partial-order'),
    }


SS_MUT = [('add', 0), ('add', 1), ('add', 2), ('remove', 0), ('remove', 1), ('remove', 2), ('pop', None), ('clear', None),
          ('ior', None), ('iand', None), ('isub', None), ('ixor', None), ('update', None),
          ('b.add', 0), ('b.add', 1), ('b.add', 2), ('b.clear', None),
          # other operand shapes of the in-place forms: a builtin set (hashable domains), the receiver itself, b / a list
          ('ior-set', None), ('iand-set', None), ('isub-set', None), ('ixor-set', None),
          ('ior-self', None), ('iand-self', None), ('isub-self', None), ('ixor-self', None),
          ('update-b', None), ('update-list', None), ('update-self', None)]
SS_QUERY = [('in', 0), ('in', 1), ('in', 2), ('len', None), ('iter', None), ('reversed', None), ('index', 0), ('index', 1),
            ('index', 2), ('index', 3), ('index', -1), ('union', None), ('intersection', None), ('difference', None),
            ('symmetric_difference', None), ('or', None), ('and', None), ('sub', None), ('xor', None),
            ('le', None), ('lt', None), ('ge', None), ('gt', None), ('eq', None), ('ne', None),
            ('issubset', None), ('issuperset', None), ('isdisjoint', None), ('copy', None), ('copy-add', 0), ('copy-add', 2),
            ('union-many', None), ('init-from-iter', None),
            # the same against a builtin set operand (hashable domains only), and reflected
            ('set:or', None), ('set:and', None), ('set:sub', None), ('set:xor', None), ('set:le', None), ('set:lt', None),
            ('set:ge', None), ('set:gt', None), ('set:eq', None), ('set:ne', None),
            ('rset:or', None), ('rset:and', None), ('rset:sub', None), ('rset:xor', None), ('rset:eq', None)] + \
           [('self:' + n, None) for n in ('union', 'intersection', 'difference', 'symmetric_difference', 'or', 'and', 'sub', 'xor',
                                          'le', 'lt', 'ge', 'gt', 'eq', 'ne', 'issubset', 'issuperset', 'isdisjoint')]

NARY = ('union', 'intersection', 'difference')      # the methods that take *others
MASKS = range(8)                                    # every subset of the 3-element domain, as a bit mask


def ss_arg_ops(w):
    """The argument-tuple family: (ops that read only a, ops that also read b).
    op = ('nary:<method>', (wrapper, args)); an arg is 'a', 'b' (the live objects) or a subset mask, built fresh as <wrapper>.
    op = ('seq:<predicate>', (wrapper, mask)) for the one-operand predicates with a plain sequence.
    Every tuple of 0..3 arguments (with b: b in every position, the others as lists)."""
    W = w.wrappers()
    a_only, with_b = [], []
    for m in NARY:
        nm = 'nary:' + m
        a_only += [(nm, ('list', ())), (nm, ('list', ('a',))), (nm, ('list', ('a', 'a')))]
        with_b += [(nm, ('list', t)) for t in (('a', 'b'), ('b', 'a'), ('b', 'b'))]
        for wr in W:
            for x in MASKS:
                a_only += [(nm, (wr, (x,))), (nm, (wr, (x, 'a'))), (nm, (wr, ('a', x)))]
                with_b += [(nm, (wr, (x, 'b'))), (nm, (wr, ('b', x)))]
                a_only += [(nm, (wr, (x, y))) for y in MASKS]
        for wr in W:
            a_only += [(nm, (wr, (x, y, z))) for x in MASKS for y in MASKS for z in MASKS]
        for x in MASKS:
            for y in MASKS:
                with_b += [(nm, ('list', t)) for t in (('b', x, y), (x, 'b', y), (x, y, 'b'))]
    for pred in ('issubset', 'issuperset', 'isdisjoint'):
        a_only += [('seq:' + pred, (wr, x)) for wr in ('list', 'tuple') for x in MASKS]
    return a_only, with_b


class SSWorld(object):
    def __init__(self, dname):
        from cassandra.util import sortedset
        self.cls = sortedset
        self.dname = dname
        self.dom, self.order = ss_domains()[dname]
        self.hashable = dname in ('int', 'tuple', 'frozenset')
        self.a, self.b = sortedset(), sortedset()
        self.A, self.B = set(), set()

    def mk(self, i):
        return copy.deepcopy(self.dom[i])

    def wrappers(self):
        return ('sortedset', 'list', 'tuple') + (('set', 'frozenset') if self.hashable else ())

    def operand(self, wr, t):
        """-> (object handed to the driver, model set)"""
        if t == 'a':
            return self.a, set(self.A)
        if t == 'b':
            return self.b, set(self.B)
        idxs = [i for i in (2, 1, 0) if t >> i & 1]             # descending: a sequence need not come sorted
        mkr = {'list': list, 'tuple': tuple, 'set': set, 'frozenset': frozenset, 'sortedset': self.cls}[wr]
        return mkr([self.mk(i) for i in idxs]), set(idxs)

    def akey(self):
        return (frozenset(self.A), self.key()[2])

    def idx(self, x):
        for i, e in enumerate(self.dom):
            if type(e) is type(x) and e == x:
                return i
        raise Unknown(repr(x))

    def canon_set(self, r):
        """result set -> tuple of element indices (iteration order kept only where the statement defines it)"""
        elems = [self.idx(x) for x in r]
        if self.order == 'total' and isinstance(r, self.cls):
            return ('set', tuple(elems))
        return ('set', tuple(sorted(elems)))

    def key(self):
        def dump(o):
            return tuple(sorted((k, tuple(self.idx(x) for x in v) if k == '_items' else repr(v)) for k, v in vars(o).items()))
        return (frozenset(self.A), frozenset(self.B), dump(self.a), dump(self.b))

    def observe(self):
        """-> None or (clause, text)"""
        for nm, o, M in (('a', self.a, self.A), ('b', self.b, self.B)):
            try:
                elems = [self.idx(x) for x in o]
            except Unknown as e:
                return 'state/foreign-element', '%s contains %s' % (nm, e)
            if sorted(elems) != sorted(M):
                return 'state/elements', '%s iterates %r, model %r' % (nm, elems, sorted(M))
            if self.order == 'total' and elems != sorted(M):
                return 'state/order', '%s iterates %r, not ascending' % (nm, elems)
            if len(o) != len(M):
                return 'state/len', 'len(%s) = %r, model %d' % (nm, len(o), len(M))
            for i in range(len(self.dom)):
                try:
                    got = self.mk(i) in o
                except Exception as e:
                    return 'state/contains', '%r in %s raised %r' % (self.dom[i], nm, e)
                if got != (i in M):
                    return 'state/contains', '(%r in %s) = %r, model %r (%s iterates %r)' % (self.dom[i], nm, got, i in M, nm, elems)
        return None


def ss_apply(w, op):
    """-> (got, want): each ('exc', name) | ('val', x) | ('set', idx tuple) | ('elem', i) | ('none',)"""
    name, arg = op
    a, b, A, B = w.a, w.b, w.A, w.B
    srt = lambda s: ('set', tuple(sorted(s)))

    def guard(f):
        try:
            return f()
        except Unknown:
            raise
        except Exception as e:
            return ('exc', type(e).__name__)

    def setres(f):
        def g():
            r = f()
            c = w.canon_set(r)
            if isinstance(r, w.cls):
                r.clear()              # a result that shares storage with an operand shows in the next observation
            return c
        return guard(g)

    if name == 'add':
        got = guard(lambda: ('none',) if a.add(w.mk(arg)) is None else ('val', 'not None'))
        A.add(arg)
        return got, ('none',)
    if name == 'b.add':
        got = guard(lambda: ('none',) if b.add(w.mk(arg)) is None else ('val', 'not None'))
        B.add(arg)
        return got, ('none',)
    if name == 'remove':
        got = guard(lambda: ('none',) if a.remove(w.mk(arg)) is None else ('val', 'not None'))
        if arg in A:
            A.discard(arg)
            return got, ('none',)
        return got, ('exc', 'KeyError')
    if name == 'pop':
        if not A:
            return guard(lambda: ('elem', w.idx(a.pop()))), ('exc', 'KeyError')
        got = guard(lambda: ('elem', w.idx(a.pop())))
        if got[0] == 'elem' and got[1] in A:
            A.discard(got[1])          # a set may hand out any member
            return got, got
        return got, ('elem', 'some member of %r' % sorted(A))
    if name == 'clear':
        got = guard(lambda: ('none',) if a.clear() is None else ('val', 'not None'))
        A.clear()
        return got, ('none',)
    if name == 'b.clear':
        got = guard(lambda: ('none',) if b.clear() is None else ('val', 'not None'))
        B.clear()
        return got, ('none',)
    base, _, shape = name.partition('-')
    if (base in ('ior', 'iand', 'isub', 'ixor') and shape in ('', 'set', 'self')) or (base == 'update' and shape in ('', 'b', 'list', 'self')):
        if shape == 'set' and not w.hashable:
            return ('skip',), ('skip',)
        if name == 'update-self' and w.order == 'partial-order':
            return ('skip',), ('skip',)    # known-broken domain (add of a present element may insert): would not terminate
        O = set(A) if shape == 'self' else set(B)

        def f():
            nonlocal a
            before = a
            if shape == 'set':
                o = set(w.mk(i) for i in B)
            elif shape == 'self':
                o = a
            elif shape == 'list':
                o = [w.mk(i) for i in sorted(B, reverse=True)]
            elif base == 'update' and shape == '':
                o = iter([w.mk(i) for i in sorted(B, reverse=True)])
            else:
                o = b
            if base == 'ior':
                a |= o
            elif base == 'iand':
                a &= o
            elif base == 'isub':
                a -= o
            elif base == 'ixor':
                a ^= o
            else:
                a.update(o)
            w.a = a
            return ('val', 'same object' if a is before else 'another object')
        got = guard(f)
        newA = {'ior': A | O, 'iand': A & O, 'isub': A - O, 'ixor': A ^ O, 'update': A | O}[base]
        A.clear()
        A.update(newA)
        return got, ('val', 'same object')
    # ---- queries
    if name == 'in':
        return guard(lambda: ('val', w.mk(arg) in a)), ('val', arg in A)
    if name == 'len':
        return guard(lambda: ('val', len(a))), ('val', len(A))
    if name == 'iter':
        return guard(lambda: w.canon_set(a)), srt(A)
    if name == 'reversed':
        def f():
            elems = [w.idx(x) for x in reversed(a)]
            return ('set', tuple(reversed(elems)) if w.order == 'total' else tuple(sorted(elems)))
        return guard(f), srt(A)
    if name == 'index':
        sa = sorted(A)
        want = ('exc', 'IndexError') if not (-len(sa) <= arg < len(sa)) else \
            (('elem', sa[arg]) if w.order == 'total' else ('elem', 'a member'))
        got = guard(lambda: ('elem', w.idx(a[arg])))
        if want == ('elem', 'a member') and got[0] == 'elem' and got[1] in A:
            return got, got
        return got, want
    binops = {
        'union': (lambda o: a.union(o), A | B), 'intersection': (lambda o: a.intersection(o), A & B),
        'difference': (lambda o: a.difference(o), A - B), 'symmetric_difference': (lambda o: a.symmetric_difference(o), A ^ B),
        'or': (lambda o: a | o, A | B), 'and': (lambda o: a & o, A & B), 'sub': (lambda o: a - o, A - B), 'xor': (lambda o: a ^ o, A ^ B),
    }
    cmps = {
        'le': (lambda o: a <= o, A <= B), 'lt': (lambda o: a < o, A < B), 'ge': (lambda o: a >= o, A >= B), 'gt': (lambda o: a > o, A > B),
        'eq': (lambda o: a == o, A == B), 'ne': (lambda o: a != o, A != B), 'issubset': (lambda o: a.issubset(o), A <= B),
        'issuperset': (lambda o: a.issuperset(o), A >= B), 'isdisjoint': (lambda o: a.isdisjoint(o), not (A & B)),
    }
    if name.startswith('nary:'):
        wr, args = arg
        if wr in ('set', 'frozenset') and not w.hashable:
            return ('skip',), ('skip',)
        ops_ = [w.operand(wr, t) for t in args]
        m = set(A)
        for _, O in ops_:
            m = {'union': m | O, 'intersection': m & O, 'difference': m - O}[name[5:]]
        return setres(lambda: getattr(a, name[5:])(*[o for o, _ in ops_])), srt(m)
    if name.startswith('seq:'):
        wr, t = arg
        o, O = w.operand(wr, t)
        want = {'issubset': A <= O, 'issuperset': A >= O, 'isdisjoint': not (A & O)}[name[4:]]
        return guard(lambda: ('val', getattr(a, name[4:])(o))), ('val', want)
    if name.startswith('self:'):
        base = name[5:]
        if base in binops:
            m = {'union': A, 'intersection': A, 'difference': set(), 'symmetric_difference': set(),
                 'or': A, 'and': A, 'sub': set(), 'xor': set()}[base]
            return setres(lambda: binops[base][0](a)), srt(m)
        if w.order == 'eq-only' and base in ('eq', 'ne'):
            return ('skip',), ('skip',)
        m = {'le': True, 'lt': False, 'ge': True, 'gt': False, 'eq': True, 'ne': False, 'issubset': True, 'issuperset': True,
             'isdisjoint': not A}[base]
        return guard(lambda: ('val', cmps[base][0](a))), ('val', m)
    if name in binops:
        f, m = binops[name]
        return setres(lambda: f(b)), srt(m)
    if name in cmps:
        if w.order == 'eq-only' and name in ('eq', 'ne'):
            # unorderable elements are outside the statement ("any single comparable type"): their internal order is
            # insertion order and ==/!= between two SortedSets of them is not defined by it (coordinator decision)
            return ('skip',), ('skip',)
        f, m = cmps[name]
        return guard(lambda: ('val', f(b))), ('val', m)
    if name.startswith('set:') or name.startswith('rset:'):
        if not w.hashable:
            return ('skip',), ('skip',)
        other = set(w.mk(i) for i in B)
        base = name.split(':')[1]
        if name.startswith('set:'):
            if base in binops:
                f, m = binops[base]
                return setres(lambda: f(other)), srt(m)
            f, m = cmps[base]
            return guard(lambda: ('val', f(other))), ('val', m)
        rf = {'or': (lambda: other | a, B | A), 'and': (lambda: other & a, B & A), 'sub': (lambda: other - a, B - A),
              'xor': (lambda: other ^ a, B ^ A), 'eq': (lambda: other == a, B == A)}[base]
        if base == 'eq':
            return guard(lambda: ('val', rf[0]())), ('val', rf[1])
        return setres(rf[0]), srt(rf[1])
    if name == 'copy':
        def f():
            c = a.copy()
            if c is a:
                return ('val', 'copy is the same object')
            r = w.canon_set(c)
            c.clear()
            return r
        return guard(f), srt(A)
    if name == 'copy-add':
        def f():
            c = a.copy()
            c.add(w.mk(arg))
            return w.canon_set(c)
        return guard(f), srt(A | {arg})
    if name == 'union-many':
        return setres(lambda: a.union(b, [w.mk(0)], [])), srt(A | B | {0})
    if name == 'init-from-iter':
        return setres(lambda: w.cls(iter([w.mk(i) for i in sorted(A | B, reverse=True)] + [w.mk(i) for i in sorted(A)]))), srt(A | B)
    raise HarnessError('unknown op %r' % (op,))


# =========================================================================================== OrderedMap
def enc_int(i):
    return struct.pack('>i', i)


def enc_key(kind, k):
    """CQL encoding (protocol v3+) of a key of the given kind, written from the protocol specification."""
    if kind == 'int':
        return enc_int(int(k))
    if kind == 'text':
        return k.encode('utf-8')
    if kind == 'list':          # frozen<list<int>>: [int n] then n x ([int len] bytes)
        return enc_int(len(k)) + b''.join(enc_int(4) + enc_int(x) for x in k)
    if kind == 'map':           # frozen<map<int,int>>: [int n] then n x ([int len] key [int len] value), in the order given
        return enc_int(len(k)) + b''.join(enc_int(4) + enc_int(x) + enc_int(4) + enc_int(y) for x, y in k.items())
    raise HarnessError(kind)


def om_domains():
    # (kind, keys, alias index or None): keys[-1] may be a different python value with the same encoding as an earlier key
    return {
        'int': ([0, 1, -1], None),
        'text': (['a', 'b', 'é'], None),
        'tuple': ([(0,), (0, 1), (1,)], None),
        'list': ([[0], [0, 1], [1], (0, 1)], 1),
        'map': ([{0: 0}, {0: 1}, {1: 0}, OrderedDict([(0, 1)])], 1),
    }


def cass_type(kind):
    from cassandra import cqltypes as ct
    if kind == 'int':
        return ct.Int32Type
    if kind == 'text':
        return ct.UTF8Type
    if kind in ('list', 'tuple'):
        return ct.ListType.apply_parameters([ct.Int32Type])
    if kind == 'map':
        return ct.MapType.apply_parameters([ct.Int32Type, ct.Int32Type])


VALUES = [10, 11]
CVALUES = [20]                          # what is written through the copy: told apart from anything the source ever held


class OMWorld(object):
    """m: the map under test (model M, keys identified by ident()).  c: None, or a plain OrderedMap built from m by the
    constructor (model C: [(key index, value)]; a plain OrderedMap has no CQL type, so in c every key index is its own key)."""

    def __init__(self, cls_name, kind, proto):
        import cassandra.util as cu
        self.cls_name, self.kind, self.proto = cls_name, kind, proto
        keys, alias = om_domains()[kind]
        if cls_name == 'OrderedMap':
            # the plain class has no CQL type: key identity is python equality; the alias key is not used
            keys = keys[:3]
            self.m = cu.OrderedMap()
            self.ident = lambda i: i
        else:
            self.m = cu.OrderedMapSerializedKey(cass_type(kind), proto)
            encs = [enc_key('list' if kind == 'tuple' else kind, k) for k in keys]
            self.ident = lambda i: encs.index(encs[i])
        self.keys = keys
        self.M = []                     # [(ident, value)] in insertion order
        self.c, self.C = None, None
        self.cu = cu

    def mk(self, i):
        return copy.deepcopy(self.keys[i])

    def kid(self, k):
        for i, e in enumerate(self.keys):
            if e == k and (type(e) is type(k) or isinstance(e, (list, tuple, dict))):
                return self.ident(i)
        raise Unknown(repr(k))

    def raw(self, k):
        """the index of exactly this key object (an alias key is told apart from the key it aliases)"""
        for i, e in enumerate(self.keys):
            if type(e) is type(k) and e == k:
                return i
        raise Unknown(repr(k))

    def ambiguous(self, i):
        """in the plain copy: is key i python-equal to another key object the copy holds, without being that object's
        equal in type (dict vs OrderedDict)?  Whether a type-less map should find it is not defined by the statement."""
        if self.kind != 'map' or self.C is None:
            return False
        cls = lambda j: 1 if j == 3 else j
        return any(j != i and cls(j) == cls(i) for j, _ in self.C)

    def _dump(self, o, kf):
        items = tuple((kf(k), v) for k, v in o._items)
        index = tuple(sorted((bytes(k), v) for k, v in o._index.items()))
        rest = tuple(sorted((k, repr(v)) for k, v in vars(o).items() if k not in ('_items', '_index', 'cass_key_type')))
        return (items, index, rest)

    def key(self):
        models = (tuple(self.M), None if self.C is None else tuple(self.C))
        return (models, self._dump(self.m, self.kid), None if self.c is None else self._dump(self.c, self.raw))

    def _observe(self, m, M, kf, idf, probes, pre):
        try:
            ks = [kf(k) for k in m]
        except Unknown as e:
            return pre + 'state/foreign-key', 'iterates %s' % e
        if ks != [k for k, _ in M]:
            return pre + 'state/key-order', 'iterates keys %r, model %r' % (ks, [k for k, _ in M])
        if len(m) != len(M):
            return pre + 'state/len', 'len = %r, model %d' % (len(m), len(M))
        d = dict(M)
        for i in probes:
            k = self.mk(i)
            try:
                c = k in m
                g = m.get(k, 'absent')
            except Exception as e:
                return pre + 'state/lookup', 'lookup of %r raised %r' % (k, e)
            want = d.get(idf(i), 'absent')
            if c != (idf(i) in d) or g != want:
                return pre + 'state/lookup', '(%r in m, m.get) = (%r, %r), model (%r, %r) (iterates keys %r)' % (
                    k, c, g, idf(i) in d, want, ks)
        try:
            its = [(kf(k), v) for k, v in m.items()]
            vs = list(m.values())
        except Exception as e:
            return pre + 'state/items', 'items()/values() raised %r (iterates keys %r)' % (e, ks)
        if its != M or vs != [v for _, v in M]:
            return pre + 'state/items', 'items() = %r, model %r' % (its, M)
        return None

    def observe(self):
        r = self._observe(self.m, self.M, self.kid, self.ident, range(len(self.keys)), '')
        if r:
            return (r[0], 'source: ' + r[1]) if self.c is not None else r
        if self.c is None:
            return None
        r = self._observe(self.c, self.C, self.raw, lambda i: i, [i for i in range(len(self.keys)) if not self.ambiguous(i)], 'copy-')
        return r and (r[0], 'copy: ' + r[1])

    def clone(self, pairs):
        """a second map of the same class with the given (key index, value) pairs"""
        if self.cls_name == 'OrderedMap':
            return self.cu.OrderedMap([(self.mk(i), v) for i, v in pairs])
        o = self.cu.OrderedMapSerializedKey(cass_type(self.kind), self.proto)
        for i, v in pairs:
            o[self.mk(i)] = v
        return o


def om_ops(w):
    n = len(w.keys)
    mut = [('set', (i, v)) for i in range(n) for v in VALUES] + [('del', i) for i in range(n)] + [('popitem', None)]
    # a plain OrderedMap constructed from the map (replacing an earlier copy), from that copy again, and the copy's own mutators
    mut += [('copy', None), ('recopy', None)] + [('c.set', (i, v)) for i in range(n) for v in CVALUES] + \
           [('c.del', i) for i in range(n)] + [('c.popitem', None)]
    qry = [('get', i) for i in range(n)] + [('contains', i) for i in range(n)] + [('len', None), ('iter', None), ('keys', None),
           ('eq-clone', None), ('eq-clone-changed-value', None), ('eq-clone-shorter', None), ('eq-dict', None),
           ('eq-dict-changed', None), ('ne-clone', None), ('construct-pairs', None), ('construct-dups', None),
           ('construct-dict', None), ('construct-map', None), ('construct-kwargs', None), ('construct-two-args', None)]
    qry += [('c.get', i) for i in range(n)] + [('c.contains', i) for i in range(n)] + [('c.len', None), ('c.iter', None), ('c.keys', None),
            ('eq-copy', None), ('construct-map-kwargs', None)]
    return mut, qry


def om_apply(w, op):
    name, arg = op

    def guard(f):
        try:
            return f()
        except Unknown:
            raise
        except Exception as e:
            return ('exc', type(e).__name__)

    if name in ('copy', 'recopy'):
        if name == 'recopy' and w.c is None:
            return ('skip',), ('skip',)
        if name == 'copy':
            # the copy holds the key objects the source iterates (which of two aliases that is, is the source's business)
            raw = []
            for k in w.m:
                try:
                    raw.append(w.raw(k))
                except Unknown:
                    break
            if [w.ident(r) for r in raw] == [k for k, _ in w.M]:
                newC = [(r, v) for r, (_, v) in zip(raw, w.M)]
            else:
                newC = list(w.M)          # the source has already left its model (reported by its own observation)
            src = w.m
        else:
            newC, src = list(w.C), w.c

        def f():
            w.c = w.cu.OrderedMap(src)
            return ('val', type(w.c).__name__)
        got = guard(f)
        w.C = newC
        if got[0] == 'exc':
            w.c, w.C = None, None
        return got, ('val', 'OrderedMap')

    if name.startswith('c.'):
        if w.c is None:
            return ('skip',), ('skip',)
        name = name[2:]
        ki = arg[0] if name == 'set' else arg
        if ki is not None and w.ambiguous(ki):
            return ('skip',), ('skip',)
        m, M, ident, kid = w.c, w.C, (lambda i: i), w.raw
    else:
        m, M, ident, kid = w.m, w.M, w.ident, w.kid
    d = dict(M)

    def pairs_of(o):
        return ('pairs', tuple((w.kid(k), v) for k, v in o.items()))

    if name == 'set':
        i, v = arg
        got = guard(lambda: ('none',) if m.__setitem__(w.mk(i), v) is None else ('val', 'not None'))
        kid_ = ident(i)
        for j, (k, _) in enumerate(M):
            if k == kid_:
                M[j] = (kid_, v)        # an existing key keeps its position
                break
        else:
            M.append((kid_, v))
        return got, ('none',)
    if name == 'del':
        got = guard(lambda: ('none',) if m.__delitem__(w.mk(arg)) is None else ('val', 'not None'))
        kid_ = ident(arg)
        if kid_ in d:
            M[:] = [(k, v) for k, v in M if k != kid_]
            return got, ('none',)
        return got, ('exc', 'KeyError')
    if name == 'popitem':
        def f():
            k, v = m.popitem()
            return ('pair', kid(k), v)
        got = guard(f)
        if not M:
            return got, ('exc', 'KeyError')
        k, v = M.pop()
        return got, ('pair', k, v)
    if name == 'get':
        kid_ = ident(arg)
        return guard(lambda: ('val', m[w.mk(arg)])), (('val', d[kid_]) if kid_ in d else ('exc', 'KeyError'))
    if name == 'contains':
        return guard(lambda: ('val', w.mk(arg) in m)), ('val', ident(arg) in d)
    if name == 'len':
        return guard(lambda: ('val', len(m))), ('val', len(M))
    if name == 'iter':
        return guard(lambda: ('keys', tuple(kid(k) for k in m))), ('keys', tuple(k for k, _ in M))
    if name == 'keys':
        return guard(lambda: ('keys', tuple(kid(k) for k in m.keys()))), ('keys', tuple(k for k, _ in M))
    if name == 'eq-copy':
        # source and copy as two mappings: compared when neither holds an alias key object (else "the same pairs" depends
        # on which identity is meant)
        if w.c is None:
            return ('skip',), ('skip',)
        try:
            raws = [w.raw(k) for k in m]
        except Unknown:
            return ('skip',), ('skip',)
        if any(r >= 3 for r in raws) or any(r >= 3 for r, _ in w.C) or [w.ident(r) for r in raws] != [k for k, _ in M]:
            return ('skip',), ('skip',)
        same = list(M) == list(w.C)
        return guard(lambda: ('val', (m == w.c, w.c == m, m != w.c))), ('val', (same, same, not same))
    if name == 'construct-map-kwargs':
        # OrderedMap(map, **kwargs): the map's entries, then the keyword entries (text keys only)
        if w.kind != 'text':
            return ('skip',), ('skip',)
        want = [(k, v) for k, v in M if k != 1] + [(1, 77)] if 1 not in d else [(k, (77 if k == 1 else v)) for k, v in M]
        return guard(lambda: pairs_of(w.cu.OrderedMap(m, **{w.mk(1): 77}))), ('pairs', tuple(want))
    if name == 'eq-clone':
        return guard(lambda: ('val', (m == w.clone(M), m != w.clone(M)))), ('val', (True, False))
    if name == 'ne-clone':
        other = [(k, v) for k, v in M] + [(2, 99)] if 2 not in d else [(k, v) for k, v in M if k != 2]
        return guard(lambda: ('val', (m == w.clone(other), m != w.clone(other)))), ('val', (False, True))
    if name == 'eq-clone-changed-value':
        if not M:
            return ('skip',), ('skip',)
        other = M[:-1] + [(M[-1][0], 99)]
        return guard(lambda: ('val', m == w.clone(other))), ('val', False)
    if name == 'eq-clone-shorter':
        if not M:
            return ('skip',), ('skip',)
        return guard(lambda: ('val', m == w.clone(M[:-1]))), ('val', False)
    if name in ('eq-dict', 'eq-dict-changed'):
        if w.kind not in ('int', 'text', 'tuple'):
            return ('skip',), ('skip',)
        dd = dict((w.mk(k), v) for k, v in M)
        if name == 'eq-dict-changed':
            if not M:
                return ('skip',), ('skip',)
            dd[w.mk(M[0][0])] = 99
            return guard(lambda: ('val', m == dd)), ('val', False)
        return guard(lambda: ('val', m == dd)), ('val', True)
    # construction (the plain class only; the serialized-key class is filled by assignment)
    if w.cls_name != 'OrderedMap':
        return ('skip',), ('skip',)
    OM = w.cu.OrderedMap
    if name == 'construct-pairs':
        return guard(lambda: pairs_of(OM([(w.mk(k), v) for k, v in M]))), ('pairs', tuple(M))
    if name == 'construct-dups':
        if not M:
            return ('skip',), ('skip',)
        src = [(w.mk(k), v) for k, v in M] + [(w.mk(M[0][0]), 77)]
        want = [(M[0][0], 77)] + M[1:]
        return guard(lambda: pairs_of(OM(iter(src)))), ('pairs', tuple(want))
    if name == 'construct-dict':
        if w.kind not in ('int', 'text', 'tuple'):
            return ('skip',), ('skip',)
        return guard(lambda: pairs_of(OM(dict((w.mk(k), v) for k, v in M)))), ('pairs', tuple(M))
    if name == 'construct-map':
        return guard(lambda: pairs_of(OM(w.clone(M)))), ('pairs', tuple(M))
    if name == 'construct-kwargs':
        if w.kind != 'text':
            return ('skip',), ('skip',)
        return guard(lambda: pairs_of(OM(**dict((w.mk(k), v) for k, v in M)))), ('pairs', tuple(M))
    if name == 'construct-two-args':
        return guard(lambda: pairs_of(OM([], []))), ('exc', 'TypeError')
    raise HarnessError('unknown op %r' % (op,))


# =========================================================================================== search
def build(spec, path):
    if spec[0] == 'sortedset':
        w = SSWorld(spec[1])
        ap = ss_apply
    else:
        w = OMWorld(spec[1], spec[2], spec[3])
        ap = om_apply
    for op in path:
        ap(w, op)
    return w, ap


def fingerprint(spec, op, clause):
    if spec[0] == 'sortedset':
        order = ss_domains()[spec[1]][1]
        if order == 'partial-order':
            return 'C33/sortedset/partially-ordered-elements/%s' % clause.split('/')[0]
        if order == 'eq-only':
            return 'C33/sortedset/unorderable-elements/%s' % clause.split('/')[0]
        return 'C33/sortedset/%s/%s' % (op_label(op), clause)
    return 'C33/%s/%s/%s' % (spec[1].lower(), op[0], clause)


def op_label(op):
    if op[0].startswith('nary:'):
        n = len(op[1][1])
        return '%s/args=%s' % (op[0][5:], n if n < 2 else '2+')
    return op[0]


def judge(part, spec, path, op, w, ap):
    """apply op to the world w (which is in the state of `path`), compare.  -> (world or None when the op does not apply, clean)"""
    try:
        got, want = ap(w, op)
    except Unknown as e:
        part.violation(fingerprint(spec, op, 'result/foreign-element'),
                       '%s after %r: %r produced an element/key that was never inserted: %s' % (spec_name(spec), list(path), op, e),
                       {'spec': list(spec), 'path': [list(p) for p in path], 'op': list(op)})
        return None, False
    if got == ('skip',):
        return None, True
    clean = True
    part.count('transitions')
    part.count('executions')
    case = {'spec': list(spec), 'path': [list(p) for p in path], 'op': list(op)}
    if got != want:
        clean = False
        clause = 'exception' if 'exc' in (got[0], want[0]) else 'result'
        part.violation(fingerprint(spec, op, clause), '%s after %r: %r gave %r, model %r' % (spec_name(spec), list(path), op, got, want), case)
    obs = w.observe()
    if obs:
        clean = False
        fop = op
        if spec[0] == 'omap' and path:
            pre = build(spec, path)[0].observe()
            if pre and pre[0] == obs[0]:
                fop = ('in-already-diverged-state',)     # reported where it arose (a shorter path); one line for what follows
        part.violation(fingerprint(spec, fop, obs[0]), '%s after %r then %r: %s' % (spec_name(spec), list(path), op, obs[1]), case)
    part.outcome((spec[0], op[0], got[0]))
    return w, clean


def step(part, spec, path, op):
    """rebuild the state of `path`, apply op, compare.  Returns the world (or None when the op does not apply)."""
    w, ap = build(spec, path)
    return judge(part, spec, path, op, w, ap)[0]


def step_queries(part, spec, path, ops, counter):
    """the same for a list of queries, on one world: it is rebuilt only after a query that did not come out clean (a clean query
    leaves model and object as they were: the whole observable state has just been compared)"""
    w = None
    for op in ops:
        if w is None:
            w, ap = build(spec, path)
        part.count(counter)
        if not judge(part, spec, path, op, w, ap)[1]:
            w = None


def spec_name(spec):
    return '/'.join(str(x) for x in spec[:-1])


def explore(spec):
    part = Part()
    depth = spec[-1]
    w0, _ = build(spec, ())
    a_only, with_b, seen_a = [], [], set()
    if spec[0] == 'sortedset':
        mut, qry = SS_MUT, SS_QUERY
        a_only, with_b = ss_arg_ops(w0)
    else:
        mut, qry = om_ops(w0)

    def arg_family(path):
        if not with_b:
            return
        w = build(spec, path)[0]
        if w.order == 'partial-order' and w.observe():
            # a state in which the object has already left its model (the known misplacement of set-valued elements):
            # every further call differs for that reason; the family is applied to the states that still agree
            part.count('argument_family_skipped_in_diverged_states')
            return
        step_queries(part, spec, path, with_b, 'argument_tuples_with_b')
        ak = w.akey()
        if ak not in seen_a:            # these read a (and fresh operands) only: once per distinct state of a
            seen_a.add(ak)
            part.count('states_of_a')
            step_queries(part, spec, path, a_only, 'argument_tuples_a_only')
    obs = w0.observe()
    if obs:
        part.violation(fingerprint(spec, ('init',), obs[0]), 'fresh object: %s' % obs[1], {'spec': list(spec), 'path': [], 'op': ['len', None]})
    seen = {w0.key()}
    part.count('states')
    frontier = [()]
    level = 0
    while frontier and level < depth:
        nxt = []
        for path in frontier:
            for op in qry:
                step(part, spec, path, op)
            arg_family(path)
            for op in mut:
                w = step(part, spec, path, op)
                if w is None:
                    continue
                try:
                    k = w.key()
                except Unknown:
                    continue             # already reported by observe()
                if k not in seen:
                    seen.add(k)
                    nxt.append(path + (op,))
                    part.count('states')
                    if len(path) + 1 >= 2:
                        part.mark_nontrivial(repr((spec[:-1], k[:2])))
        frontier = nxt
        level += 1
    # the last level's states still get every query (not their successors)
    for path in frontier:
        for op in qry:
            step(part, spec, path, op)
        arg_family(path)
    part.counters['fixpoint_reached:%s' % spec_name(spec)] = 0 if frontier else 1
    part.sample({'spec': list(spec), 'states': part.counters.get('states'), 'transitions': part.counters.get('transitions'),
                 'frontier_left_at_depth_bound': len(frontier)}, limit=1)
    return part


def specs(ctx):
    depth = 4 if ctx.quick else 6
    out = [('sortedset', d, depth) for d in ('int', 'tuple', 'list', 'dict', 'frozenset', 'nested-sortedset')]
    for kind in ('int', 'text', 'tuple', 'list', 'map'):
        out.append(('omap', 'OrderedMap', kind, 0, depth))
    for proto in ((4,) if ctx.quick else (3, 4, 5)):
        for kind in ('int', 'text', 'list', 'map'):
            out.append(('omap', 'OrderedMapSerializedKey', kind, proto, depth))
    return out


def selftest():
    assert enc_key('int', -1) == b'\xff\xff\xff\xff' and enc_key('text', 'é') == b'\xc3\xa9'
    assert enc_key('list', [0, 1]) == bytes.fromhex('00000002' '00000004' '00000000' '00000004' '00000001')
    assert enc_key('map', {1: 0}) == bytes.fromhex('00000001' '00000004' '00000001' '00000004' '00000000')
    assert enc_key('list', (0, 1)) == enc_key('list', [0, 1])
    return True


def run(ctx):
    selftest()
    sp = ctx.rotate(specs(ctx))
    fix = 0
    for part in ctx.pmap(explore, sp):
        fix += sum(v for k, v in part.counters.items() if k.startswith('fixpoint_reached:'))
        for k in [k for k in part.counters if k.startswith('fixpoint_reached:')]:
            del part.counters[k]
        ctx.merge(part)
    ctx.cov['harnesses'] = len(sp)
    ctx.cov['harnesses_at_fixpoint_within_depth'] = fix
    ctx.cov['rule'] = ('%d harnesses (6 SortedSet element domains, OrderedMap x 5 key kinds, OrderedMapSerializedKey x 4 key kinds x protocols); '
                       'breadth-first to depth %d over mutators (maps: of the map, copy construction, and mutators of the copy), every query in '
                       'every state; state = (model(s), full internal state of every object incl. the copy); '
                       'SortedSet: plus every argument tuple (0..3 arguments, each a subset of the domain in every container shape, or '
                       'a / b) of union/intersection/difference in every state (counters argument_tuples_*: those reading b in every state, '
                       'the others once per distinct (model, internal state) of a = states_of_a); in the two partially ordered '
                       'domains the argument family is left out in states where a or b has already diverged from its model '
                       '(known finding; counter argument_family_skipped_in_diverged_states); '
                       'non-trivial = state first reached by a path of >= 2 mutators' % (len(sp), sp[0][-1]))
    ctx.cov['exhaustive'] = True
    ctx.assume('a set may hand out any member on pop(); index access is only compared on totally ordered domains')
    ctx.assume('"ascending iteration" is only defined for totally ordered element types (int, tuple, list); dict elements (==-only) '
               'and set elements (subset order) are held to set semantics only')
    ctx.assume('OrderedMapSerializedKey keys are identified by the protocol-v3+ encoding of the key as the driver would send it '
               '(map keys in their own iteration order); the plain OrderedMap has no CQL type, its keys are identified by python '
               'equality and only key values whose pickles are canonical are generated (no containers of equal-but-distinct strings)')
    ctx.assume('a plain OrderedMap copied from an OrderedMapSerializedKey holds the key objects the source iterates; in the copy '
               '(no CQL type) a list key and its tuple alias are two keys; a dict key and its OrderedDict alias are python-equal '
               'but of different type: operations on the copy with one of them while the copy holds the other are not generated, '
               'and source == copy is compared only while neither holds an alias key object')
    ctx.assume('OrderedMapSerializedKey cannot be constructed from another map (its constructor takes the key type and protocol '
               'version only), so the only copy direction is map -> plain OrderedMap; copy.copy/deepcopy/pickle are not part of '
               'the statement and not generated')
    ctx.assume('OrderedMap == OrderedMap with the same pairs in another order is not defined by the statement and not compared')
    ctx.assume('mixed non-comparable elements (int with None) are outside the statement and not generated')
    ctx.assume('operands of the set methods are sets or sequences without repeated elements (SortedSet, set, frozenset, list, tuple); '
               'one-shot iterators are only handed to update() and the constructor; symmetric_difference / ^ only get set-like operands')
    ctx.assume('unorderable elements (dicts/maps, ==-only) are outside the statement ("elements of any single comparable type"): '
               'for that domain ==/!= between two SortedSets (which depends on insertion order) is not compared; membership, '
               'add/remove/pop, the set operations and subset comparisons still are')


def replay(ctx, d):
    part = Part()
    spec = tuple(d['spec'])
    tup = lambda x: tuple(tup(y) for y in x) if isinstance(x, (list, tuple)) else x
    path = tup(d['path'])
    op = tup(d['op'])
    step(part, spec, path, op)
    for fp, what, _ in part.violations:
        print(fp, '::', what)
    return bool(part.violations)
