"""C07 Compiled extensions behave exactly like the pure-Python driver (differential).

Engine N.  The working tree's `cassandra/` package is copied to a scratch directory under /tmp, the
Cython row parser / deserializers (`*.pyx`) and `cmurmur3.c` are built there (thorough: also the
cythonized `protocol.py`, `cqltypes.py`, `util.py`, `query.py`, `metadata.py` that binary wheels ship),
and the same generated inputs are decoded in two subprocesses: *pure* (sys.path -> the real tree,
asserting that nothing compiled is loaded) and *compiled* (sys.path -> the scratch copy, asserting that
the extension modules really are the ones in use).  Canonical, type-tagged dumps are compared case by
case.  The scratch tree is always removed.

 (a) RESULT rows bodies: the C04 row generator (column sets x row sets x metadata flags x all protocol
     versions) and one-column bodies for every (type tree, value) of the C01 generator plus a null and
     an empty cell, cells encoded by the reference codec; pure `ProtocolHandler` vs the compiled
     `ProtocolHandler` (ListParser), `LazyProtocolHandler` (LazyParser) and `_ProtocolHandler`.
 (b) `cmurmur3.murmur3(key)` vs `cassandra.murmur3._murmur3(key)` over the C08 key families (quick: lengths 0-36 on
     two fillers; thorough: the whole thorough C08 space).
 (c) thorough: `T.from_binary(reference bytes)` and `T.to_binary(value)` for the C01 space at all eight
     protocol versions through the cythonized cqltypes/util vs the pure modules.
 (d) the C39 column-encryption scenarios decoded by the compiled row parsers (C39's own oracle).
"""
import json
import os
import shutil
import struct
import subprocess
import sys
import sysconfig
import tempfile
import time
from concurrent.futures import ThreadPoolExecutor

from vt import core
from vt.core import Part, HarnessError

META = {
    'level': 'exploration',
    'engine': 'N',
    'technique': 'differential execution of one bounded-exhaustive input enumeration in a pure and an out-of-tree compiled build, comparing type-tagged canonical dumps',
    'text': 'The tree\'s cassandra/ package is copied to /tmp and built with Cython 3 (quick: bytesio, cython_utils, deserializers, parsing, '
            'obj_parser, row_parser, cmurmur3; thorough: additionally protocol, cqltypes, util, query, metadata as setup.py cythonizes them). '
            'Two subprocesses (pure from the tree, compiled from the copy; each asserts which modules it really runs) decode the same RESULT rows '
            'bodies - the C04 row generator over all protocol versions and one-column bodies for every type tree x value of the C01 generator '
            '(cells from the reference codec, plus null and empty cells) - through ProtocolHandler / LazyProtocolHandler / _ProtocolHandler; '
            'decoded objects are dumped with type tags (1, 1.0, True differ; exceptions by class) and compared. cmurmur3.murmur3 is compared '
            'with the pure _murmur3 on the C08 key families (quick: all strings of length 0-3 over 8 boundary bytes, lengths 4-36 every position x '
            'every byte on fillers 00/ff; thorough: the whole thorough C08 space); thorough compares to_binary/from_binary of the cythonized cqltypes/util '
            'with the pure modules over the C01 space at 8 protocol versions; the C39 encryption scenarios are decoded by the compiled parsers.',
    'note': 'Built with -O0 (cmurmur3 -O2: its inline helpers need an optimising build, as setup.py produces); numpy is not installed, so '
            'NumpyProtocolHandler does not exist in either build; cluster/pool/connection/concurrent are not cythonized here (no value decoding '
            'in them). NaN payload bits are not compared.',
    'design_ref': 'C07',
}

PYX_MODULES = ['bytesio', 'cython_utils', 'deserializers', 'parsing', 'obj_parser', 'row_parser']
PY_MODULES = ['protocol', 'cqltypes', 'util', 'query', 'metadata']       # subset of setup.py's cython_candidates that touches values
ROOT = core.ROOT


# ------------------------------------------------------------------------------------------------
# build
def _build_one(args):
    scratch, m, inc, suffix = args
    t0 = time.time()
    if m == 'cmurmur3':
        csrc, opt = 'cassandra/cmurmur3.c', '-O2'
    else:
        src = 'cassandra/%s.pyx' % m if m in PYX_MODULES else 'cassandra/%s.py' % m
        csrc, opt = 'cassandra/%s.c' % m, '-O0'
        r = subprocess.run([sys.executable, '-m', 'cython', '-3', '--fast-fail', src, '-o', csrc], cwd=scratch,
                           stdout=subprocess.PIPE, stderr=subprocess.STDOUT, text=True)
        if r.returncode:
            return m, 'cython failed:\n' + r.stdout[-3000:], time.time() - t0
    r = subprocess.run(['gcc', opt, '-g0', '-fPIC', '-shared', '-w', '-fno-strict-aliasing', '-fno-strict-overflow', '-I', inc, csrc,
                        '-o', 'cassandra/%s%s' % (m, suffix)], cwd=scratch, stdout=subprocess.PIPE, stderr=subprocess.STDOUT, text=True)
    if r.returncode:
        return m, 'gcc failed:\n' + r.stdout[-3000:], time.time() - t0
    if csrc != 'cassandra/cmurmur3.c':
        os.unlink(os.path.join(scratch, csrc))        # generated C is large; disk is limited
    return m, None, time.time() - t0


def build(repo, thorough):
    """Copy repo/cassandra to a fresh scratch dir and build the extensions in the copy -> (scratch, modules, seconds)."""
    scratch = tempfile.mkdtemp(prefix='verif_c07_', dir='/tmp')
    try:
        if os.path.commonpath([scratch, repo]) == repo or os.path.commonpath([scratch, ROOT]) == ROOT:
            raise HarnessError('scratch dir must not live under the tree or /verif')
        shutil.copytree(os.path.join(repo, 'cassandra'), os.path.join(scratch, 'cassandra'),
                        ignore=shutil.ignore_patterns('__pycache__', '*.pyc', '*.so', '*.o'))
        mods = ['cmurmur3'] + PYX_MODULES + (PY_MODULES if thorough else [])
        inc = sysconfig.get_paths()['include']
        suffix = sysconfig.get_config_var('EXT_SUFFIX')
        t0 = time.time()
        # heaviest first
        order = sorted(mods, key=lambda m: -os.path.getsize(os.path.join(scratch, 'cassandra', m + ('.pyx' if m in PYX_MODULES else '.c' if m == 'cmurmur3' else '.py'))))
        with ThreadPoolExecutor(16) as ex:
            res = list(ex.map(_build_one, [(scratch, m, inc, suffix) for m in order]))
        bad = [(m, err) for m, err, _ in res if err]
        if bad:
            raise HarnessError('extension build failed: %s' % bad)
        build.per_module = dict((m, round(secs, 1)) for m, _, secs in res)
        return scratch, mods, time.time() - t0
    except BaseException:
        shutil.rmtree(scratch, ignore_errors=True)
        raise


# ------------------------------------------------------------------------------------------------
# canonical dumps (executed inside the workers)
def canon(x):
    t = type(x)
    if x is None:
        return ['N']
    if t is bool:
        return ['b', x]
    if t is int:
        return ['i', str(x)]
    if t is float:
        return ['f', 'nan' if x != x else struct.pack('>d', x).hex()]
    if t is str:
        return ['s', x]
    if t is bytes:
        return ['y', x.hex()]
    if t in (bytearray, memoryview):
        return [t.__name__, bytes(x).hex()]
    mod, name = getattr(t, '__module__', ''), t.__name__
    if mod == 'decimal':
        return ['D', repr(tuple(x.as_tuple()))]
    if mod == 'uuid':
        return ['U', x.hex]
    if mod == 'datetime':
        if name == 'datetime':
            return ['dt', x.isoformat(), repr(x.tzinfo)]
        return [name, x.isoformat() if hasattr(x, 'isoformat') else repr(x)]
    if mod == 'cassandra.util':
        if name == 'Date':
            return ['Date', x.days_from_epoch]
        if name == 'Time':
            return ['Time', str(x.nanosecond_time)]
        if name == 'Duration':
            return ['Duration', canon(x.months), canon(x.days), canon(x.nanoseconds)]
        if name in ('OrderedMap', 'OrderedMapSerializedKey'):
            return ['M:' + name, [[canon(k), canon(v)] for k, v in x._items]]      # items() would re-serialize every key
        if name == 'SortedSet':
            return ['S:' + name, [canon(e) for e in x]]
        return ['util.' + name, repr(x)]
    if t is list:
        return ['L', [canon(e) for e in x]]
    if isinstance(x, tuple):
        if hasattr(x, '_fields'):
            return ['NT:' + name, list(x._fields), [canon(e) for e in x]]
        if t is tuple:
            return ['T', [canon(e) for e in x]]
    if t is dict:
        return ['dict', [[canon(k), canon(v)] for k, v in x.items()]]
    if t in (set, frozenset):
        return [name, sorted(json.dumps(canon(e)) for e in x)]
    return ['?' + mod + '.' + name, repr(x)]


def exc_dump(e):
    return ['EXC', type(e).__name__]


def first_diff(a, b):
    """First differing node pair of two canonical dumps -> (node_a, node_b) or None.
    A node is a list starting with its tag (a str); other lists are plain sequences of nodes."""
    if a == b:
        return None
    if not (isinstance(a, list) and isinstance(b, list)):
        return (['leaf', a], ['leaf', b])
    ta = bool(a) and isinstance(a[0], str)
    tb = bool(b) and isinstance(b[0], str)
    if ta != tb:
        return (a if ta else ['seq'], b if tb else ['seq'])
    if ta:
        if a[0] != b[0] or len(a) != len(b):
            return (a, b)
        for x, y in zip(a[1:], b[1:]):
            if x != y:
                if isinstance(x, list) and isinstance(y, list):
                    return first_diff(x, y) or (a, b)
                return (a, b)
        return (a, b)
    if len(a) != len(b):
        return (['len', len(a)], ['len', len(b)])
    for x, y in zip(a, b):
        d = first_diff(x, y)
        if d:
            return d
    return None


# ------------------------------------------------------------------------------------------------
# case enumeration (identical in both workers)
def frames_type(t):
    """vt.spec.values type tree -> vt.spec.frames notation."""
    from vt.spec import values as V
    k = t[0]
    if k in V.SCALARS:
        return 'varchar' if k == 'text' else k
    if k in V.WRAPPERS:
        return frames_type(t[1])
    if k in ('list', 'set'):
        return (k, frames_type(t[1]))
    if k == 'map':
        return ('map', frames_type(t[1]), frames_type(t[2]))
    if k == 'tuple':
        return ('tuple', [frames_type(s) for s in t[1:]])
    if k == 'udt':
        return ('udt', t[1], t[2], [(fn, frames_type(ft)) for fn, ft in t[3]])
    if k == 'vector':
        return ('custom', V.marshal_class(t))
    raise HarnessError(t)


EXTRA_TIMESTAMPS = [253402300800000, -62135596800001, 2 ** 63 - 1, -2 ** 63, 2 ** 53 + 1, -2 ** 53 - 1]     # outside datetime's range


def c01_types(thorough):
    from checks import c01
    # both tiers use C01's quick tree space; thorough takes the thorough value sets (the full thorough tree space is C01's own budget)
    levels = c01.type_space(True)
    return [t for lvl in levels for t in lvl]


def c01_cases(thorough, pvs):
    """yield (key, pv, frames_cols, encoded_rows, type_tree)"""
    from vt.spec import values as V
    from vt.spec import valuegen as G
    from vt.spec import frames as F
    for ti, t in enumerate(c01_types(thorough)):
        ft = frames_type(t)
        vals = list(G.values(t, thorough))
        for pv in pvs:
            try:
                F.enc_type(ft, pv)
            except F.SpecError:
                continue
            if t[0] == 'duration' and F.is_dse(pv):
                continue
            cols = [('ks', 'tbl', 'c', ft)]
            cells = []
            for vi, v in enumerate(vals):
                try:
                    cells.append(('v%d' % vi, V.encode(t, v, pv)))
                except V.RefUnknown:
                    continue
            cells.append(('null', None))
            if t[0] in V.SCALARS:
                cells.append(('empty', b''))
                if t[0] == 'timestamp':
                    for j, ms in enumerate(EXTRA_TIMESTAMPS):
                        cells.append(('beyond%d' % j, struct.pack('>q', ms)))
            for label, b in cells:
                yield ('c01|%d|%d|%s' % (ti, pv, label), pv, cols, [[b]], t)
            yield ('c01|%d|%d|all' % (ti, pv), pv, cols, [[b] for lab, b in cells if not lab.startswith('beyond')], t)


def c04_cases(thorough):
    """yield (key, version, desc, deco)"""
    from checks import c04
    from vt.spec import frames as F
    for v in F.VERSIONS:
        decos = c04.decorations(v, False) if thorough else [dict(c04.BARE)]
        for i, desc in enumerate(c04.gen_rows(v, 'thorough' if thorough else 'quick')):
            for di, deco in enumerate(decos):
                yield ('c04|%d|%d|%d' % (v, i, di), v, desc, deco)


def murmur_units(thorough):
    from checks import c08
    # quick: every tail size 0-15 at least twice with 0-2 body blocks, on two fillers (the full C08 space is the thorough tier)
    max_len = 96 if thorough else 36
    units = [('short',)]
    for length in range(4, max_len + 1):
        for f in (c08.FILLERS if thorough else (0x00, 0xff)):
            units.append(('single', length, f))
    if thorough:
        for length in range(2, 34):
            for f in c08.FILLERS:
                units.append(('pair', length, f))
    return units


# ------------------------------------------------------------------------------------------------
# worker side
def assert_identity(mode, tree, thorough):
    import cassandra
    import cassandra.protocol as cp
    import cassandra.cqltypes as ct
    import cassandra.util as cu
    import cassandra.murmur3 as m3
    ident = {'cassandra': cassandra.__file__, 'protocol': cp.__file__, 'cqltypes': ct.__file__, 'util': cu.__file__,
             'HAVE_CYTHON': cp.HAVE_CYTHON, 'HAVE_NUMPY': cp.HAVE_NUMPY}
    if os.path.dirname(os.path.dirname(os.path.abspath(cassandra.__file__))) != os.path.abspath(tree):
        raise HarnessError('%s worker imported cassandra from %s, wanted %s' % (mode, cassandra.__file__, tree))
    if mode == 'pure':
        if cp.HAVE_CYTHON or cp.ProtocolHandler is not cp._ProtocolHandler or cp.LazyProtocolHandler is not None:
            raise HarnessError('pure worker has a compiled row parser: %r' % ident)
        for mod in (cp, ct, cu):
            if not mod.__file__.endswith('.py'):
                raise HarnessError('pure worker loaded a compiled %s' % mod.__file__)
        if m3.murmur3 is not m3._murmur3:
            raise HarnessError('pure worker has a compiled murmur3')
    else:
        import cassandra.row_parser, cassandra.deserializers, cassandra.obj_parser, cassandra.cmurmur3, cassandra.cython_utils, cassandra.parsing, cassandra.bytesio  # noqa
        for name in ('row_parser', 'deserializers', 'obj_parser', 'cmurmur3', 'cython_utils', 'parsing', 'bytesio'):
            f = sys.modules['cassandra.' + name].__file__
            ident[name] = f
            if not f.endswith('.so') or not os.path.abspath(f).startswith(os.path.abspath(tree)):
                raise HarnessError('compiled worker: cassandra.%s is %s' % (name, f))
        if not cp.HAVE_CYTHON or cp.ProtocolHandler is cp._ProtocolHandler or cp.LazyProtocolHandler is None:
            raise HarnessError('compiled worker does not use the Cython row parser: %r' % ident)
        rm = cp.ProtocolHandler.message_types_by_opcode[0x08]
        if rm.__name__ != 'FastResultMessage' or type(cp.ProtocolHandler.col_parser).__name__ != 'ListParser' or \
                type(cp.LazyProtocolHandler.col_parser).__name__ != 'LazyParser':
            raise HarnessError('compiled worker: unexpected handler wiring %r' % (rm,))
        if m3.murmur3 is m3._murmur3 or type(m3.murmur3).__name__ != 'builtin_function_or_method':
            raise HarnessError('compiled worker: cassandra.murmur3.murmur3 is not the C function: %r' % (m3.murmur3,))
        if type(m3._murmur3).__name__ != 'function':
            raise HarnessError('compiled worker: _murmur3 is not the python function')
        for mod in (cp, ct, cu):
            want = '.so' if thorough else '.py'
            if not mod.__file__.endswith(want):
                raise HarnessError('compiled worker (%s tier) loaded %s' % ('thorough' if thorough else 'quick', mod.__file__))
    return ident


def handlers_for(mode):
    import cassandra.protocol as cp
    if mode == 'pure':
        return [('pure', cp.ProtocolHandler)]
    return [('ListParser', cp.ProtocolHandler), ('LazyParser', cp.LazyProtocolHandler), ('_ProtocolHandler', cp._ProtocolHandler)]


def decode_dump(handler, frame, result_metadata, decompressor=None):
    from vt.spec import frames as F
    version, is_resp, flags, stream, opcode, length, hl = F.split_header(frame)
    try:
        msg = handler.decode_message(version, {}, stream, flags, opcode, frame[hl:], decompressor, result_metadata)
        rows = msg.parsed_rows
        rows = None if rows is None else [tuple(r) for r in rows]
        types = [getattr(c, 'cql_parameterized_type', lambda: repr(c))() for c in (msg.column_types or [])]
        return ['MSG', ['names', [canon(n) for n in (msg.column_names or [])]], ['types', [canon(x) for x in types]],
                ['paging', canon(msg.paging_state)], ['cont', canon(getattr(msg, 'continuous_paging_seq', None))],
                ['rows', canon(rows)]]
    except Exception as e:
        return exc_dump(e)


def work_slice(args):
    """One slice of the enumeration inside a worker process -> list of (key, {variant: dump})."""
    mode, thorough, what, i, n = args
    import logging
    logging.disable(logging.CRITICAL)
    from vt.spec import frames as F
    out = []
    hs = handlers_for(mode)
    if what == 'c01':
        pvs = (3, 4, 5, 66) if thorough else (5,)
        for j, (key, pv, cols, rows, t) in enumerate(c01_cases(thorough, pvs)):
            if j % n != i:
                continue
            frame = F.build_response(pv, {'op': 'RESULT', 'kind': 'rows', 'cols': cols, 'rows': rows, 'encoded': True,
                                          'meta': {'global_spec': True}})
            out.append((key, dict((name, decode_dump(h, frame, None)) for name, h in hs)))
    elif what == 'c04':
        from checks import c04
        env = c04.Env.get()
        for j, (key, v, desc, deco) in enumerate(c04_cases(thorough)):
            if j % n != i:
                continue
            frame = F.build_response(v, {k: x for k, x in desc.items() if k not in ('colset', 'bindset', 'resultset')},
                                     stream=deco['stream'], tracing_id=deco['tracing'], warnings=deco['warnings'], payload=deco['payload'],
                                     compress=c04.compressor if deco['compress'] else None, beta=deco['beta'])
            rmeta = None
            if desc['meta'].get('no_metadata'):
                rmeta = [(c[0], c[1], c[2], env.driver_type(c[3])) for c in desc['cols']]
            out.append((key, dict((name, decode_dump(h, frame, rmeta, c04.decompressor)) for name, h in hs)))
    elif what == 'values':
        from vt.spec import values as V
        from vt.spec import valuegen as G
        from vt import valbridge as B
        for ti, t in enumerate(c01_types(thorough)):
            if ti % n != i:
                continue
            T = B.driver_type(t)
            for vi, v in enumerate(G.values(t, thorough)):
                dv = B.to_driver(t, v)
                null_elem = G.has_null_element(t, v)
                for pv in G.PROTOCOL_VERSIONS:
                    if null_elem and pv < 3:
                        continue
                    try:
                        enc = ['y', bytes(T.to_binary(dv, pv)).hex()]
                    except Exception as e:
                        enc = exc_dump(e)
                    try:
                        dec = canon(T.from_binary(V.encode(t, v, pv), pv))
                    except (V.RefUnknown, V.RefUnrepresentable):
                        dec = ['skipped']
                    except Exception as e:
                        dec = exc_dump(e)
                    out.append(('val|%d|%d|%d' % (ti, vi, pv), {'v': ['V', ['to_binary', enc], ['from_binary', dec]]}))
    elif what == 'murmur':
        from checks import c08
        import cassandra.murmur3 as m3
        import cassandra.cmurmur3 as cm
        units = murmur_units(thorough)
        nkeys = 0
        bad = []
        for ui, unit in enumerate(units):
            if ui % n != i:
                continue
            for key in c08.keys_of(unit):
                nkeys += 1
                a = m3._murmur3(key)
                try:
                    b = cm.murmur3(key)
                except Exception as e:
                    b = 'raised %s' % type(e).__name__
                if a != b or type(b) is not int:
                    if len(bad) < 20:
                        bad.append((key.hex(), c08.key_class(key), str(a), str(b)))
                    else:
                        bad.append(None)
        out.append(('murmur', {'keys': nkeys, 'bad': [x for x in bad if x], 'nbad': len(bad), 'last': [key.hex(), str(a), str(b)] if nkeys else None}))
    elif what == 'c39':
        from checks import c39
        part = c39.run_cases(c39.pvs_of(thorough), thorough, ['ProtocolHandler', 'LazyProtocolHandler'], (i, n), fp_prefix='C07/c39')
        out.append(('c39', {'counters': part.counters, 'violations': part.violations, 'nontrivial': len(part.nontrivial)}))
    return out


def worker_main(argv):
    """Entry point inside a subprocess: argv = [mode, tree, tier, out_path, nproc]."""
    mode, tree, tier, out_path, nproc = argv[0], argv[1], argv[2], argv[3], int(argv[4])
    thorough = tier == 'thorough'
    ident = assert_identity(mode, tree, thorough)
    import multiprocessing
    import gc
    tasks = []
    n = nproc * 2
    for what in ['c04', 'c01'] + (['values'] if thorough else []) + (['murmur', 'c39'] if mode == 'compiled' else []):
        k = n if what != 'c39' else min(n, 4)
        tasks += [(mode, thorough, what, i, k) for i in range(k)]
    gc.freeze()
    with multiprocessing.get_context('fork').Pool(nproc) as pool:
        results = pool.map(core._Guard(work_slice), tasks, 1)
    with open(out_path, 'w') as f:
        f.write(json.dumps({'identity': ident}) + '\n')
        for res in results:
            for key, dumps in res:
                f.write(json.dumps([key, dumps]) + '\n')


def spawn(mode, tree, tier, out_path, nproc):
    code = ('import sys; sys.path[:0] = [%r, %r]; from checks import c07; c07.worker_main(sys.argv[1:])' % (tree, ROOT))
    env = dict(os.environ)
    env['PYTHONHASHSEED'] = '0'
    env.pop('PYTHONPATH', None)
    return subprocess.Popen([sys.executable, '-X', 'faulthandler', '-c', code, mode, tree, tier, out_path, str(nproc)], env=env,
                            cwd='/tmp', stdout=subprocess.PIPE, stderr=subprocess.STDOUT, text=True)


# ------------------------------------------------------------------------------------------------
# parent side
TAG_NAMES = {'dt': 'timestamp', 'i': 'int', 'f': 'float', 's': 'text', 'y': 'blob', 'D': 'decimal', 'U': 'uuid', 'N': 'null', 'b': 'boolean',
             'L': 'list', 'T': 'tuple', 'EXC': 'exception', 'MSG': 'message'}


def classify(p, c):
    """(leaf tag, kind) for differing dumps p (pure) and c (compiled)."""
    if p[0] == 'EXC' and c[0] == 'EXC':
        return 'exception', 'class-%s-vs-%s' % (p[1], c[1])
    if p[0] == 'EXC':
        return 'exception', 'pure-raises-%s-compiled-returns' % p[1]
    if c[0] == 'EXC':
        return 'exception', 'compiled-raises-%s-pure-returns' % c[1]
    d = first_diff(p, c)
    if d is None:
        return 'none', 'equal'
    a, b = d
    ta, tb = str(a[0]), str(b[0])
    if ta != tb:
        return TAG_NAMES.get(ta, ta), 'type-%s-vs-%s' % (TAG_NAMES.get(ta, ta), TAG_NAMES.get(tb, tb))
    return TAG_NAMES.get(ta, ta), 'value'


def read_lines(path):
    with open(path) as f:
        first = json.loads(f.readline())
        rows = [json.loads(line) for line in f]
    return first['identity'], rows


def type_label(key, thorough):
    if key.startswith('c01|'):
        from vt.spec import values as V
        ti = int(key.split('|')[1])
        t = c01_types(thorough)[ti]
        return t, V.cql_name(t) if t[0] != 'reversed' else 'reversed'
    return None, None


def case_order(key):
    """Enumeration order of a case key, so that the first reported example of a fingerprint does not depend on how the
    cases were sliced over the worker processes (VERIF_NPROC)."""
    out = []
    for f in key.split('|'):
        digits = ''.join(ch for ch in f if ch.isdigit())
        out.append((f.rstrip('0123456789'), int(digits) if digits else -1))
    return out


def compare(ctx, part, pure_rows, comp_rows, thorough):
    comp = {}
    for key, d in comp_rows:
        comp[key] = d
    seen = set()
    n_samples = {'c01': 0, 'c04': 0}
    for key, d in sorted(pure_rows, key=lambda kd: case_order(kd[0])):
        seen.add(key)
        if key not in comp:
            raise HarnessError('compiled worker produced no result for case %s' % key)
        c = comp[key]
        group = key.split('|')[0]
        if group == 'val':
            part.count('evaluations')
            part.count('value_cases')
            if d['v'] != c['v']:
                ti = int(key.split('|')[1])
                t = c01_types(thorough)[ti]
                for which in (1, 2):
                    if d['v'][which] != c['v'][which]:
                        leaf, kind = classify(d['v'][which][1], c['v'][which][1])
                        part.violation('C07/values/%s/%s/%s/%s' % (d['v'][which][0], t[0], leaf, kind),
                                       '%s of type %r (case %s): pure %s, cythonized %s' % (
                                           d['v'][which][0], t, key, json.dumps(d['v'][which][1])[:300], json.dumps(c['v'][which][1])[:300]),
                                       {'key': key, 'thorough': thorough})
                part.outcome(('values', 'differ'))
            else:
                part.outcome(('values', 'same', d['v'][2][1][0]))
            continue
        p = d['pure']
        variants = sorted(c)
        differing = [v for v in variants if c[v] != p]
        part.count('evaluations')
        part.count('bodies')
        part.count('decodes_compared', len(variants))
        rows_dump = p[5][1] if p[0] == 'MSG' else None
        if p[0] == 'MSG' and rows_dump[0] == 'L' and len(rows_dump[1]) > 0:
            part.mark_nontrivial(key)
        part.outcome((group, 'same' if not differing else 'differ', p[0] if p[0] == 'EXC' else 'rows'))
        if not differing:
            if key.endswith('|all') and key.startswith('c01|') and n_samples['c01'] < 2:
                n_samples['c01'] += 1
                part.sample({'case': key, 'type': type_label(key, thorough)[1], 'decoders': ['pure'] + variants, 'agreed_dump_head': json.dumps(p)[:200]}, limit=8)
            elif group == 'c04' and n_samples['c04'] < 1 and p[0] == 'MSG' and len(rows_dump[1]) > 0:
                n_samples['c04'] += 1
                part.sample({'case': key, 'decoders': ['pure'] + variants, 'agreed_dump_head': json.dumps(p)[:200]}, limit=8)
            continue
        cy = [v for v in differing if v in ('ListParser', 'LazyParser')]
        if len(cy) == 2 and c['ListParser'] == c['LazyParser']:
            names = ['cython']
            reps = {'cython': c['ListParser']}
        else:
            names = list(cy)
            reps = dict((v, c[v]) for v in cy)
        if '_ProtocolHandler' in differing:
            names.append('_ProtocolHandler-in-compiled-build')
            reps['_ProtocolHandler-in-compiled-build'] = c['_ProtocolHandler']
        t, tname = type_label(key, thorough)
        for nm in names:
            leaf, kind = classify(p, reps[nm])
            cell = key.split('|')[3] if group == 'c01' else ''
            cls_ = ''
            if group == 'c01':
                cls_ = '/' + ('beyond-datetime-range' if cell.startswith('beyond') else cell if cell in ('null', 'empty') else 'value')
            elif group == 'c04':
                cls_ = '/c04-rows'
            part.violation('C07/rows/%s/%s/%s%s' % (nm, leaf, kind, cls_),
                           'case %s%s: pure decoder gives %s, compiled %s gives %s' % (
                               key, ' (column type %s)' % tname if tname else '', json.dumps(p)[:400], nm, json.dumps(reps[nm])[:400]),
                           {'key': key, 'thorough': thorough})
    missing = [k for k in comp if k not in seen and k.split('|')[0] in ('c01', 'c04', 'val')]
    if missing:
        raise HarnessError('pure worker produced no result for %d cases, e.g. %s' % (len(missing), missing[:3]))
    # compiled-only sections
    nk = 0
    c39_sampled = False
    for key, d in comp_rows:
        if key == 'murmur':
            if nk == 0 and d.get('last'):
                part.sample({'case': 'murmur3', 'key': d['last'][0], 'pure _murmur3': d['last'][1], 'cmurmur3': d['last'][2]}, limit=8)
            nk += d['keys']
            part.count('evaluations', d['keys'])
            part.count('murmur3_keys', d['keys'])
            part.outcome(('murmur3', 'same'), d['keys'] - d['nbad'])
            if d['nbad']:
                part.outcome(('murmur3', 'differ'), d['nbad'])
            for hexkey, cls_, a, b in d['bad']:
                part.violation('C07/cmurmur3/%s' % cls_, 'cmurmur3.murmur3(%s) = %s, pure _murmur3 = %s' % (hexkey, b, a), {'murmur_key': hexkey})
        elif key == 'c39':
            for k2, v2 in d['counters'].items():
                part.count('c39_' + k2, v2)
            part.count('evaluations', d['counters'].get('evaluations', 0))
            part.outcome(('c39', 'violations' if d['violations'] else 'ok'))
            if not c39_sampled:
                c39_sampled = True
                part.sample({'case': 'c39 scenarios through ListParser and LazyParser (first slice)', 'counters': d['counters'],
                             'violations': len(d['violations'])}, limit=8)
            for fp, what, data in d['violations']:
                part.violation(fp, 'compiled build, C39 scenario: ' + what, {'c39': data, 'thorough': thorough})
    if nk == 0:
        raise HarnessError('no murmur3 keys were compared')


def run_differential(ctx, part, thorough, keep=None):
    repo = core.REPO
    t0 = time.time()
    tier = 'thorough' if thorough else 'quick'
    half = max(2, ctx.nproc // 2)
    outdir = tempfile.mkdtemp(prefix='verif_c07_out_', dir='/tmp')
    scratch = None
    pp = pc = None
    try:
        # the pure worker does not need the build: it runs while the extensions compile
        pp = spawn('pure', repo, tier, os.path.join(outdir, 'pure.jsonl'), max(2, ctx.nproc // 4))      # leaves most cores to the compilers
        scratch, mods, secs = build(repo, thorough)
        ctx.cov['build'] = {'modules': mods, 'seconds': round(secs, 1), 'seconds_per_module': getattr(build, 'per_module', None)}
        pc = spawn('compiled', scratch, tier, os.path.join(outdir, 'compiled.jsonl'), ctx.nproc if pp.poll() is not None else half)
        out_p, _ = pp.communicate()
        out_c, _ = pc.communicate()
        if pp.returncode or pc.returncode:
            raise HarnessError('worker failed: pure rc=%s compiled rc=%s\n--- pure ---\n%s\n--- compiled ---\n%s' % (
                pp.returncode, pc.returncode, out_p[-3000:], out_c[-3000:]))
        ident_p, rows_p = read_lines(os.path.join(outdir, 'pure.jsonl'))
        ident_c, rows_c = read_lines(os.path.join(outdir, 'compiled.jsonl'))
        ctx.cov['identity'] = {'pure': ident_p, 'compiled': {k: (v.replace(scratch, '<scratch>') if isinstance(v, str) else v) for k, v in ident_c.items()}}
        compare(ctx, part, rows_p, rows_c, thorough)
        ctx.cov['seconds'] = {'build': round(secs, 1), 'total': round(time.time() - t0, 1)}
    finally:
        for p in (pp, pc):
            if p is not None and p.poll() is None:
                p.kill()
                p.communicate()
        if scratch:
            shutil.rmtree(scratch, ignore_errors=True)
        shutil.rmtree(outdir, ignore_errors=True)


def selftest():
    import datetime
    a = canon([1, 1.0, True, (1,), datetime.datetime(2000, 1, 1, 0, 0, 0, 1)])
    b = canon([1, 1.0, True, (1,), datetime.datetime(2000, 1, 1, 0, 0, 0, 2)])
    if canon(1) == canon(1.0) or canon(1) == canon(True) or canon((1,)) == canon([1]) or first_diff(a, b) is None or first_diff(a, a) is not None:
        raise HarnessError('canonical dump self-test failed')
    if classify(a, b) != ('timestamp', 'value') or classify(canon(1), canon(1.0))[1] != 'type-int-vs-float':
        raise HarnessError('classify self-test failed: %r' % (classify(a, b),))
    if canon(float('nan')) != canon(-float('nan')) or canon(0.0) == canon(-0.0):
        raise HarnessError('float dump self-test failed')


def run(ctx):
    selftest()
    from vt.spec import values as V
    from vt.spec import frames as F
    from vt.spec import partitioners as P
    V.selftest()
    P.selftest()
    if not F.selftest():
        raise HarnessError('vt.spec.frames self-test failed')
    part = Part()
    run_differential(ctx, part, ctx.thorough)
    ctx.merge(part)
    ctx.cov['rule'] = ('cases = C04 row bodies (every protocol version x column sets x row sets x metadata flag combinations%s) + for every C01 type tree '
                       '(%s) x protocol version %s: one one-column body per generated value, a null cell, an empty cell (scalars), timestamps outside '
                       'datetime\'s range, and one body with all cells as rows; each decoded by the pure ProtocolHandler and by the compiled build\'s '
                       'ProtocolHandler(ListParser), LazyProtocolHandler(LazyParser) and _ProtocolHandler; + the C08 key families (quick: lengths 0-36, fillers 00/ff; thorough: full) through cmurmur3 and _murmur3; '
                       '+ the C39 scenarios through both compiled parsers%s; non-trivial = body with at least one row that the pure decoder accepts' % (
                           ' x frame decorations' if ctx.thorough else '', 'thorough value sets' if ctx.thorough else 'quick space', '3,4,5,DSE_V2' if ctx.thorough else '5',
                           '; + to_binary/from_binary of every C01 (type, value, version) through cythonized cqltypes/util' if ctx.thorough else ''))
    ctx.cov['exhaustive'] = True
    ctx.assume('the scratch build (cython -3, gcc -O0 -fno-strict-overflow as in the CFLAGS of this interpreter; cmurmur3 -O2) is representative of the extensions setup.py builds; numpy is absent, NumpyProtocolHandler is not built')
    ctx.assume('exceptions are compared by class only; NaN payload bits are not compared')
    ctx.assume('cluster.py, pool.py, connection.py, concurrent.py are not cythonized (they decode no values); thorough cythonizes protocol, cqltypes, util, query, metadata')
    ctx.assume('reversed<> is not a CQL column type and is left out; vectors of element types whose fixed length the reference does not decide are left out')


def replay(ctx, data):
    """Re-run the differential for the recorded tier and report whether the recorded case still differs."""
    thorough = bool(data.get('thorough'))

    class EveryCase(Part):
        def violation(self, fingerprint, what, d=None):            # no one-per-fingerprint folding: the recorded case must be found itself
            self.violations.append((fingerprint, what, core.jsonable(d)))
    part = EveryCase()

    class C(object):
        cov = {}
        nproc = ctx.nproc
    run_differential(C, part, thorough)
    hit = False
    for fp, what, d in part.violations:
        c39_key = lambda x: [(x.get('c39') or {}).get(k) for k in ('handler', 'index', 'layout', 'pv', 'tag')]
        same = (d.get('key') is not None and d.get('key') == data.get('key')) or \
            (d.get('murmur_key') is not None and d.get('murmur_key') == data.get('murmur_key')) or \
            ('c39' in d and 'c39' in data and c39_key(d) == c39_key(data))
        if same:
            print(fp, '::', what[:500])
        hit = hit or same
    print('%d differing cases in all, the recorded one %s' % (len(part.violations), 'still differs' if hit else 'does not differ any more'))
    return hit
