"""C40 GraphSON values survive serialisation and deserialisation.

Engine N.  Every python value of a finite boundary grid is serialised by the driver's GraphSON 1, 2
and 3 serializers exactly as `Session._transform_params` does (`serializer.serialize(v)` followed by
`json.dumps`), the text is parsed back with `json.loads` (what `GraphSON2Reader.read` does) and handed
to the matching deserializer: `GraphSON2Reader` / `GraphSON3Reader` for the typed formats, the
`GraphSON1Deserializer.deserialize_<cql type>` / `.deserialize(graphson_type, ..)` entry points for the
untyped GraphSON 1 format, and additionally `TypeIO.deserialize(TypeIO.serialize(v))` on every scalar
TypeIO class directly.  The result must equal the original under a type-aware structural equality.
"""
import collections
import datetime
import ipaddress
import json
import struct
import uuid
from decimal import Decimal

from vt.core import Part, HarnessError
from vt.spec import valuegen as G

META = {
    'level': 'exploration',
    'engine': 'N',
    'technique': 'bounded-exhaustive enumeration of (python value, GraphSON version, entry point) with a type-aware round-trip oracle',
    'text': 'Every TypeIO of cassandra/datastax/graph/graphson.py that has a serializer (text, boolean, Int16/32/64, BigInteger, '
            'Float, Double, BigDecimal, UUID, Blob/ByteBuffer, LocalDate, LocalTime, Instant, Duration (timedelta), dse:Duration, '
            'InetAddress, Point, LineString, Polygon, JSON map, g:Map, g:List, g:Set, dse:Tuple, dse:UDT, TypeIOWrapper) is driven '
            'with boundary values (integers at every byte-length edge up to 64 bits and beyond, doubles incl. NaN/inf/-0.0/denormals, '
            'decimals over unscaled x scale edges, dates/times/instants over years 1..9999 incl. pre-1970 and microseconds, '
            'timedeltas negative / sub-second / at both ends of the range, dse durations at int32/int64 edges, empty and non-BMP text, '
            'blobs as bytes/bytearray/memoryview, IPv4/IPv6, geometries with boundary coordinates, empty shapes and holes) and, for '
            'GraphSON 3 (GraphSON 1/2: string-keyed maps), every container shape over every scalar plus a second nesting level; '
            'tuples (the one hashable container, GraphSON 3 only) are nested 2 and 3 levels deep (thorough: 4) in every shape built from '
            '(s,), (s, filler), (filler, s) per level, with every kind at the bottom, and placed as set members, map keys (int and '
            'nested-tuple values), inside list<set>, tuple<map>, map<text,map<.., list>> and, for comparison, as list members; per kind '
            'and depth one set and one map carry every boundary value of the kind at the bottom, and one member mixes leaves at depths 1..4; '
            'a UDT mapped to a namedtuple (the other hashable container) holds every hashable kind as set member, map key, inside a tuple '
            'member, around a tuple and around another UDT; '
            'serialize -> json.dumps -> json.loads -> deserialize must give back an equal value of the same python type '
            '(1, 1.0 and True differ, NaN equals NaN, -0.0 differs from 0.0).',
    'note': 'Documented normalisations accepted: blobs come back as bytearray, inet addresses as their canonical text, '
            'TypeIOWrapper(value) as the wrapped value. Only value survival is judged; whether a typed value fits the range of its '
            'GraphSON tag on the server (e.g. 2**31 tagged g:Int32) is outside the statement.',
    'design_ref': 'C40',
}

NAN, INF = float('nan'), float('inf')
_EPOCH = datetime.datetime(1970, 1, 1)
TD = datetime.timedelta


# ------------------------------------------------------------------------------------------------
# type-aware equality
def _fbits(x):
    return struct.pack('>d', x)


def teq(a, b):
    """a = original, b = what came back."""
    from cassandra.util import Point, LineString, Polygon, Duration
    if isinstance(a, float):
        if type(b) is not float:
            return False
        return (a != a and b != b) or _fbits(a) == _fbits(b)
    if isinstance(a, bool) or a is None:
        return type(a) is type(b) and a == b
    if isinstance(a, int):
        return type(b) is int and a == b
    if isinstance(a, str):
        return type(b) is str and a == b
    if isinstance(a, (bytes, bytearray, memoryview)):
        return isinstance(b, (bytes, bytearray)) and bytes(a) == bytes(b)
    if isinstance(a, Decimal):
        return type(b) is Decimal and a.as_tuple() == b.as_tuple()
    if isinstance(a, (ipaddress.IPv4Address, ipaddress.IPv6Address)):
        if type(b) is type(a):
            return a == b
        if type(b) is not str:
            return False
        try:
            return ipaddress.ip_address(b) == a
        except ValueError:
            return False
    if isinstance(a, (datetime.datetime, datetime.date, datetime.time, datetime.timedelta, uuid.UUID)):
        return type(a) is type(b) and a == b
    if isinstance(a, Point):
        return type(b) is Point and teq(a.x, b.x) and teq(a.y, b.y)
    if isinstance(a, LineString):
        return type(b) is LineString and teq(tuple(a.coords), tuple(b.coords))
    if isinstance(a, Polygon):
        return type(b) is Polygon and teq(tuple(a.exterior.coords), tuple(b.exterior.coords)) and \
            teq(tuple(r.coords for r in a.interiors), tuple(r.coords for r in b.interiors))
    if isinstance(a, Duration):
        return type(b) is Duration and teq(a.months, b.months) and teq(a.days, b.days) and teq(a.nanoseconds, b.nanoseconds)
    if isinstance(a, Wrapped):
        return teq(a.value, b)
    if isinstance(a, UdtObject):
        return type(b) is type(a) and teq(a.fields(), b.fields())
    if isinstance(a, tuple):
        return type(b) is type(a) and len(a) == len(b) and all(teq(x, y) for x, y in zip(a, b))
    if isinstance(a, list):
        return type(b) is list and len(a) == len(b) and all(teq(x, y) for x, y in zip(a, b))
    if isinstance(a, (set, frozenset)):
        if type(b) is not set or len(a) != len(b):
            return False
        rest = list(b)
        for x in a:
            for i, y in enumerate(rest):
                if teq(x, y):
                    del rest[i]
                    break
            else:
                return False
        return True
    if isinstance(a, dict):
        if type(b) is not dict or len(a) != len(b):
            return False
        rest = list(b.items())
        for k, v in a.items():
            for i, (k2, v2) in enumerate(rest):
                if teq(k, k2) and teq(v, v2):
                    del rest[i]
                    break
            else:
                return False
        return True
    raise HarnessError('teq: no rule for %r' % (type(a),))


class Wrapped(object):
    """A value the user forces to a GraphSON type with to_bigint()/to_int()/... (TypeIOWrapper)."""
    def __init__(self, io_name, value):
        self.io_name, self.value = io_name, value

    def __repr__(self):
        return 'TypeIOWrapper(%s, %r)' % (self.io_name, self.value)


class UdtObject(object):
    """A user class mapped to a UDT (Cluster.register_user_type)."""
    def __init__(self, street=None, zip=None, tags=None):
        self.street, self.zip, self.tags = street, zip, tags

    def fields(self):
        return (self.street, self.zip, self.tags)

    def __repr__(self):
        return 'UdtObject%r' % (self.fields(),)


Addr = collections.namedtuple('Addr', ['street', 'zip', 'tags'])
Pair = collections.namedtuple('Pair', ['first', 'second'])
KV = collections.namedtuple('KV', ['k', 'v'])          # a UDT without collection fields: hashable when its field values are


def short(x, n=200):
    r = repr(x)
    return r if len(r) <= n else r[:n] + '...(%d chars)' % len(r)


# ------------------------------------------------------------------------------------------------
# boundary values (python objects the graph API documents), grouped by kind
def _timedeltas(thorough):
    vals = [TD(0), TD(seconds=1), TD(days=1, seconds=3, microseconds=250000), TD(seconds=59, microseconds=999999),
            TD(seconds=60), TD(hours=1), TD(days=1), TD(days=2, hours=4), TD(days=42, hours=10, minutes=5, seconds=37),
            TD(milliseconds=1), TD(milliseconds=500), TD(seconds=1, milliseconds=500), TD(microseconds=100), TD(microseconds=99),
            TD(microseconds=10), TD(microseconds=1), TD(seconds=3, microseconds=1), TD(days=1, microseconds=1),
            TD(seconds=2 ** 31), TD(seconds=2 ** 33, microseconds=1), TD(days=99999, seconds=86399, microseconds=999999),
            TD(days=106751991, seconds=14454, microseconds=775807),          # Long.MAX_VALUE microseconds
            TD(days=999999999), TD(days=999999999, seconds=86399), TD.max]
    neg = [-v for v in vals[1:-3]] + [TD.min, TD(days=-1, microseconds=1), TD(days=-999999999, seconds=1), TD(days=-999999998)]
    if thorough:
        for us in (2, 5, 7, 50, 123, 999, 1001, 123456, 999999, 1000001, 59999999, 60000001, 3599999999, 86399999999, 86400000001):
            vals.append(TD(microseconds=us))
            neg.append(TD(microseconds=-us))
    return vals + neg


def _datetimes(thorough):
    out = []
    for ms in G.scalar_values('timestamp', thorough):
        out.append(_EPOCH + TD(milliseconds=ms))
    base = [datetime.datetime.min, datetime.datetime.max, datetime.datetime(1969, 12, 31, 23, 59, 59, 999999),
            datetime.datetime(1970, 1, 1, 0, 0, 0, 1), datetime.datetime(2000, 2, 29, 12, 0, 0, 100), datetime.datetime(999, 12, 31, 23, 59, 59),
            datetime.datetime(1000, 1, 1), datetime.datetime(1582, 10, 4, 1, 2, 3, 456789), datetime.datetime(2038, 1, 19, 3, 14, 8),
            datetime.datetime(1, 1, 1, 0, 0, 0, 1), datetime.datetime(1600, 1, 1, 0, 0, 0, 1000)]
    return base + out


def _dates():
    d = datetime.date
    return [d(2015, 11, 2), d.min, d.max, d(1969, 12, 31), d(1970, 1, 1), d(1970, 1, 2), d(1582, 10, 4), d(1582, 10, 15), d(999, 12, 31),
            d(1000, 1, 1), d(99, 1, 1), d(9, 9, 9), d(2000, 2, 29), d(1900, 3, 1), d(2038, 1, 19), d(1, 12, 31)]


def _times():
    t = datetime.time
    return [t(12, 34, 56, 789000), t.min, t.max, t(0, 0, 0, 1), t(0, 0, 1), t(0, 1), t(1, 0), t(23, 59, 59), t(23, 59, 59, 999000),
            t(1, 2, 3, 4), t(12, 0, 0, 500000), t(0, 0, 0, 999999), t(0, 0, 59, 100)]


def _ints():
    vals = list(G.scalar_values('bigint')) + list(G.scalar_values('int')) + list(G.scalar_values('smallint')) + \
        [2 ** 32 - 1, 2 ** 32, -2 ** 32, 2 ** 63, -2 ** 63 - 1, 2 ** 64, 10 ** 40, -10 ** 40]
    out, seen = [], set()
    for v in vals:
        if v not in seen:
            seen.add(v)
            out.append(v)
    return out


def _floats():
    vals = list(G.scalar_values('double')) + list(G.scalar_values('float')) + [1e22, 1e-7, 123456789.125, 2.0 ** 53, -2.0 ** 53 - 2, 1 / 3.0]
    out, seen = [], set()
    for v in vals:
        k = 'nan' if v != v else _fbits(v)
        if k not in seen:
            seen.add(k)
            out.append(v)
    return out


def _geometries(thorough):
    from cassandra.util import Point, LineString, Polygon
    cs = [0.0, -0.0, 1.5, -1.5, 1e-7, 1e22, 123456789.125, 1.7976931348623157e308, -1.7976931348623157e308, 5e-324, 2.2250738585072014e-308,
          0.1, 1 / 3.0, 180.0, -90.0]
    pts = [Point(1.0, 2.0)] + [Point(x, y) for x, y in zip(cs, cs[1:] + cs[:1])]
    if thorough:
        pts += [Point(x, y) for x in cs for y in cs if (x, y) not in [(p.x, p.y) for p in pts]]
    lines = [LineString(((1.0, 2.0), (3.0, 4.0))), LineString(), LineString(((0.0, 0.0), (1.5, -1.5), (1e22, 1e-7))),
             LineString(((1.0, 2.0),)), LineString(tuple((c, -c) for c in cs)), LineString(((-0.0, 0.0), (0.0, -0.0)))]
    sq = ((0.0, 0.0), (10.0, 0.0), (10.0, 10.0), (0.0, 10.0), (0.0, 0.0))
    h1 = ((1.0, 1.0), (2.0, 1.0), (2.0, 2.0), (1.0, 1.0))
    h2 = ((5.5, 5.5), (6.5, 5.5), (6.5, 6.5), (5.5, 5.5))
    polys = [Polygon(sq), Polygon(), Polygon(sq, [h1]), Polygon(sq, [h1, h2]),
             Polygon(((-1.5, 1e-7), (1e22, 0.1), (5e-324, -0.0), (-1.5, 1e-7))), Polygon(((0.0, 0.0), (1.0, 1.0), (0.0, 0.0)))]
    return pts, lines, polys


def scalar_groups(thorough):
    """kind -> list of values (first two are 'ordinary', used to build containers)."""
    from cassandra.util import Duration
    pts, lines, polys = _geometries(thorough)
    blobs = G.scalar_values('blob', thorough)
    g = collections.OrderedDict()
    g['text'] = list(G.scalar_values('text', thorough)) + ['@type', '{"@type": "g:Int32", "@value": 1}', 'P1DT2H', 'POINT (1 2)', 'a"b\\c\n\t']
    g['boolean'] = [True, False]
    g['int'] = _ints()
    g['float'] = _floats()
    g['decimal'] = list(G.scalar_values('decimal', thorough))
    g['uuid'] = list(G.scalar_values('uuid')) + list(G.scalar_values('timeuuid'))
    g['blob_bytes'] = list(blobs)
    g['blob_bytearray'] = [bytearray(b) for b in blobs]
    g['blob_memoryview'] = [memoryview(b) for b in blobs]
    g['date'] = _dates()
    g['time'] = _times()
    g['instant'] = _datetimes(thorough)
    g['timedelta'] = _timedeltas(thorough)
    g['inet'] = [ipaddress.ip_address(a) for a in G.scalar_values('inet')]
    g['point'] = pts
    g['linestring'] = lines
    g['polygon'] = polys
    g['dse_duration'] = [Duration(*d) for d in G.scalar_values('duration')]
    return g


G3_ONLY = ('dse_duration',)
HASHABLE = ('text', 'boolean', 'int', 'float', 'decimal', 'uuid', 'blob_bytes', 'date', 'time', 'instant', 'timedelta', 'inet', 'point',
            'linestring', 'polygon')

# which TypeIO class serves the kind (for the class-level entry point) and the GraphSON 1 entry points
TYPEIO = {
    'text': ['TextTypeIO'], 'boolean': ['BooleanTypeIO'], 'int': ['Int16TypeIO', 'Int32TypeIO', 'Int64TypeIO', 'BigIntegerTypeIO'],
    'float': ['FloatTypeIO', 'DoubleTypeIO'], 'decimal': ['BigDecimalTypeIO'], 'uuid': ['UUIDTypeIO'],
    'blob_bytes': ['BlobTypeIO', 'ByteBufferTypeIO'], 'blob_bytearray': ['BlobTypeIO', 'ByteBufferTypeIO'],
    'blob_memoryview': ['BlobTypeIO', 'ByteBufferTypeIO'], 'date': ['LocalDateTypeIO'], 'time': ['LocalTimeTypeIO'],
    'instant': ['InstantTypeIO'], 'timedelta': ['DurationTypeIO'], 'inet': ['InetTypeIO'], 'point': ['PointTypeIO'],
    'linestring': ['LineStringTypeIO'], 'polygon': ['PolygonTypeIO'],
}
G1_METHODS = {
    'text': [None], 'boolean': ['deserialize_boolean'], 'int': ['deserialize_int', 'deserialize_bigint', 'deserialize_smallint', 'deserialize_varint'],
    'float': ['deserialize_double', 'deserialize_float'], 'decimal': ['deserialize_decimal'], 'uuid': ['deserialize_uuid'],
    'blob_bytes': ['deserialize_blob'], 'blob_bytearray': ['deserialize_blob'], 'blob_memoryview': ['deserialize_blob'],
    'date': ['deserialize_date'], 'time': ['deserialize_time'], 'instant': ['deserialize_timestamp'], 'timedelta': ['deserialize_duration'],
    'inet': ['deserialize_inet'], 'point': ['deserialize_point'], 'linestring': ['deserialize_linestring'], 'polygon': ['deserialize_polygon'],
}
INT_RANGE = {'Int16TypeIO': 16, 'Int32TypeIO': 32, 'Int64TypeIO': 64, 'BigIntegerTypeIO': None}


def input_class(kind, v):
    """Coarse class of the input for the fingerprint."""
    if kind == 'timedelta':
        us = (v.days * 86400 + v.seconds) * 10 ** 6 + v.microseconds
        if us < 0:
            return 'negative'
        if 0 < us % 10 ** 6 < 100:
            return 'fraction-below-1e-4s'
        if abs(us) >= 2 ** 53:
            return 'beyond-2^53us'
        return 'sub-second' if us % 10 ** 6 else 'whole-seconds'
    if kind == 'int':
        return 'int32' if -2 ** 31 <= v < 2 ** 31 else ('int64' if -2 ** 63 <= v < 2 ** 63 else 'big')
    if kind == 'float':
        return 'nonfinite' if v != v or v in (INF, -INF) else 'finite'
    if kind in ('instant', 'date'):
        return 'year<1000' if v.year < 1000 else ('pre-1970' if v.year < 1970 else 'post-1970')
    if kind in ('point', 'linestring', 'polygon'):
        r = repr(v)
        return 'empty' if r.endswith('(())') or '((), [])' in r else ('exponent' if 'e' in r.split('(', 1)[1] else 'plain')
    return 'any'


# ------------------------------------------------------------------------------------------------
# container shapes (GraphSON 3) / string-keyed maps (GraphSON 1 and 2)
def container_cases(groups, thorough):
    """-> list of (label, value, needs_g3)."""
    out = []
    for kind, vals in groups.items():
        a, b = vals[0], vals[1]
        allv = list(vals)
        # maps with string keys exist in every version (JSON object in 1/2, g:Map in 3)
        g3 = kind in G3_ONLY
        out.append(('strmap<%s>' % kind, {'k': a, 'other key': b}, g3))
        out.append(('strmap<%s>/all' % kind, {'k%d' % i: x for i, x in enumerate(allv)}, g3))
        out.append(('strmap<strmap<%s>>' % kind, {'outer': {'inner': a, 'é': b}, 'e': {}}, g3))
        out.append(('list<%s>' % kind, [a, b], True))
        out.append(('list<%s>/one' % kind, [a], True))
        out.append(('list<%s>/dup' % kind, [a, a, b], True))
        out.append(('list<%s>/all' % kind, allv, True))
        out.append(('tuple<%s>' % kind, (a, b), True))
        out.append(('tuple<%s>/one' % kind, (a,), True))
        out.append(('tuple<%s,int,text>' % kind, (b, 7, 'x'), True))
        out.append(('map<text,%s>' % kind, {'x': a, 'y': b}, True))
        out.append(('list<list<%s>>' % kind, [[a, b], [], [b]], True))
        out.append(('list<map<text,%s>>' % kind, [{'x': a}, {}, {'y': b, 'z': a}], True))
        out.append(('list<tuple<%s,int>>' % kind, [(a, 1), (b, 2)], True))
        out.append(('map<text,list<%s>>' % kind, {'x': [a, b], 'y': []}, True))
        out.append(('map<text,map<text,%s>>' % kind, {'x': {'i': a}, 'y': {'j': b}}, True))
        out.append(('tuple<list<%s>,map<text,%s>>' % (kind, kind), ([a, b], {'k': b}), True))
        out.append(('tuple<tuple<%s>,text>' % kind, ((a, b), 't'), True))
        out.append(('udt<text,int,list<%s>>' % kind, Addr('main st', 12345, [a, b]), True))
        out.append(('udtobj<text,int,list<%s>>' % kind, UdtObject('main st', -1, [b]), True))
        out.append(('list<udt<..list<%s>>>' % kind, [Addr('s', 1, [a]), Addr('t', 2, [])], True))
        out.append(('udt2<%s,udt>' % kind, Pair(a, Addr('s', 1, [b])), True))
        if kind in HASHABLE:
            out.append(('set<%s>' % kind, {a, b}, True))
            out.append(('set<%s>/one' % kind, {b}, True))
            try:
                s = set(allv)
            except TypeError:
                s = None
            if s is not None and len(s) == len(allv):
                out.append(('set<%s>/all' % kind, s, True))
            out.append(('map<%s,int>' % kind, {a: 1, b: 2}, True))
            out.append(('map<%s,%s>' % (kind, kind), {a: b, b: a}, True))
            out.append(('set<tuple<%s,int>>' % kind, {(a, 1), (b, 2), (a, 2)}, True))
            out.append(('map<tuple<%s>,list<%s>>' % (kind, kind), {(a,): [a], (b, a): []}, True))
            out.append(('list<set<%s>>' % kind, [{a}, {a, b}], True))
            out.append(('map<text,set<%s>>' % kind, {'x': {a, b}}, True))
            out.append(('tuple<set<%s>,int>' % kind, ({a, b}, 3), True))
    # shapes that do not depend on the element kind
    out += [
        ('list/empty', [], True), ('set/empty', set(), True), ('map/empty', {}, False), ('tuple<int>/only', (5,), True),
        ('list/mixed-numbers', [1, 1.0, True, Decimal('1'), '1'], True), ('list/mixed-zero', [0, 0.0, -0.0, False, ''], True),
        ('map/mixed-keys', {1: 'int', 'one': 'text', 2.5: 'float', (1, 2): 'tuple'}, True),
        ('set/mixed', {1, 'a', 2.5, (1, 'a')}, True),
        ('strmap/json-natives', {'s': 'x', 'b': True, 'i': 5, 'f': 1.5, 'neg': -0.0, 'big': 2 ** 63, 'nan': NAN, 'inf': -INF}, False),
        ('list<list<list<int>>>', [[[1, 2], []], [[3]]], True),
        ('map<int,map<int,int>>', {1: {2: 3}, 4: {}}, True),
    ]
    return out + nested_hashable_cases(groups, thorough)


# tuples are the one hashable container: nested inside each other to any depth they stay legal set members / map keys
FILLERS = (7, 'x')


def tuple_paths(depth):
    """Every way to put a leaf under `depth` tuple levels where each level is o = (s,), f = (s, filler) or l = (filler, s)."""
    paths = ['']
    for _ in range(depth):
        paths = [p + c for p in paths for c in 'ofl']
    return paths


def nest(path, leaf):
    """path is read outermost level first: nest('lo', x) == (7, (x,))."""
    x = leaf
    for i, c in enumerate(reversed(path)):
        f = FILLERS[i % len(FILLERS)]
        x = (x,) if c == 'o' else ((x, f) if c == 'f' else (f, x))
    return x


def unhashable_depth(x, d=0):
    """Number of tuple levels above the shallowest unhashable part of x (None: x is hashable)."""
    if isinstance(x, tuple):
        ds = [n for n in (unhashable_depth(y, d + 1) for y in x) if n is not None]
        return min(ds) if ds else None
    try:
        hash(x)
    except TypeError:
        return d
    return None


def nested_hashable_cases(groups, thorough):
    """Tuples nested 2..3 (thorough: ..4) levels deep as set members and map keys (and, for comparison, as list members),
    over every shape of tuple_paths() and every kind. -> list of (label, value, needs_g3)"""
    out = []
    depths = (2, 3, 4) if thorough else (2, 3)
    for kind, vals in groups.items():
        a, b = vals[0], vals[1]
        allv = list(vals)
        for d in depths:
            for path in tuple_paths(d):
                ha, hb = nest(path, a), nest(path, b)
                t = 'tup[%s]<%s>' % (path, kind)
                out.append(('list<%s>' % t, [ha, hb], True))
                if kind not in HASHABLE:
                    continue
                out.append(('set<%s>' % t, {ha, hb}, True))
                out.append(('map<%s,int>' % t, {ha: 1, hb: 2}, True))
                out.append(('map<%s,%s>' % (t, t), {ha: hb, hb: ha}, True))
                if d == 2 or thorough:
                    out.append(('list<set<%s>>' % t, [{ha}, {ha, hb}], True))
                    out.append(('tuple<map<%s,%s>,text>' % (t, kind), ({ha: b}, 'x'), True))
                    out.append(('map<text,map<%s,list<%s>>>' % (t, t), {'x': {ha: [hb], hb: []}, 'y': {}}, True))
            if kind in HASHABLE:
                # every boundary value of the kind at the bottom of a d-level tuple (the index keeps the members distinct)
                out.append(('set<tup*%d<%s>>/all' % (d, kind), {(i, nest('o' * (d - 1), x)) for i, x in enumerate(allv)}, True))
                out.append(('map<tup*%d<%s>,%s>/all' % (d, kind, kind), {(nest('f' * (d - 1), x), i): x for i, x in enumerate(allv)}, True))
        if kind in HASHABLE:
            # a UDT mapped to a namedtuple is the other hashable container (set<frozen<udt>>, map<frozen<udt>, ..>)
            ua, ub = KV('a', a), KV('b', b)
            out.append(('set<udtkv<%s>>' % kind, {ua, ub}, True))
            out.append(('map<udtkv<%s>,int>' % kind, {ua: 1, ub: 2}, True))
            out.append(('set<tuple<int,udtkv<%s>>>' % kind, {(1, ua), (2, ub)}, True))
            out.append(('set<udtkv<tuple<%s>>>' % kind, {KV('a', (a, 1)), KV('b', ((b,), 2))}, True))
            out.append(('map<udtkv<udtkv<%s>>,udtkv>' % kind, {KV('o', ua): ub, KV('p', ub): ua}, True))
            out.append(('list<udtkv<%s>>' % kind, [ua, ub, KV('c', (a, (b,)))], True))
            # leaves of one member at different depths
            mixed = (a, (b, (a, (b,))))
            out.append(('set<tup-mixed<%s>>' % kind, {mixed, (b, (a,))}, True))
            out.append(('map<tup-mixed<%s>,tup-mixed>' % kind, {mixed: mixed, (b, (a,)): (a,)}, True))
    return out


def _leaves(x):
    if isinstance(x, tuple):
        return [z for y in x for z in _leaves(y)]
    return [x]


def _has_namedtuple(x):
    return isinstance(x, tuple) and (type(x) is not tuple or any(_has_namedtuple(y) for y in x))


def min_failing_tuple_depth(env, version, v, c):
    """Fewest tuple levels d such that a one-member set (map: one key) holding a leaf of c under d levels fails to round-trip,
    probing only the leaves that come back unhashable on their own."""
    bad = []
    for leaf in _leaves(c):
        try:
            hash(leaf)                         # a list/set/dict (a map value) cannot be a member or key in the first place
            if unhashable_depth(env.roundtrip(version, leaf)[1]) is not None:
                bad.append(leaf)
        except Exception:
            pass
    for d in range(0, 6):
        for leaf in bad:
            h = nest('o' * d, leaf)
            probe = {h} if isinstance(v, set) else {h: 0}
            if attempt(probe, lambda: env.roundtrip(version, probe)[1]) is not None:
                return d
    return None


def wrapper_cases():
    out = []
    for io, bits in (('Int16TypeIO', 16), ('Int32TypeIO', 32), ('Int64TypeIO', 64)):
        for v in _ints():
            if -2 ** (bits - 1) <= v < 2 ** (bits - 1):
                out.append(Wrapped(io, v))
    for v in _ints():
        out.append(Wrapped('BigIntegerTypeIO', v))
    for v in _floats():
        out.append(Wrapped('DoubleTypeIO', v))
        out.append(Wrapped('FloatTypeIO', v))
    return out


# ------------------------------------------------------------------------------------------------
class Env(object):
    _inst = None

    @classmethod
    def get(cls):
        if cls._inst is None:
            cls._inst = cls()
        return cls._inst

    def __init__(self):
        import logging
        logging.getLogger('cassandra').setLevel(logging.CRITICAL)
        from vt.world import install
        install()
        from cassandra.datastax.graph import graphson as gs
        from cassandra.metadata import Metadata, KeyspaceMetadata, UserType
        self.gs = gs

        class ClusterStandIn(object):
            """The two attributes the GraphSON 3 UDT code reads from its context['cluster']."""
        cl = ClusterStandIn()
        cl.metadata = Metadata()
        cl._user_types = collections.defaultdict(dict)
        ks = KeyspaceMetadata('gk', True, 'SimpleStrategy', {'replication_factor': '1'})
        cl.metadata.keyspaces['gk'] = ks
        ks.user_types['addr'] = UserType('gk', 'addr', ['street', 'zip', 'tags'], ['text', 'int', 'list<text>'])
        ks.user_types['addrobj'] = UserType('gk', 'addrobj', ['street', 'zip', 'tags'], ['text', 'int', 'frozen<list<text>>'])
        ks.user_types['pair'] = UserType('gk', 'pair', ['first', 'second'], ['text', 'frozen<addr>'])
        cl._user_types['gk']['addr'] = Addr              # what Cluster.register_user_type records
        cl._user_types['gk']['addrobj'] = UdtObject
        cl._user_types['gk']['pair'] = Pair
        ks.user_types['kv'] = UserType('gk', 'kv', ['k', 'v'], ['text', 'text'])
        cl._user_types['gk']['kv'] = KV
        self.context = {'cluster': cl, 'graph_name': 'gk'}

    def unwrap(self, v):
        """Harness value -> what the user passes (Wrapped -> TypeIOWrapper), recursively."""
        if isinstance(v, Wrapped):
            return self.gs.TypeIOWrapper(getattr(self.gs, v.io_name), v.value)
        return v

    def roundtrip(self, version, v):
        gs = self.gs
        if version == 2:
            ser, rd = gs.GraphSON2Serializer(), gs.GraphSON2Reader(self.context)
        else:
            ser, rd = gs.GraphSON3Serializer(self.context), gs.GraphSON3Reader(self.context)
        x = ser.serialize(self.unwrap(v))
        text = json.dumps(x)
        return text, rd.deserialize(json.loads(text))


class Fail(object):
    def __init__(self, kind, text, exc=None):
        self.kind, self.text, self.exc = kind, text, exc       # kind: 'raises-X' | 'type' | 'value'


def attempt(v, fn):
    """Run fn() and compare with v -> None or Fail."""
    try:
        got = fn()
    except Exception as e:
        return Fail('raises-%s' % type(e).__name__, 'raised %s: %s' % (type(e).__name__, e), e)
    if teq(v, got):
        return None
    return Fail('type' if _loose_eq(v, got) else 'value', 'came back as %s' % short(got))


def _loose_eq(a, b):
    try:
        return bool(a == b)
    except Exception:
        return False


def children(x):
    if isinstance(x, UdtObject):
        return list(x.fields())
    if isinstance(x, dict):
        return [y for kv in x.items() for y in kv]
    if isinstance(x, (list, tuple, set)):
        return list(x)
    return []


def is_container(x):
    return isinstance(x, (UdtObject, dict, list, tuple, set))


def localise(env, version, v):
    """Smallest sub-value of the failing value v that still fails on its own."""
    for c in children(v):
        f = attempt(c, lambda: env.roundtrip(version, c)[1])
        if f is not None:
            return localise(env, version, c)
    return v


def kind_of_leaf(groups, leaf):
    for kind, vals in groups.items():
        for x in vals:
            if x is leaf:
                return kind
    for kind, vals in groups.items():
        for x in vals:
            if type(x) is type(leaf) and _loose_eq(x, leaf):
                return kind
    return None


def class_level(env, io, v):
    return attempt(v, lambda: io.deserialize(json.loads(json.dumps(io.serialize(v)))))


def fingerprint(env, groups, version, v, fail, entry):
    """Narrow identity of a failure of value v (already localised) at GraphSON `version`."""
    gs = env.gs
    if version == 1:
        ser = gs.GraphSON1Serializer.get_serializer(v)
    else:
        ser = (gs.GraphSON2Serializer() if version == 2 else gs.GraphSON3Serializer(env.context)).get_serializer(v)
    name = ser.__name__ if ser else 'no-serializer'
    if is_container(v):
        diag = 'children-pass'
        for c in children(v):
            try:
                n = unhashable_depth(env.roundtrip(version, c)[1])
            except Exception:
                continue
            if n is not None and isinstance(v, (set, dict)):
                diag = 'element-comes-back-unhashable'
                d = min_failing_tuple_depth(env, version, v, c)
                if d is not None and d >= 2:
                    diag += '/only-under-nested-tuples'       # directly and under one tuple level the same element is fine
                    break
                if d is None and _has_namedtuple(c):
                    diag += '/only-inside-namedtuple-udt'     # under plain tuples of any depth the same element is fine
                    break
        return 'C40/g%d/%s/%s/%s' % (version, name, fail.kind, diag)
    kind = kind_of_leaf(groups, v)
    cls_ = input_class(kind, v) if kind else 'any'
    if ser is not None and hasattr(ser, 'deserialize'):
        f2 = class_level(env, ser, v)
        if f2 is not None and f2.kind == fail.kind:
            return 'C40/%s/%s/%s' % (name, fail.kind, cls_)         # the TypeIO itself fails, whatever the framing
    return 'C40/%s/%s/%s/%s' % (entry, name, fail.kind, cls_)


def run_all(thorough, seed_rot, only=None):
    env = Env.get()
    gs = env.gs
    part = Part()
    groups = scalar_groups(thorough)
    cases = []           # (case id, entry text, version or None, value, callable)

    # 1. scalars through every entry point
    for kind, vals in groups.items():
        for vi, v in enumerate(vals):
            for io_name in TYPEIO.get(kind, ()):
                bits = INT_RANGE.get(io_name, 0)
                if kind == 'int' and bits and not (-2 ** (bits - 1) <= v < 2 ** (bits - 1)):
                    continue
                io = getattr(gs, io_name)
                cases.append((('class', io_name, kind, vi), '%s.deserialize(%s.serialize(v))' % (io_name, io_name), None, v,
                              lambda io=io, v=v: io.deserialize(json.loads(json.dumps(io.serialize(v))))))
            if kind in G1_METHODS:
                for m in G1_METHODS[kind]:
                    def g1(m=m, v=v):
                        x = json.loads(json.dumps(gs.GraphSON1Serializer.serialize(v)))
                        return x if m is None else getattr(gs.GraphSON1Deserializer, m)(x)
                    cases.append((('g1', m, kind, vi), 'GraphSON1Deserializer.%s(GraphSON1Serializer.serialize(v))' % (m or '<plain json>'), 1, v, g1))
                ser_io = gs.GraphSON1Serializer.get_serializer(v)
                if ser_io is not None and ser_io.graphson_type in gs.GraphSON1Deserializer.get_type_definitions():
                    def g1t(v=v, ser_io=ser_io):
                        x = json.loads(json.dumps(gs.GraphSON1Serializer.serialize(v)))
                        return gs.GraphSON1Deserializer.deserialize(ser_io.graphson_type, x)
                    cases.append((('g1t', ser_io.graphson_type, kind, vi),
                                  'GraphSON1Deserializer.deserialize(%r, GraphSON1Serializer.serialize(v))' % ser_io.graphson_type, 1, v, g1t))
            for version in (2, 3):
                if version == 2 and kind in G3_ONLY:
                    continue
                cases.append((('g%d' % version, None, kind, vi), 'GraphSON%dReader.deserialize(GraphSON%dSerializer().serialize(v))' % (version, version),
                              version, v, lambda version=version, v=v: env.roundtrip(version, v)[1]))

    # 2. forced types (TypeIOWrapper is registered for GraphSON 3 only)
    for wi, w in enumerate(wrapper_cases()):
        cases.append((('wrap', w.io_name, None, wi), 'GraphSON3 round trip of TypeIOWrapper(%s, v)' % w.io_name, 3, w,
                      lambda w=w: env.roundtrip(3, w)[1]))

    # 3. containers
    for ci, (label, v, needs3) in enumerate(container_cases(groups, thorough)):
        for version in ((3,) if needs3 else (1, 2, 3)):
            if version == 1:
                if not _json_native(v):
                    part.count('skipped_not_json_native_g1')
                    continue
                # GraphSON 1 results are plain JSON: only JSON-native leaves can be read back without a type
                fn = lambda v=v: json.loads(json.dumps(gs.GraphSON1Serializer.serialize(v)))
            else:
                fn = lambda version=version, v=v: env.roundtrip(version, v)[1]
            cases.append((('cont', version, label, ci), 'GraphSON%d round trip of %s' % (version, label), version, v, fn))

    k = seed_rot % len(cases)
    cases = cases[k:] + cases[:k]
    for cid, entry, version, v, fn in cases:
        if only is not None and list(cid) != list(only):
            continue
        part.count('evaluations')
        target = v.value if isinstance(v, Wrapped) else v
        fail = attempt(target, fn)
        okind = cid[2] if cid[0] != 'cont' else cid[2].split('<')[0].split('/')[0]
        part.outcome((cid[0] if cid[0] != 'cont' else 'cont-g%d' % cid[1], okind, 'ok' if fail is None else fail.kind))
        if cid[0] == 'cont' or cid[3] > 0:
            part.mark_nontrivial(repr(cid))
        if fail is None:
            if cid[3] == 3 and cid[0] in ('g2', 'g3', 'cont'):
                try:
                    part.sample({'case': list(cid), 'value': short(v, 120), 'wire': env.roundtrip(version, v)[0][:200]}, limit=4)
                except Exception:
                    pass
            continue
        data = {'case': list(cid), 'thorough': thorough}
        if cid[0] == 'class':
            kind = cid[2]
            fp = 'C40/%s/%s/%s' % (cid[1], fail.kind, input_class(kind, v))
            what = '%s with v = %s %s' % (entry, short(v), fail.text)
        elif cid[0] == 'wrap':
            fp = 'C40/g3/TypeWrapperTypeIO/%s/%s' % (v.io_name, fail.kind)
            what = '%s with v = %s %s' % (entry, short(v.value), fail.text)
        elif version == 1:
            if is_container(v):
                fp = 'C40/g1/JsonMapTypeIO/%s' % fail.kind
            else:
                fp = fingerprint(env, groups, 1, v, fail, 'g1.%s' % (cid[1] or 'json'))
            what = '%s with v = %s %s' % (entry, short(v), fail.text)
        else:
            sub = localise(env, version, v)
            subfail = attempt(sub, lambda: env.roundtrip(version, sub)[1]) or fail
            fp = fingerprint(env, groups, version, sub, subfail, 'g%d' % version)
            what = '%s with v = %s %s' % (entry, short(v), fail.text)
            if sub is not v:
                what += '; smallest failing part: %s %s' % (short(sub, 120), subfail.text)
            try:
                what += '; wire text %s' % json.dumps((gs.GraphSON2Serializer() if version == 2 else gs.GraphSON3Serializer(env.context)).serialize(env.unwrap(sub)))[:300]
            except Exception:
                pass
        part.violation(fp, what, data)
    part.count('cases_enumerated', len(cases))
    return part, groups


def _json_native(v):
    if isinstance(v, dict):
        return all(isinstance(k, str) and _json_native(x) for k, x in v.items())
    return isinstance(v, (str, bool, int, float))


def selftest():
    """The equality oracle must separate what the statement separates."""
    assert teq(1, 1) and not teq(1, 1.0) and not teq(1, True) and not teq(True, 1) and not teq(1.0, 1)
    assert teq(NAN, NAN) and not teq(0.0, -0.0) and teq(-0.0, -0.0) and not teq(NAN, 1.0)
    assert teq([1, {'a': (1.5, 'x')}], [1, {'a': (1.5, 'x')}]) and not teq([1], (1,)) and not teq({1}, [1])
    assert teq({NAN, 1}, {NAN, 1}) and not teq({1: 2}, {1: 2.0}) and not teq({'1': 2}, {1: 2})
    assert teq(b'ab', bytearray(b'ab')) and not teq(b'ab', 'ab')
    assert teq(Decimal('1.0'), Decimal('1.0')) and not teq(Decimal('1.0'), Decimal('1.00'))
    assert teq(ipaddress.ip_address('::1'), '::1') and not teq(ipaddress.ip_address('::1'), '::2')
    assert not teq(TD(seconds=-1), TD(seconds=1)) and not teq(datetime.datetime(2000, 1, 1, 0, 0, 0, 1), datetime.datetime(2000, 1, 1))
    assert teq(Addr('a', 1, []), Addr('a', 1, [])) and not teq(Addr('a', 1, []), ('a', 1, []))


def run(ctx):
    selftest()
    part, groups = run_all(ctx.thorough, ctx.seed)
    ctx.merge(part)
    ctx.cov['values_per_kind'] = {k: len(v) for k, v in groups.items()}
    ctx.cov['rule'] = ('cases = every boundary value of every kind x entry points {TypeIO class level, GraphSON1 serializer + each '
                       'GraphSON1Deserializer method/type tag for the kind, GraphSON2 reader, GraphSON3 reader} + TypeIOWrapper forced types '
                       'x in-range values + container shapes (35 per kind: string-keyed maps in all versions; list/set/map/tuple/UDT(namedtuple '
                       'and class)/nested depth 2 in GraphSON 3) + kind-independent shapes + nested tuples (3**d shapes for each depth d in 2..3, '
                       'thorough 2..4, x kind x placements {list member; hashable kinds: set member, map key -> int, map key -> nested tuple; '
                       'd = 2 or thorough: list<set>, tuple<map>, map<text,map<..,list>>} + per hashable kind and depth set/all and map/all + '
                       'mixed-depth member + 6 namedtuple-UDT-as-member/key shapes per hashable kind); non-trivial = any container case or any value '
                       'other than the first (ordinary) one of its kind')
    ctx.cov['exhaustive'] = True
    ctx.assume('timezone-aware datetimes/times are left out (they come back naive in UTC by design)')
    ctx.assume('null (None) is not among the types the statement lists and is left out')
    ctx.assume('cassandra.util.Date/Time and Distance have no GraphSON serializer registered and are left out')
    ctx.assume('geometry coordinates are python floats (ints would come back as floats); NaN/inf coordinates have no WKT form and are left out')
    ctx.assume('GraphSON 1/2 maps are JSON objects: only string keys, and no map that itself looks like a typed value ({"@type":..,"@value":..}) in GraphSON 2')
    ctx.assume('GraphSON 1 containers are read back as plain JSON (no typed reader exists): only JSON-native leaves (str, bool, int, float)')
    ctx.assume('blobs come back as bytearray, inet addresses as canonical text, TypeIOWrapper values as the wrapped value (documented)')
    ctx.assume('UDT context: a stand-in object with the two attributes the GraphSON code reads (metadata.keyspaces[..].user_types, _user_types)')
    ctx.assume('python sets cannot hold lists/sets/dicts; set elements and map keys are scalars and tuples (nested to depth 3, thorough 4) only; '
               'frozenset has no GraphSON serializer')


def replay(ctx, data):
    part, _ = run_all(bool(data['thorough']), 0, only=data['case'])
    for fp, what, _ in part.violations:
        print(fp, '::', what)
    return bool(part.violations)
