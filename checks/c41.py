"""C41 Protocol version negotiation only steps down and terminates.

Layer E: a real Cluster (control connection, Connection.factory, pools) connects to a virtual node that
supports a given subset of the protocol versions the driver knows and rejects the others in one of
four ways.  All 256 subsets x 8 starting versions x explicit/implicit x rejection styles are run
sequentially (the node's reply is processed while the connecting thread waits); the versions carried by
the OPTIONS/STARTUP frames the node received are compared with the chain the statement prescribes.

Layer S: for a small set of negotiation scenarios the same Cluster.connect() runs as a virtual client thread
while a reactor thread delivers the node's frames and an executor worker runs queued tasks; every schedule
with at most one preemption is enumerated (scheduling points: every virtual lock/event/submit operation and
every source line of the handshake-rejection path on both sides), judged by the same oracle.
"""
from vt import sched
from vt.core import Part, HarnessError

META = {
    'level': 'model_checking',
    'engine': 'E+S',
    'technique': 'exhaustive enumeration of server-supported version sets x start version x configuration x rejection style on the real Cluster.connect, '
                 'plus stateless preemption-bounded schedule exploration (reactor thread vs connecting thread) of negotiation scenarios',
    'text': 'For every subset S of the 8 protocol versions the driver knows (256), every starting version (8), explicit '
            '(Cluster(protocol_version=v)) or implicit (default; or the not-explicit state left by earlier downgrades, '
            'cluster.protocol_version = v) and each rejection style {ERROR ProtocolError "Invalid or unsupported protocol version" '
            'to OPTIONS; the same sent with a lower version in the response header; "Beta version of the protocol used ..., but '
            'USE_BETA flag is unset"; OPTIONS answered and the ProtocolError sent to STARTUP}, a real Cluster.connect() runs against '
            'the virtual node.  Oracle: the versions of the successive connection attempts are exactly start, then the next lower '
            'non-beta known version, ... (strictly decreasing, 6 skipped), stopping at the first version in S; an explicit version is '
            'tried once and never downgraded; when no version <= start (non-beta below start) is in S the connect raises after '
            'version 1 (finite: <= 8 attempts, guarded at 30 connections); connect succeeds iff the chain reaches a version in S, and '
            'every later connection (pools) uses exactly the negotiated version.  '
            'Schedule layer: for each rejection style, 6 scenarios (quick; 14 thorough): default start with the node one step / two '
            'steps below (ending at v5 with segment framing), a downgraded start one step / three steps above the node\'s version, '
            'everything rejected, an explicit version rejected; Cluster.connect() runs in a client thread, a reactor thread delivers '
            'each frame the node sends (Connection.process_msg -> defunct / handshake handlers) and one executor worker runs the '
            'queued tasks; all schedules with <= 1 preemption (all non-preemptive orders included; thorough: <= 2 for the start=5, node={4,3} scenarios) are enumerated, scheduling points '
            'at every virtual lock acquire, Event.set/wait, executor submit and at every source line of Connection.process_msg, '
            'defunct, error_all_requests, factory, _handle_options_response, _handle_startup_response, '
            'ControlConnection._try_connect and Cluster.protocol_downgrade; same oracle, plus no deadlock/livelock of the connect.',
    'note': 'The chain [DSE_V2, DSE_V1, 5, 4, 3, 2, 1] is hard-coded in the check (not read from the driver); '
            'ProtocolVersion.SUPPORTED_VERSIONS is only used as the alphabet of versions and compared with the expected set.  '
            'One contact point; schema/token metadata refresh disabled.  Schedule layer: preemption granularity is the source line '
            '(focus functions) or the virtual primitive (elsewhere); one reactor thread, one executor worker; a timed wait expires '
            'only when no thread can run (the connect timeout never fires while the reply is deliverable).',
    'design_ref': 'C41',
}

KNOWN = (0x42, 0x41, 6, 5, 4, 3, 2, 1)
CHAIN = (0x42, 0x41, 5, 4, 3, 2, 1)          # non-beta order the statement prescribes
STYLES = ('protocol-error', 'lower-header', 'beta-flag', 'reject-at-startup')


class Runaway(BaseException):
    pass


def make_server(supported, style):
    from vt.world.vworld import VServer, HostSpec
    from vt.world import wire

    class NegServer(VServer):
        def __init__(self):
            VServer.__init__(self, [HostSpec('10.0.0.1')])
            self.attempts = []         # (conn vid, op, version requested)
            self.nconn = 0

        def on_connect(self, conn):
            self.nconn += 1
            if self.nconn > 30:
                raise Runaway('more than 30 connections opened')
            VServer.on_connect(self, conn)

        def default_response(self, p):
            req = p.req
            v = req['version']
            if req['op'] in ('OPTIONS', 'STARTUP'):
                self.attempts.append((p.conn.vid, req['op'], v))
            if v in supported:
                return VServer.default_response(self, p)
            if style == 'reject-at-startup' and req['op'] == 'OPTIONS':
                return VServer.default_response(self, p)
            if style == 'beta-flag':
                return wire.OP_ERROR, wire.error(wire.ERR_PROTOCOL, 'Beta version of the protocol used (%d/v%d-beta), but USE_BETA flag is unset' % (v, v))
            names = ', '.join('%d/v%d' % (x, x) for x in sorted(supported))
            msg = 'Invalid or unsupported protocol version (%d); supported versions are (%s)' % (v, names)
            if style == 'lower-header':
                lower = [x for x in supported if x < v]
                hv = max(lower) if lower else (min(supported) if supported else v)
                p.req = dict(req, version=hv)          # VServer.respond takes the header version from here
            return wire.OP_ERROR, wire.error(wire.ERR_PROTOCOL, msg)

    return NegServer()


def expected(start, explicit, supported):
    """-> (attempt versions, success?)"""
    if explicit:
        return [start], start in supported
    out = [start]
    if start in supported:
        return out, True
    for v in CHAIN:
        if v < start:
            out.append(v)
            if v in supported:
                return out, True
    return out, False


def run_case(start, explicit, supported, style, part):
    from vt.world.vworld import World
    from cassandra.cluster import _NOT_SET
    srv = make_server(frozenset(supported), style)
    w = World(srv)
    case = {'start': start, 'explicit': explicit, 'supported': sorted(supported), 'style': style}
    outcome = None
    err = None
    with w:
        cluster = None
        try:
            if explicit:
                cluster = w.make_cluster(protocol_version=start)
            else:
                cluster = w.make_cluster(protocol_version=_NOT_SET)
                if cluster._protocol_version_explicit:
                    raise HarnessError('default cluster reports an explicit protocol version')
                if cluster.protocol_version != start:
                    cluster.protocol_version = start       # the state earlier downgrades leave behind
            try:
                cluster.connect()
                outcome = 'connected'
            except Runaway as e:
                outcome = 'runaway'
                err = e
            except Exception as e:
                outcome = 'error'
                err = e
        finally:
            negotiated = cluster.protocol_version if cluster is not None else None
            if cluster is not None:
                try:
                    cluster.shutdown()
                except Exception:
                    pass
    judge(srv, case, outcome, err, negotiated, part, '')


def judge(srv, case, outcome, err, negotiated, part, layer):
    """The oracle, shared by the sequential (layer '') and the schedule layer (layer 'sched/')."""
    start, explicit, supported, style = case['start'], case['explicit'], case['supported'], case['style']
    # attempts: version of the first handshake frame of every connection, in order; the negotiation ends
    # with the first connection whose STARTUP the node accepted
    firsts = []
    seen = {}
    accepted_at = None
    for vid, op, v in srv.attempts:
        if vid not in seen:
            seen[vid] = len(firsts)
            firsts.append(v)
        if op == 'STARTUP' and v in supported and accepted_at is None:
            accepted_at = seen[vid]
    want, ok = expected(start, explicit, supported)
    tag = layer + ('explicit' if explicit else 'implicit')
    part.count('evaluations')
    part.count('executions')
    part.count('transitions', len(firsts))
    if outcome == 'runaway':
        part.violation('C41/non-termination/%s/%s' % (tag, style), 'more than 30 connections: versions %r; case %r' % (firsts[:12], case), case)
        return
    got = firsts if accepted_at is None else firsts[:accepted_at + 1]
    later = [] if accepted_at is None else firsts[accepted_at + 1:]
    if any(b >= a for a, b in zip(got, got[1:])):
        part.violation('C41/not-strictly-decreasing/%s/%s' % (tag, style), 'attempt versions %r; case %r' % (firsts, case), case)
    elif explicit and len(got) > 1:
        part.violation('C41/explicit-version-retried/%s%s' % (layer, style), 'attempt versions %r; case %r' % (firsts, case), case)
    elif got != want:
        cls = 'beta-version-tried' if any(v == 6 for v in got[1:]) else ('gave-up-early' if len(got) < len(want) else 'wrong-chain')
        part.violation('C41/%s/%s/%s' % (cls, tag, style), 'attempt versions %r, expected %r; outcome %s %r; case %r' % (
            firsts, want, outcome, err, case), case)
    if ok and outcome != 'connected':
        part.violation('C41/no-connection-although-supported/%s/%s' % (tag, style),
                       'version %d is supported and on the chain, connect raised %r after attempts %r; case %r' % (want[-1], err, firsts, case), case)
    if not ok and outcome == 'connected':
        part.violation('C41/connected-with-unsupported-version/%s/%s' % (tag, style), 'attempts %r; case %r' % (firsts, case), case)
    if outcome == 'connected':
        if negotiated != want[-1] and ok:
            part.violation('C41/negotiated-version-wrong/%s/%s' % (tag, style), 'cluster.protocol_version=%r, expected %r; case %r' % (
                negotiated, want[-1], case), case)
        if any(v != negotiated for v in later):
            part.violation('C41/later-connection-other-version/%s/%s' % (tag, style),
                           'after negotiating %r further connections used %r; case %r' % (negotiated, later, case), case)
    part.outcome((tag, style, outcome, tuple(firsts), type(err).__name__))
    if layer:
        return firsts, want, ok
    if len(want) > 1:
        part.mark_nontrivial(repr((start, tuple(want), ok, style)))
    if len(want) >= 3:
        part.sample({'case': case, 'attempt_versions': firsts, 'outcome': outcome, 'error': repr(err)[:200]}, limit=1)


# ====================================================================== schedule layer (engine S)
def sched_focus():
    """Code objects whose source lines are scheduling points: the reactor side of a rejected handshake
    (process_msg, defunct, the handshake response handlers) and the connecting side (Connection.factory,
    ControlConnection._try_connect, Cluster.protocol_downgrade)."""
    import cassandra.cluster as cl
    import cassandra.connection as cn

    def code(f):
        f = getattr(f, '__func__', f)
        f = getattr(f, '__wrapped__', f)          # defunct_on_error uses functools.wraps
        return f.__code__
    C = cn.Connection
    return [code(C.process_msg), code(C.defunct), code(C.factory), code(C.error_all_requests),
            code(C._handle_options_response), code(C._handle_startup_response),
            code(cl.ControlConnection._try_connect), code(cl.Cluster.protocol_downgrade)]


_FOCUS = []


@sched.gc_quiet
def sched_harness(params, prefix, part):
    """One execution of Cluster.connect() by a client thread while a reactor thread delivers every frame the
    node sends (one frame per turn, like a reactor's handle_read) and one executor worker runs the queued
    tasks.  params: the case dict of run_case."""
    from vt.world.vworld import World
    from cassandra.cluster import _NOT_SET
    if not _FOCUS:
        _FOCUS.extend(sched_focus())
    start, explicit, supported, style = params['start'], params['explicit'], params['supported'], params['style']
    srv = make_server(frozenset(supported), style)
    w = World(srv)
    res = {'outcome': None, 'err': None}
    with w:
        cluster = None
        try:
            if explicit:
                cluster = w.make_cluster(protocol_version=start)
            else:
                cluster = w.make_cluster(protocol_version=_NOT_SET)
                if cluster.protocol_version != start:
                    cluster.protocol_version = start
            s = sched.Scheduler(prefix, focus=_FOCUS, horizon=40000, clock=w.clock)
            busy = [0]
            stop = [False]
            done = [False]

            def join_executor(ex):
                s.block(lambda: busy[0] == 0 and not any(t[5] is ex for t in w.tasks), None, 'executor.shutdown(wait=True)')
            w.executor_join = join_executor

            def client():
                try:
                    cluster.connect()
                    res['outcome'] = 'connected'
                except Runaway as e:
                    res['outcome'], res['err'] = 'runaway', e
                except Exception as e:
                    res['outcome'], res['err'] = 'error', e
                finally:
                    done[0] = True

            def worker():
                s.current.waiting = None
                while True:
                    if not w.tasks:
                        s.block(lambda: bool(w.tasks) or stop[0], None, 'worker idle')
                    if not w.tasks:
                        return
                    busy[0] += 1
                    try:
                        w.run_task(0)
                    finally:
                        busy[0] -= 1
                    s.point('task.done')

            def reactor():
                s.current.waiting = None
                while True:
                    if not srv.outbox:
                        s.block(lambda: bool(srv.outbox) or stop[0], None, 'reactor idle')
                    if srv.outbox:
                        w.deliver_outbox(1)
                    elif stop[0]:
                        return

            def quiet():
                return done[0] and busy[0] == 0 and not w.tasks and not srv.outbox

            def janitor():
                s.current.waiting = None
                s.block(quiet, None, 'quiescence')
                stop[0] = True

            s.spawn(client, 'client')
            # worker, reactor and janitor are born waiting (a thread that has not started would otherwise be offered as an
            # alternative at every point although it has nothing to do)
            s.spawn(worker, 'worker').waiting = lambda: bool(w.tasks) or stop[0]
            s.spawn(reactor, 'reactor').waiting = lambda: bool(srv.outbox) or stop[0]
            s.spawn(janitor, 'janitor').waiting = quiet
            try:
                s.run()
            finally:
                w.executor_join = None
        finally:
            negotiated = cluster.protocol_version if cluster is not None else None
            if cluster is not None:
                try:
                    cluster.shutdown()            # outside the scheduler: sequential mode again
                except Exception:
                    pass
    data = dict(params, prefix=s.choices())
    tag = 'explicit' if explicit else 'implicit'
    if s.failure:
        part.count('executions')
        part.violation('C41/sched/%s/%s/%s' % (s.failure[0], tag, style), '%s; case %r' % (s.failure[1], data), data)
        return s
    for t in s.threads:
        if t.exc is not None:
            raise HarnessError('%r in virtual thread %s of case %r\n%s' % (t.exc, t.name, data, getattr(t, 'exc_tb', '')))
    r = judge(srv, data, res['outcome'], res['err'], negotiated, part, 'sched/')
    if r is not None:
        firsts, want, ok = r
        if any(p.chosen for p in s.trace) and len(want) > 1:
            part.mark_nontrivial(repr((start, explicit, tuple(supported), style, tuple(s.choices()))))
        if len(want) >= 2 and any(p.chosen for p in s.trace):
            part.sample({'case': params, 'choices': s.choices(), 'attempt_versions': firsts, 'outcome': res['outcome'],
                         'error': repr(res['err'])[:200]}, limit=1)
    return s


def sched_cases(thorough):
    """Negotiation scenarios of the schedule layer: the node rejects the first version (each style) and accepts a
    lower one one or two steps down; all rejected; an explicit version rejected."""
    out = []
    for style in STYLES:
        scen = [(0x42, False, [0x41, 5, 4]),        # default start, one step down (DSE_V1)
                (0x42, False, [5, 4, 3]),           # two steps down, ends at v5 (segment framing after STARTUP)
                (5, False, [4, 3]),                 # state left by earlier downgrades, one step
                (4, False, [1]),                    # three steps down to the lowest version
                (3, False, []),                     # everything rejected: gives up after v1
                (5, True, [4, 3])]                  # explicit version rejected: no retry
        if thorough:
            scen += [(0x42, False, [1]), (0x42, False, []), (0x41, False, [4]), (5, False, [3]), (4, False, [3, 2]),
                     (2, False, [1]), (0x42, True, [0x41]), (4, True, [])]
        for start, explicit, supported in scen:
            out.append({'start': start, 'explicit': explicit, 'supported': supported, 'style': style})
    return out


def _sched_root(job):
    _quiet()
    params, bound = job
    part = Part()
    s = sched_harness(params, [], part)
    part.count('sched_executions')
    part.count('sched_steps', s.steps)
    return part, [k for k, _ in sched.children(s.trace, 0, bound)], len(s.trace)


def _sched_sub(job):
    _quiet()
    params, bound, frontier = job
    part = Part()
    while frontier:
        nxt = []
        for prefix in frontier:
            s = sched_harness(params, prefix, part)
            part.count('sched_executions')
            part.count('sched_steps', s.steps)
            nxt.extend(k for k, _ in sched.children(s.trace, len(prefix), bound))
        frontier = nxt
    return part


def _quiet():
    import logging
    logging.getLogger('cassandra').setLevel(logging.CRITICAL + 1)
    from vt import connlib
    connlib.quiet_driver_logs()


def run_sched(ctx):
    bound = 1
    jobs = [(c, bound) for c in ctx.rotate(sched_cases(ctx.thorough))]
    if ctx.thorough:
        # two preemptions for the shortest scenarios (one step down; explicit version rejected)
        jobs += [(c, 2) for c, _ in list(jobs) if (c['start'], c['supported']) == (5, [4, 3])]
    roots = ctx.pmap(_sched_root, jobs)
    sub = []
    maxpts = 0
    for (c, b), (part, kids, npts) in zip(jobs, roots):
        ctx.merge(part)
        maxpts = max(maxpts, npts)
        k = max(1, min(len(kids), 8))
        sub += [(c, b, kids[i::k]) for i in range(k)if kids[i::k]]
    for part in ctx.pmap(_sched_sub, sub):
        ctx.merge(part)
    n = ctx.counters.get('sched_executions', 0)
    ctx.cov.setdefault('harnesses', {})['c41-sched'] = {'jobs': len(jobs), 'preemption_bounds': sorted(set(b for _, b in jobs)), 'executions': n,
                                                         'max_choice_points': maxpts, 'complete': True}


def run_chunk(item):
    import logging
    logging.getLogger('cassandra').setLevel(logging.CRITICAL + 1)
    from vt import connlib
    connlib.quiet_driver_logs()
    part = Part()
    for start, explicit, mask, style in item:
        supported = [v for i, v in enumerate(KNOWN) if mask >> i & 1]
        run_case(start, explicit, supported, style, part)
    return part


def run(ctx):
    from vt.world import install
    install()
    from cassandra import ProtocolVersion
    if set(ProtocolVersion.SUPPORTED_VERSIONS) != set(KNOWN):
        raise HarnessError('driver knows versions %r, check written for %r' % (ProtocolVersion.SUPPORTED_VERSIONS, KNOWN))
    cases = [(s, e, m, st) for st in STYLES for s in KNOWN for e in (True, False) for m in range(256)]
    cases = ctx.rotate(cases)
    n = max(1, ctx.nproc * 4)
    from vt import connlib
    connlib.before_fork()
    for part in ctx.pmap(run_chunk, [cases[i::n] for i in range(n)]):
        ctx.merge(part)
    run_sched(ctx)
    ctx.count('states', len(ctx.outcomes))
    nsched = ctx.counters.get('sched_executions', 0)
    ctx.cov['rule'] = ('%d sequential runs = 8 start versions x {explicit, implicit} x 256 supported sets x %d rejection styles %s, plus %d '
                       'schedule-layer executions (every schedule with <= 1 preemption of %d scenarios%s); evaluations = executions = both; '
                       'states = distinct observed (layer + configuration kind, style, outcome, sequence of attempt versions); transitions = '
                       'connection attempts observed at the node (sched_steps = scheduling points passed); non-trivial = distinct (start, expected chain, outcome, style) with at '
                       'least one downgrade, and for the schedule layer distinct (scenario, non-default schedule) with at least one downgrade expected'
                       % (len(cases), len(STYLES), list(STYLES), nsched, len(sched_cases(ctx.thorough)),
                          '; <= 2 preemptions of the start=5, node={4,3} scenarios' if ctx.thorough else ''))
    ctx.cov['exhaustive'] = True
    ctx.assume('a node rejects an unsupported version at the first frame (OPTIONS) or, in one style, at STARTUP; it never accepts a '
               'version outside its set')
    ctx.assume('schedule layer: line-level atomicity of CPython statements; the reactor delivers one frame per turn; the connect timeout '
               'does not expire while a thread can run')
    ctx.assume('implicit configurations with a start version other than the default are the state left by earlier downgrades '
               '(cluster.protocol_version assigned, not explicit)')


def replay(ctx, data):
    from vt.world import install
    install()
    from vt import connlib
    connlib.quiet_driver_logs()
    part = Part()
    if 'prefix' in data:
        params = {k: data[k] for k in ('start', 'explicit', 'supported', 'style')}
        sched_harness(params, data['prefix'], part)
    else:
        run_case(data['start'], data['explicit'], data['supported'], data['style'], part)
    for fp, what, _ in part.violations:
        print(fp, '::', what[:500])
    return bool(part.violations)
