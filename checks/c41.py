"""C41 Protocol version negotiation only steps down and terminates.

A real Cluster (control connection, Connection.factory, pools) connects to a virtual node that
supports a given subset of the protocol versions the driver knows and rejects the others in one of
four ways.  All 256 subsets x 8 starting versions x explicit/implicit x rejection styles are run;
the versions carried by the OPTIONS/STARTUP frames the node received are compared with the chain
the statement prescribes.
"""
from vt.core import Part, HarnessError

META = {
    'level': 'model_checking',
    'engine': 'E',
    'technique': 'exhaustive enumeration of server-supported version sets x start version x configuration x rejection style on the real Cluster.connect',
    'text': 'For every subset S of the 8 protocol versions the driver knows (256), every starting version (8), explicit '
            '(Cluster(protocol_version=v)) or implicit (default; or the not-explicit state left by earlier downgrades, '
            'cluster.protocol_version = v) and each rejection style {ERROR ProtocolError "Invalid or unsupported protocol version" '
            'to OPTIONS; the same sent with a lower version in the response header; "Beta version of the protocol used ..., but '
            'USE_BETA flag is unset"; OPTIONS answered and the ProtocolError sent to STARTUP}, a real Cluster.connect() runs against '
            'the virtual node.  Oracle: the versions of the successive connection attempts are exactly start, then the next lower '
            'non-beta known version, ... (strictly decreasing, 6 skipped), stopping at the first version in S; an explicit version is '
            'tried once and never downgraded; when no version <= start (non-beta below start) is in S the connect raises after '
            'version 1 (finite: <= 8 attempts, guarded at 30 connections); connect succeeds iff the chain reaches a version in S, and '
            'every later connection (pools) uses exactly the negotiated version.',
    'note': 'The chain [DSE_V2, DSE_V1, 5, 4, 3, 2, 1] is hard-coded in the check (not read from the driver); '
            'ProtocolVersion.SUPPORTED_VERSIONS is only used as the alphabet of versions and compared with the expected set.  '
            'One contact point; schema/token metadata refresh disabled.',
    'design_ref': 'C41',
}

KNOWN = (0x42, 0x41, 6, 5, 4, 3, 2, 1)
CHAIN = (0x42, 0x41, 5, 4, 3, 2, 1)          # non-beta order the statement prescribes
STYLES = ('protocol-error', 'lower-header', 'beta-flag', 'reject-at-startup')


class Runaway(BaseException):
    pass


def make_server(supported, style):
    from vt.world.vworld import VServer, HostSpec
    from vt.world import wire

    class NegServer(VServer):
        def __init__(self):
            VServer.__init__(self, [HostSpec('10.0.0.1')])
            self.attempts = []         # (conn vid, op, version requested)
            self.nconn = 0

        def on_connect(self, conn):
            self.nconn += 1
            if self.nconn > 30:
                raise Runaway('more than 30 connections opened')
            VServer.on_connect(self, conn)

        def default_response(self, p):
            req = p.req
            v = req['version']
            if req['op'] in ('OPTIONS', 'STARTUP'):
                self.attempts.append((p.conn.vid, req['op'], v))
            if v in supported:
                return VServer.default_response(self, p)
            if style == 'reject-at-startup' and req['op'] == 'OPTIONS':
                return VServer.default_response(self, p)
            if style == 'beta-flag':
                return wire.OP_ERROR, wire.error(wire.ERR_PROTOCOL, 'Beta version of the protocol used (%d/v%d-beta), but USE_BETA flag is unset' % (v, v))
            names = ', '.join('%d/v%d' % (x, x) for x in sorted(supported))
            msg = 'Invalid or unsupported protocol version (%d); supported versions are (%s)' % (v, names)
            if style == 'lower-header':
                lower = [x for x in supported if x < v]
                hv = max(lower) if lower else (min(supported) if supported else v)
                p.req = dict(req, version=hv)          # VServer.respond takes the header version from here
            return wire.OP_ERROR, wire.error(wire.ERR_PROTOCOL, msg)

    return NegServer()


def expected(start, explicit, supported):
    """-> (attempt versions, success?)"""
    if explicit:
        return [start], start in supported
    out = [start]
    if start in supported:
        return out, True
    for v in CHAIN:
        if v < start:
            out.append(v)
            if v in supported:
                return out, True
    return out, False


def run_case(start, explicit, supported, style, part):
    from vt.world.vworld import World
    from cassandra.cluster import _NOT_SET
    srv = make_server(frozenset(supported), style)
    w = World(srv)
    case = {'start': start, 'explicit': explicit, 'supported': sorted(supported), 'style': style}
    outcome = None
    err = None
    with w:
        cluster = None
        try:
            if explicit:
                cluster = w.make_cluster(protocol_version=start)
            else:
                cluster = w.make_cluster(protocol_version=_NOT_SET)
                if cluster._protocol_version_explicit:
                    raise HarnessError('default cluster reports an explicit protocol version')
                if cluster.protocol_version != start:
                    cluster.protocol_version = start       # the state earlier downgrades leave behind
            try:
                cluster.connect()
                outcome = 'connected'
            except Runaway as e:
                outcome = 'runaway'
                err = e
            except Exception as e:
                outcome = 'error'
                err = e
        finally:
            negotiated = cluster.protocol_version if cluster is not None else None
            if cluster is not None:
                try:
                    cluster.shutdown()
                except Exception:
                    pass
    # attempts: version of the first handshake frame of every connection, in order; the negotiation ends
    # with the first connection whose STARTUP the node accepted
    firsts = []
    seen = {}
    accepted_at = None
    for vid, op, v in srv.attempts:
        if vid not in seen:
            seen[vid] = len(firsts)
            firsts.append(v)
        if op == 'STARTUP' and v in supported and accepted_at is None:
            accepted_at = seen[vid]
    want, ok = expected(start, explicit, supported)
    tag = 'explicit' if explicit else 'implicit'
    part.count('evaluations')
    part.count('executions')
    part.count('transitions', len(firsts))
    if outcome == 'runaway':
        part.violation('C41/non-termination/%s/%s' % (tag, style), 'more than 30 connections: versions %r; case %r' % (firsts[:12], case), case)
        return
    got = firsts if accepted_at is None else firsts[:accepted_at + 1]
    later = [] if accepted_at is None else firsts[accepted_at + 1:]
    if any(b >= a for a, b in zip(got, got[1:])):
        part.violation('C41/not-strictly-decreasing/%s/%s' % (tag, style), 'attempt versions %r; case %r' % (firsts, case), case)
    elif explicit and len(got) > 1:
        part.violation('C41/explicit-version-retried/%s' % style, 'attempt versions %r; case %r' % (firsts, case), case)
    elif got != want:
        cls = 'beta-version-tried' if any(v == 6 for v in got[1:]) else ('gave-up-early' if len(got) < len(want) else 'wrong-chain')
        part.violation('C41/%s/%s/%s' % (cls, tag, style), 'attempt versions %r, expected %r; outcome %s %r; case %r' % (
            firsts, want, outcome, err, case), case)
    if ok and outcome != 'connected':
        part.violation('C41/no-connection-although-supported/%s/%s' % (tag, style),
                       'version %d is supported and on the chain, connect raised %r after attempts %r; case %r' % (want[-1], err, firsts, case), case)
    if not ok and outcome == 'connected':
        part.violation('C41/connected-with-unsupported-version/%s/%s' % (tag, style), 'attempts %r; case %r' % (firsts, case), case)
    if outcome == 'connected':
        if negotiated != want[-1] and ok:
            part.violation('C41/negotiated-version-wrong/%s/%s' % (tag, style), 'cluster.protocol_version=%r, expected %r; case %r' % (
                negotiated, want[-1], case), case)
        if any(v != negotiated for v in later):
            part.violation('C41/later-connection-other-version/%s/%s' % (tag, style),
                           'after negotiating %r further connections used %r; case %r' % (negotiated, later, case), case)
    part.outcome((tag, style, outcome, tuple(firsts), type(err).__name__))
    if len(want) > 1:
        part.mark_nontrivial(repr((start, tuple(want), ok, style)))
    if len(want) >= 3:
        part.sample({'case': case, 'attempt_versions': firsts, 'outcome': outcome, 'error': repr(err)[:200]}, limit=1)


def run_chunk(item):
    import logging
    logging.getLogger('cassandra').setLevel(logging.CRITICAL + 1)
    from vt import connlib
    connlib.quiet_driver_logs()
    part = Part()
    for start, explicit, mask, style in item:
        supported = [v for i, v in enumerate(KNOWN) if mask >> i & 1]
        run_case(start, explicit, supported, style, part)
    return part


def run(ctx):
    from vt.world import install
    install()
    from cassandra import ProtocolVersion
    if set(ProtocolVersion.SUPPORTED_VERSIONS) != set(KNOWN):
        raise HarnessError('driver knows versions %r, check written for %r' % (ProtocolVersion.SUPPORTED_VERSIONS, KNOWN))
    cases = [(s, e, m, st) for st in STYLES for s in KNOWN for e in (True, False) for m in range(256)]
    cases = ctx.rotate(cases)
    n = max(1, ctx.nproc * 4)
    from vt import connlib
    connlib.before_fork()
    for part in ctx.pmap(run_chunk, [cases[i::n] for i in range(n)]):
        ctx.merge(part)
    ctx.count('states', len(ctx.outcomes))
    ctx.cov['rule'] = ('%d runs = 8 start versions x {explicit, implicit} x 256 supported sets x %d rejection styles %s; states = distinct observed (configuration kind, style, outcome, sequence of attempt versions); transitions = '
                       'connection attempts observed at the node; non-trivial = distinct (start, expected chain, outcome, style) with at '
                       'least one downgrade' % (len(cases), len(STYLES), list(STYLES)))
    ctx.cov['exhaustive'] = True
    ctx.assume('a node rejects an unsupported version at the first frame (OPTIONS) or, in one style, at STARTUP; it never accepts a '
               'version outside its set')
    ctx.assume('implicit configurations with a start version other than the default are the state left by earlier downgrades '
               '(cluster.protocol_version assigned, not explicit)')


def replay(ctx, data):
    from vt.world import install
    install()
    from vt import connlib
    connlib.quiet_driver_logs()
    part = Part()
    run_case(data['start'], data['explicit'], data['supported'], data['style'], part)
    for fp, what, _ in part.violations:
        print(fp, '::', what[:500])
    return bool(part.violations)
