"""C31 Client-side timestamps strictly increase across all threads.

Engine S: 1-3 virtual threads call one shared MonotonicTimestampGenerator; every clock reading is
a data choice from a small domain (standing still, going backwards, jumping far ahead, falling
more than the warning threshold behind, moving by fractions of a microsecond), every source line
of the generator is a scheduling point (so is every re-acquisition of its lock); all executions
with at most `bound` preemptions are enumerated.

The clock is what the driver really reads: a float number of seconds.  The oracle converts a
reading to whole microseconds exactly (fractions.Fraction), not with the driver's arithmetic.
"""
import logging
from fractions import Fraction

from vt import sched, vthreading
from vt.world import vworld          # noqa: F401  installs nothing yet; makes the driver importable
from vt.core import Part, HarnessError

import cassandra.timestamps as ts

META = {
    'level': 'model_checking',
    'engine': 'S',
    'technique': 'stateless schedule exploration (preemption-bounded, line-granular) x exhaustive clock-reading scripts on the real generator',
    'text': 'All executions of a shared default MonotonicTimestampGenerator called by 2 threads x 2 calls (quick: preemption bound 2 for '
            'the whole-microsecond domain, 1 for the others; thorough: bound 2-3, also 3 threads with bound 1-3) and by a single thread x 3-4 calls '
            '(thorough: 4-5), with every clock-reading sequence chosen per call from: whole microseconds {10,11,12} us (standing still / '
            'stepping back); {10,1500000,3000000} us (jump far ahead, then fall back by more than the 1 s warning threshold with the '
            'warning interval elapsed: the "Clock skew detected" branch is taken, and also its rate-limited and below-threshold '
            'variants; the number of executions that emitted the warning is counted and must be > 0; 2 threads and 1 thread x 4 '
            'calls); float seconds with sub-microsecond parts and inexact float products {16.0, 16.0000005, 16.000001, 16.0000015, '
            '16.000002} s (1 thread x 4 calls; the first three values for 2 threads) and the 9 consecutive representable readings '
            'from 1.7e9 s upward (spacing 2^-22 s, about 0.24 us; 1 thread x 3 calls).  Scheduling points at the lock (every '
            'acquisition, also a re-acquisition inside a call) and at every source line of __call__, _next_timestamp and _maybe_warn.  '
            'Oracle: all returned values are distinct ints, each >= the exact floor in microseconds of the float reading taken for '
            'that call, each thread\'s values increasing, and a call that starts after another returned gets a larger value.',
    'note': 'threading.Lock in cassandra.timestamps is replaced by the scheduler-aware VLock; preemption granularity is the '
            'source line (CPython hands the GIL over between bytecodes; a read-modify-write within one line is not split).',
    'design_ref': 'C31',
}

FOCUS = [ts.MonotonicTimestampGenerator.__call__.__code__,
         ts.MonotonicTimestampGenerator._next_timestamp.__code__,
         ts.MonotonicTimestampGenerator._maybe_warn.__code__]


def exact_us(t):
    """Whole microseconds of a float clock reading in seconds, computed exactly (independent of the driver's
    float product `t * 1e6`, which is the correctly rounded value of this exact product and therefore never
    truncates to less than this floor)."""
    return int(Fraction(t) * 1000000 // 1)


EPOCH = 1700000000.0
ULP = 2.0 ** -22        # spacing of floats (seconds) at 1.7e9: about 0.24 us


def clock_values(params):
    """The float-seconds readings of a configuration."""
    unit, dom = params.get('unit', 'us'), params['domain']
    if unit == 'us':
        return [v / 1e6 for v in dom]          # whole microseconds, the product with 1e6 is exact for these
    if unit == 's':
        return [float(v) for v in dom]
    if unit == 'epoch-ulp':
        return [EPOCH + k * ULP for k in dom]  # exact: consecutive representable readings
    raise HarnessError('unknown clock unit %r' % (unit,))


class Clock(object):
    def __init__(self, s, values, readings):
        self.s, self.values, self.readings = s, values, readings

    def time(self):
        t = self.values[self.s.choose(len(self.values), 'clock')]
        me = self.s.current
        self.readings.setdefault(me.tid, []).append(t)
        return t


# wall-clock guard against a real (non-virtual) blocking primitive only; generous because on the shared, heavily
# loaded machine whole processes have been observed to stall for more than 100 s
WATCHDOG = 900.0


class SkewCounter(logging.Handler):
    """Counts the generator's 'Clock skew detected' records (and keeps them off stderr)."""
    def __init__(self):
        logging.Handler.__init__(self)
        self.n = 0

    def emit(self, record):
        if 'Clock skew detected' in record.getMessage():
            self.n += 1


def harness(params, prefix, part):
    s = sched.Scheduler(prefix, focus=FOCUS, horizon=5000)
    readings, results, spans = {}, {}, []
    orig_time, orig_lock = ts.time, ts.Lock
    ts.Lock = vthreading.VLock
    ts.time = Clock(s, clock_values(params), readings)
    skew = SkewCounter()
    lg = logging.getLogger(ts.__name__)
    orig_log = (lg.level, lg.propagate, lg.disabled)
    lg.setLevel(logging.WARNING)
    lg.propagate, lg.disabled = False, False
    lg.addHandler(skew)
    try:
        gen = ts.MonotonicTimestampGenerator()

        def worker(n):
            def body():
                for _ in range(n):
                    start = s.steps
                    v = gen()
                    results.setdefault(s.current.tid, []).append(v)
                    spans.append((start, s.steps, v))
            return body
        for i, n in enumerate(params['calls']):
            s.spawn(worker(n), 't%d' % i)
        s.run(watchdog=WATCHDOG)
    finally:
        ts.time, ts.Lock = orig_time, orig_lock
        lg.removeHandler(skew)
        lg.setLevel(orig_log[0])
        lg.propagate, lg.disabled = orig_log[1], orig_log[2]
    data = {'params': params, 'prefix': s.choices()}
    if s.failure:
        part.violation('C31/%s' % s.failure[0], s.failure[1], data)
        return s
    for t in s.threads:
        if t.exc is not None:
            part.violation('C31/exception/%s' % type(t.exc).__name__, repr(t.exc), data)
            return s
    if skew.n:
        part.count('skew_warning_executions')
    allv = [v for vs in results.values() for v in vs]
    part.outcome((tuple(sorted(allv)), 'warned' if skew.n else ''))
    rd_us = dict((tid, [exact_us(t) for t in rs]) for tid, rs in readings.items())
    if any(type(v) is not int for v in allv):
        part.violation('C31/not-whole-microseconds', 'values %r (readings %r)' % (results, readings), data)
    if len(set(allv)) != len(allv):
        part.violation('C31/duplicate-timestamp', 'values %r (readings %r s = %r us)' % (results, readings, rd_us), data)
    for tid, vs in results.items():
        if any(b <= a for a, b in zip(vs, vs[1:])):
            part.violation('C31/thread-not-increasing', 'thread %d got %r (readings %r s)' % (tid, vs, readings.get(tid)), data)
        for v, r, t in zip(vs, rd_us.get(tid, []), readings.get(tid, [])):
            if v < r:
                part.violation('C31/behind-clock-reading', 'returned %d for reading %r s = %d us' % (v, t, r), data)
    for a in spans:
        for b in spans:
            if a[1] <= b[0] and not b[2] > a[2]:
                part.violation('C31/not-increasing-across-threads', 'call returning %d finished before the call returning %d started'
                               % (a[2], b[2]), data)
    if len(params['calls']) == 1:
        # single thread: non-trivial when some call could not simply return its clock reading
        vs, rs = results.get(0, []), rd_us.get(0, [])
        nontrivial = any(r <= prev for prev, r in zip(vs, rs[1:]))
    else:
        nontrivial = any(p.chosen for p in s.trace if not p.kind.startswith('data'))
    if nontrivial:
        part.mark_nontrivial(repr(s.choices()) + repr(params['calls']) + repr(params.get('unit', 'us')) + repr(params['domain']))
    part.sample({'calls': params['calls'], 'unit': params.get('unit', 'us'), 'domain': params['domain'], 'choices': s.choices(),
                 'values': results}, limit=1)
    return s


FRAC = [16.0, 16.0000005, 16.000001, 16.0000015, 16.000002]


def run(ctx):
    T = ctx.thorough
    cfgs = [('2x2-still-back', {'calls': [2, 2], 'domain': [10, 11, 12]}, 2),
            ('2x2-drift', {'calls': [2, 2], 'domain': [10, 1500000, 3000000]}, 2 if T else 1),
            ('1x%d-frac' % (5 if T else 4), {'calls': [5 if T else 4], 'unit': 's', 'domain': FRAC}, 0),
            ('1x%d-epoch' % (4 if T else 3), {'calls': [4 if T else 3], 'unit': 'epoch-ulp', 'domain': list(range(9))}, 0),
            ('1x4-drift', {'calls': [4], 'domain': [10, 1500000, 3000000]}, 0),
            ('2x2-frac', {'calls': [2, 2], 'unit': 's', 'domain': FRAC[:3]}, 2 if T else 1)]
    if T:
        cfgs += [('3x1', {'calls': [1, 1, 1], 'domain': [10, 11, 12]}, 3),
                 ('3-211', {'calls': [2, 1, 1], 'domain': [10, 12]}, 2),
                 ('3-211-drift', {'calls': [2, 1, 1], 'domain': [1500000, 3000000]}, 1)]
    for name, params, bound in cfgs:
        before = ctx.counters.get('skew_warning_executions', 0)
        sched.explore(ctx, 'c31-' + name, harness, params, bound)
        warned = ctx.counters.get('skew_warning_executions', 0) - before
        ctx.cov['harnesses']['c31-' + name]['skew_warning_executions'] = warned
        if 'drift' in name and not warned:
            raise HarnessError('%s: no execution reached the clock-skew warning branch' % name)
    ctx.count('states', ctx.counters.get('executions', 0))
    ctx.cov['rule'] = ('executions = distinct (schedule, clock script) pairs within the preemption bound; non-trivial = execution with at '
                       'least one non-default scheduling choice (single-thread configurations: at least one call whose reading was not '
                       'ahead of the previously returned value); outcomes = the multiset of values returned + whether the skew warning '
                       'was emitted; skew_warning_executions = executions in which the "Clock skew detected" record was emitted')
    ctx.assume('line-level atomicity of CPython statements (see DESIGN.md 3.1)')
    ctx.assume('the log handler that receives the skew warning does not itself call the generator; a lock released around the '
               'emission is visible because the lines before and after it and the re-acquisition are scheduling points')


def replay(ctx, data):
    part = Part()
    harness(data['params'], data['prefix'], part)
    for fp, what, _ in part.violations:
        print(fp, '::', what)
    return bool(part.violations)
