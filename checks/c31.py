"""C31 Client-side timestamps strictly increase across all threads.

Engine S: 2-3 virtual threads call one shared MonotonicTimestampGenerator; every clock reading is
a data choice from a small domain (standing still, going backwards, jumping far ahead), every
source line of the generator is a scheduling point; all executions with at most `bound`
preemptions are enumerated.
"""
from vt import sched, vthreading
from vt.world import vworld          # noqa: F401  installs nothing yet; makes the driver importable
from vt.core import Part

import cassandra.timestamps as ts

META = {
    'level': 'model_checking',
    'engine': 'S',
    'technique': 'stateless schedule exploration (preemption-bounded, line-granular) x exhaustive clock-reading scripts on the real generator',
    'text': 'All executions of 2 threads x 2 calls (quick: preemption bound 2; thorough: also 3 threads x 1-2 calls, bound 3) of a '
            'shared MonotonicTimestampGenerator, with every clock-reading sequence over {10,11,12} us and over {10,12,3000000} us '
            '(drift-warning branch) chosen per call; scheduling points at the lock and at every source line of __call__, '
            '_next_timestamp and _maybe_warn.  Oracle: all returned values distinct, each >= the reading taken for that call, '
            'each thread\'s values increasing, and a call that starts after another returned gets a larger value.',
    'note': 'threading.Lock in cassandra.timestamps is replaced by the scheduler-aware VLock; preemption granularity is the '
            'source line (CPython hands the GIL over between bytecodes; a read-modify-write within one line is not split).',
    'design_ref': 'C31',
}

FOCUS = [ts.MonotonicTimestampGenerator.__call__.__code__,
         ts.MonotonicTimestampGenerator._next_timestamp.__code__,
         ts.MonotonicTimestampGenerator._maybe_warn.__code__]


class Clock(object):
    def __init__(self, s, domain, readings):
        self.s, self.domain, self.readings = s, domain, readings

    def time(self):
        v = self.domain[self.s.choose(len(self.domain), 'clock')]
        t = v / 1e6
        me = self.s.current
        self.readings.setdefault(me.tid, []).append(int(t * 1e6))
        return t


def harness(params, prefix, part):
    s = sched.Scheduler(prefix, focus=FOCUS, horizon=5000)
    readings, results, spans = {}, {}, []
    orig_time, orig_lock = ts.time, ts.Lock
    ts.Lock = vthreading.VLock
    ts.time = Clock(s, params['domain'], readings)
    try:
        gen = ts.MonotonicTimestampGenerator()

        def worker(n):
            def body():
                for _ in range(n):
                    start = s.steps
                    v = gen()
                    results.setdefault(s.current.tid, []).append(v)
                    spans.append((start, s.steps, v))
            return body
        for i, n in enumerate(params['calls']):
            s.spawn(worker(n), 't%d' % i)
        s.run()
    finally:
        ts.time, ts.Lock = orig_time, orig_lock
    data = {'params': params, 'prefix': s.choices()}
    if s.failure:
        part.violation('C31/%s' % s.failure[0], s.failure[1], data)
        return s
    for t in s.threads:
        if t.exc is not None:
            part.violation('C31/exception/%s' % type(t.exc).__name__, repr(t.exc), data)
            return s
    allv = [v for vs in results.values() for v in vs]
    part.outcome(tuple(sorted(allv)))
    if len(set(allv)) != len(allv):
        part.violation('C31/duplicate-timestamp', 'values %r (readings %r)' % (results, readings), data)
    for tid, vs in results.items():
        if any(b <= a for a, b in zip(vs, vs[1:])):
            part.violation('C31/thread-not-increasing', 'thread %d got %r' % (tid, vs), data)
        for v, r in zip(vs, readings.get(tid, [])):
            if v < r:
                part.violation('C31/behind-clock-reading', 'returned %d for reading %d' % (v, r), data)
    for a in spans:
        for b in spans:
            if a[1] <= b[0] and not b[2] > a[2]:
                part.violation('C31/not-increasing-across-threads', 'call returning %d finished before the call returning %d started'
                               % (a[2], b[2]), data)
    if any(p.chosen for p in s.trace if not p.kind.startswith('data')):
        part.mark_nontrivial(repr(s.choices()) + repr(params['calls']) + repr(params['domain']))
    part.sample({'calls': params['calls'], 'domain': params['domain'], 'choices': s.choices(), 'values': results}, limit=1)
    return s


def run(ctx):
    cfgs = [('2x2-still-back', {'calls': [2, 2], 'domain': [10, 11, 12]}, 2),
            ('2x2-drift', {'calls': [2, 2], 'domain': [10, 12, 3000000]}, 2 if ctx.thorough else 1)]
    if ctx.thorough:
        cfgs += [('3x1', {'calls': [1, 1, 1], 'domain': [10, 11, 12]}, 3),
                 ('3-211', {'calls': [2, 1, 1], 'domain': [10, 12]}, 2)]
    for name, params, bound in cfgs:
        sched.explore(ctx, 'c31-' + name, harness, params, bound)
    ctx.count('states', ctx.counters.get('executions', 0))
    ctx.cov['rule'] = ('executions = distinct (schedule, clock script) pairs within the preemption bound; non-trivial = execution with at '
                       'least one non-default scheduling choice; outcomes = the multiset of values returned')
    ctx.assume('line-level atomicity of CPython statements (see DESIGN.md 3.1)')


def replay(ctx, data):
    part = Part()
    harness(data['params'], data['prefix'], part)
    for fp, what, _ in part.violations:
        print(fp, '::', what)
    return bool(part.violations)
