"""C31 Client-side timestamps strictly increase across all threads.

Engine S: 1-3 virtual threads call one shared MonotonicTimestampGenerator; every clock reading is
a data choice from a small domain (standing still, going backwards, jumping far ahead, falling
more than the warning threshold behind, moving by fractions of a microsecond, sitting at and around
0 us and below), every source line of cassandra/timestamps.py is a scheduling point (so is every
acquisition of a lock, wherever the module creates it); all executions with at most `bound`
preemptions are enumerated.  The generator is new in every execution: its first use is raced.

The clock is what the driver really reads: a float number of seconds.  The oracle converts a
reading to whole microseconds exactly (fractions.Fraction), not with the driver's arithmetic.
"""
import logging
import threading as _real_threading
from fractions import Fraction

from vt import sched, vthreading
from vt.world import vworld          # noqa: F401  installs nothing yet; makes the driver importable
from vt.core import Part, HarnessError

import cassandra.timestamps as ts

META = {
    'level': 'model_checking',
    'engine': 'S',
    'technique': 'stateless schedule exploration (preemption-bounded, line-granular) x exhaustive clock-reading scripts on the real generator',
    'text': 'All executions of a shared default MonotonicTimestampGenerator, created fresh for every execution (so the first use of '
            'the generator is always raced by the threads), called by 2 threads x 2 calls (quick: preemption bound 2 for the two '
            'whole-microsecond domains, 1 for the others; thorough: bound 2-3, also 3 threads with bound 1-3), by 2 threads x 1 call '
            '(first use only; bound 3, thorough 4) and by a single thread x 3-4 calls (thorough: 4-5), with every clock-reading '
            'sequence chosen per call (every value in every position) from: whole microseconds {10,11,12} us (standing still / '
            'stepping back); around the epoch {-1,0,1} us for 2 threads (thorough also {-1,0} us for 3 threads x 1 call) and {-2,-1,0,1,2} us for 1 thread x 4 calls (0 is the '
            'generator\'s initial `last` and also a legitimate reading and returned value; negative readings, readings at and '
            'crossing zero in any order), and the float seconds {-1e-6,-5e-7,0.0,5e-7,1e-6} (1 thread x 4 calls); first use with '
            '{0,10,11} us; {10,1500000,3000000} us (jump far ahead, then fall back by more than the 1 s warning threshold with the '
            'warning interval elapsed: the "Clock skew detected" branch is taken, and also its rate-limited and below-threshold '
            'variants; the number of executions that emitted the warning is counted and must be > 0; 2 threads and 1 thread x 4 '
            'calls); float seconds with sub-microsecond parts and inexact float products {16.0, 16.0000005, 16.000001, 16.0000015, '
            '16.000002} s (1 thread x 4 calls; the first three values for 2 threads) and the 9 consecutive representable readings '
            'from 1.7e9 s upward (spacing 2^-22 s, about 0.24 us; 1 thread x 3 calls).  Scheduling points at every lock operation '
            '(every acquisition, also a re-acquisition inside a call) and at every source line of cassandra/timestamps.py that a '
            'thread executes (whole file, not a list of functions: properties and helpers around the lock are preemptible too).  '
            'Oracle: all returned values are distinct ints, each >= the exact floor in microseconds of the float reading taken for '
            'that call, each thread\'s values increasing, and a call that starts after another returned gets a larger value.',
    'note': 'Every lock of cassandra.timestamps is the scheduler-aware one wherever it is created: the names Lock/RLock/Condition/Event '
            'and a `threading` module reference in the module are replaced for the whole execution (locks made in __init__ or '
            'lazily on first use), lock objects made at import and kept in a module global or class attribute get a fresh virtual '
            'lock per execution; a real threading primitive found on the generator, its class or the module after an execution is a '
            'harness error.  Preemption granularity is the source line (CPython hands the GIL over between bytecodes; a '
            'read-modify-write within one line is not split).',
    'design_ref': 'C31',
}

# every source line of the module that a virtual thread executes is a scheduling point (also code around the
# lock that is not one of today's three methods: properties, helpers, module-level functions)
FOCUS_FILES = (ts.__file__,)
for _f in ('__call__', '_next_timestamp', '_maybe_warn'):
    if getattr(ts.MonotonicTimestampGenerator, _f).__code__.co_filename != ts.__file__:
        raise HarnessError('cassandra.timestamps: %s is not compiled from %r' % (_f, ts.__file__))

VIRTUAL = {'Lock': vthreading.VLock, 'RLock': vthreading.VRLock, 'Condition': vthreading.VCondition,
           'Event': vthreading.VEvent}
_REAL_LOCK, _REAL_RLOCK = type(_real_threading.Lock()), type(_real_threading.RLock())
_REAL_PRIMS = (_REAL_LOCK, _REAL_RLOCK, _real_threading.Condition, _real_threading.Event, _real_threading.Semaphore)


class VThreadingModule(object):
    """Stands in for a `threading` module reference held by cassandra.timestamps: the blocking primitives are
    the virtual ones, everything else is the real module's."""
    def __init__(self, real):
        self._real = real
        for name, v in VIRTUAL.items():
            setattr(self, name, v)

    def __getattr__(self, name):
        return getattr(self._real, name)


def _owners():
    """The module and the classes it defines: the namespaces in which it can keep a lock made at import."""
    return [ts] + [v for v in vars(ts).values() if isinstance(v, type) and v.__module__ == ts.__name__]


def virtualise_locks():
    """Make every lock the module can get hold of a scheduler-aware one, wherever it creates it: the constructors
    it calls at run time (`Lock` etc. imported by name, or through a `threading` module reference: in __init__
    or lazily at any later point) and lock objects it made at import and keeps in a module global or class
    attribute (those get a fresh virtual lock per execution).  Returns the list to undo."""
    undo = []

    def put(owner, name, value):
        undo.append((owner, name, vars(owner)[name]))
        setattr(owner, name, value)
    for name, v in VIRTUAL.items():
        if vars(ts).get(name) is getattr(_real_threading, name):
            put(ts, name, v)
    for name, v in list(vars(ts).items()):
        if v is _real_threading:
            put(ts, name, VThreadingModule(v))
    for owner in _owners():
        for name, v in list(vars(owner).items()):
            if type(v) is _REAL_LOCK:
                put(owner, name, vthreading.VLock())
            elif type(v) is _REAL_RLOCK:
                put(owner, name, vthreading.VRLock())
    return undo


def real_primitives(gen):
    """Names of real (not scheduler-aware) blocking primitives the generator, its class or the module hold."""
    found = []
    for owner in _owners() + [gen]:
        for name, v in list(getattr(owner, '__dict__', {}).items()):
            if isinstance(v, _REAL_PRIMS):
                found.append('%s.%s' % (getattr(owner, '__name__', type(owner).__name__), name))
    return found


def exact_us(t):
    """Whole microseconds of a float clock reading in seconds, computed exactly (independent of the driver's
    float product `t * 1e6`, which is the correctly rounded value of this exact product and therefore never
    truncates to less than this floor)."""
    return int(Fraction(t) * 1000000 // 1)


EPOCH = 1700000000.0
ULP = 2.0 ** -22        # spacing of floats (seconds) at 1.7e9: about 0.24 us


def clock_values(params):
    """The float-seconds readings of a configuration."""
    unit, dom = params.get('unit', 'us'), params['domain']
    if unit == 'us':
        return [v / 1e6 for v in dom]          # whole microseconds, the product with 1e6 is exact for these
    if unit == 's':
        return [float(v) for v in dom]
    if unit == 'epoch-ulp':
        return [EPOCH + k * ULP for k in dom]  # exact: consecutive representable readings
    raise HarnessError('unknown clock unit %r' % (unit,))


class Clock(object):
    def __init__(self, s, values, readings):
        self.s, self.values, self.readings = s, values, readings

    def time(self):
        t = self.values[self.s.choose(len(self.values), 'clock')]
        me = self.s.current
        self.readings.setdefault(me.tid, []).append(t)
        return t


# wall-clock guard against a real (non-virtual) blocking primitive only; generous because on the shared, heavily
# loaded machine whole processes have been observed to stall for more than 100 s
WATCHDOG = 900.0


class SkewCounter(logging.Handler):
    """Counts the generator's 'Clock skew detected' records (and keeps them off stderr)."""
    def __init__(self):
        logging.Handler.__init__(self)
        self.n = 0

    def emit(self, record):
        if 'Clock skew detected' in record.getMessage():
            self.n += 1


def harness(params, prefix, part):
    s = sched.Scheduler(prefix, focus_files=FOCUS_FILES, horizon=5000)
    readings, results, spans = {}, {}, []
    orig_time = ts.time
    undo = virtualise_locks()
    ts.time = Clock(s, clock_values(params), readings)
    skew = SkewCounter()
    lg = logging.getLogger(ts.__name__)
    orig_log = (lg.level, lg.propagate, lg.disabled)
    lg.setLevel(logging.WARNING)
    lg.propagate, lg.disabled = False, False
    lg.addHandler(skew)
    try:
        gen = ts.MonotonicTimestampGenerator()

        def worker(n):
            def body():
                for _ in range(n):
                    start = s.steps
                    v = gen()
                    results.setdefault(s.current.tid, []).append(v)
                    spans.append((start, s.steps, v))
            return body
        for i, n in enumerate(params['calls']):
            s.spawn(worker(n), 't%d' % i)
        s.run(watchdog=WATCHDOG)
        real = real_primitives(gen)
    finally:
        ts.time = orig_time
        for owner, name, value in reversed(undo):
            setattr(owner, name, value)
        lg.removeHandler(skew)
        lg.setLevel(orig_log[0])
        lg.propagate, lg.disabled = orig_log[1], orig_log[2]
    if real:
        raise HarnessError('cassandra.timestamps holds a real threading primitive the scheduler cannot see: %s' % ', '.join(real))
    data = {'params': params, 'prefix': s.choices()}
    if s.failure:
        part.violation('C31/%s' % s.failure[0], s.failure[1], data)
        return s
    for t in s.threads:
        if t.exc is not None:
            part.violation('C31/exception/%s' % type(t.exc).__name__, repr(t.exc), data)
            return s
    if skew.n:
        part.count('skew_warning_executions')
    allv = [v for vs in results.values() for v in vs]
    part.outcome((tuple(sorted(allv)), 'warned' if skew.n else ''))
    rd_us = dict((tid, [exact_us(t) for t in rs]) for tid, rs in readings.items())
    if any(type(v) is not int for v in allv):
        part.violation('C31/not-whole-microseconds', 'values %r (readings %r)' % (results, readings), data)
    if len(set(allv)) != len(allv):
        part.violation('C31/duplicate-timestamp', 'values %r (readings %r s = %r us)' % (results, readings, rd_us), data)
    for tid, vs in results.items():
        if any(b <= a for a, b in zip(vs, vs[1:])):
            part.violation('C31/thread-not-increasing', 'thread %d got %r (readings %r s)' % (tid, vs, readings.get(tid)), data)
        for v, r, t in zip(vs, rd_us.get(tid, []), readings.get(tid, [])):
            if v < r:
                part.violation('C31/behind-clock-reading', 'returned %d for reading %r s = %d us' % (v, t, r), data)
    for a in spans:
        for b in spans:
            if a[1] <= b[0] and not b[2] > a[2]:
                part.violation('C31/not-increasing-across-threads', 'call returning %d finished before the call returning %d started'
                               % (a[2], b[2]), data)
    if len(params['calls']) == 1:
        # single thread: non-trivial when some call could not simply return its clock reading
        vs, rs = results.get(0, []), rd_us.get(0, [])
        nontrivial = any(r <= prev for prev, r in zip(vs, rs[1:]))
    else:
        nontrivial = any(p.chosen for p in s.trace if not p.kind.startswith('data'))
    if nontrivial:
        part.mark_nontrivial(repr(s.choices()) + repr(params['calls']) + repr(params.get('unit', 'us')) + repr(params['domain']))
    part.sample({'calls': params['calls'], 'unit': params.get('unit', 'us'), 'domain': params['domain'], 'choices': s.choices(),
                 'values': results}, limit=1)
    return s


FRAC = [16.0, 16.0000005, 16.000001, 16.0000015, 16.000002]
# around the epoch: 0 is both the generator's initial `last` and a legitimate reading / returned timestamp
ZERO = [-2, -1, 0, 1, 2]
ZERO_FRAC = [-0.000001, -0.0000005, 0.0, 0.0000005, 0.000001]


def run(ctx):
    T = ctx.thorough
    cfgs = [('2x2-still-back', {'calls': [2, 2], 'domain': [10, 11, 12]}, 2),
            ('2x2-drift', {'calls': [2, 2], 'domain': [10, 1500000, 3000000]}, 2 if T else 1),
            ('1x%d-frac' % (5 if T else 4), {'calls': [5 if T else 4], 'unit': 's', 'domain': FRAC}, 0),
            ('1x%d-epoch' % (4 if T else 3), {'calls': [4 if T else 3], 'unit': 'epoch-ulp', 'domain': list(range(9))}, 0),
            ('1x4-drift', {'calls': [4], 'domain': [10, 1500000, 3000000]}, 0),
            ('2x2-frac', {'calls': [2, 2], 'unit': 's', 'domain': FRAC[:3]}, 2 if T else 1),
            ('1x%d-zero' % (5 if T else 4), {'calls': [5 if T else 4], 'domain': ZERO}, 0),
            ('1x4-zero-frac', {'calls': [4], 'unit': 's', 'domain': ZERO_FRAC}, 0),
            ('2x2-zero', {'calls': [2, 2], 'domain': ZERO[1:4]}, 2),
            ('2x1-first-use', {'calls': [1, 1], 'domain': [0, 10, 11]}, 4 if T else 3)]
    if T:
        cfgs += [('3x1', {'calls': [1, 1, 1], 'domain': [10, 11, 12]}, 3),
                 ('3-211', {'calls': [2, 1, 1], 'domain': [10, 12]}, 2),
                 ('3-211-drift', {'calls': [2, 1, 1], 'domain': [1500000, 3000000]}, 1),
                 ('3x1-zero', {'calls': [1, 1, 1], 'domain': ZERO[1:3]}, 3)]
    for name, params, bound in cfgs:
        before = ctx.counters.get('skew_warning_executions', 0)
        sched.explore(ctx, 'c31-' + name, harness, params, bound)
        warned = ctx.counters.get('skew_warning_executions', 0) - before
        ctx.cov['harnesses']['c31-' + name]['skew_warning_executions'] = warned
        if 'drift' in name and not warned:
            raise HarnessError('%s: no execution reached the clock-skew warning branch' % name)
    ctx.count('states', ctx.counters.get('executions', 0))
    ctx.cov['rule'] = ('executions = distinct (schedule, clock script) pairs within the preemption bound; non-trivial = execution with at '
                       'least one non-default scheduling choice (single-thread configurations: at least one call whose reading was not '
                       'ahead of the previously returned value); outcomes = the multiset of values returned + whether the skew warning '
                       'was emitted; skew_warning_executions = executions in which the "Clock skew detected" record was emitted')
    ctx.assume('line-level atomicity of CPython statements (see DESIGN.md 3.1)')
    ctx.assume('the log handler that receives the skew warning does not itself call the generator; a lock released around the '
               'emission is visible because the lines before and after it and the re-acquisition are scheduling points')


def replay(ctx, data):
    part = Part()
    harness(data['params'], data['prefix'], part)
    for fp, what, _ in part.violations:
        print(fp, '::', what)
    return bool(part.violations)
