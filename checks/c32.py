"""C32 Concurrent execution returns one ordered result per statement.

Engine S: the real execute_concurrent / generator variant / execute_concurrent_async run in a
virtual client thread over a stub session whose execute_async builds REAL ResponseFuture objects
and, per statement, raises synchronously, completes before returning (ok / error) or completes
later from a virtual completer thread (ok / error); a completion may also be a first page with more pages, which
the consumer pages on as soon as it holds the result while a pager thread delivers the next page.  Behaviour vectors, concurrency levels,
fail-fast and variants are enumerated completely; schedules up to the preemption bound.
The stub keeps a log (thread, event, statement) of failures / execute_async entries / finished
completions; from it the oracle derives which failures can be 'the first' and fail-fast must
raise one of those (exactly one when the failures are ordered, e.g. all in the caller's thread).
"""
import itertools

from vt import sched, vthreading
from vt.world import vworld     # noqa: F401  (imports the driver with the reactor stub)
from vt.core import Part

import cassandra.concurrent as cc
import cassandra.cluster as cl
from cassandra.cluster import ResponseFuture

META = {
    'level': 'model_checking',
    'engine': 'S',
    'technique': 'stateless schedule exploration (preemption-bounded, line-granular) over exhaustive behaviour vectors, on the real concurrent executors and ResponseFuture callbacks',
    'text': 'n <= 3 statements with every behaviour vector over {raises synchronously, completes before returning ok/error, completes '
            'later from another thread ok/error} (n = 3: concurrency 2; thorough: concurrency 1..3, and n = 4 over a 3-behaviour subset), '
            'plus every vector over the three caller-thread behaviours for n <= 4 (thorough 5); concurrency 1..n, '
            'fail-fast on/off, variants list / generator / async-future; paged statements (the real ResponseFuture with only the '
            'transmission replaced: the first response, before returning or from the completer thread, has more pages; the consumer '
            'calls ResultSet.fetch_next_page on every such result as soon as it is handed it - inside the generator loop, after the '
            'list returned, after the async future completed - and a third thread, the pager, delivers the last page): n <= 2 every '
            'vector over the five behaviours plus the two paged ones with at least one paged statement, concurrency 1..n; n = 3 with '
            'one later-paged statement and the others over {completes before returning ok, later ok, later error} at concurrency '
            '1..2, generator variant, fail-fast on only when a statement fails (thorough: one or two later-paged statements, the '
            'others over all five behaviours, concurrency 1..3, every variant, fail-fast on/off); one client thread and one completer thread (thorough: also two, without paged statements, '
            'for n = 2 and for n = 3 over the subset at concurrency 2); '
            'initial-window layer (more statements than the concurrency level, execute_async raising synchronously at every position - '
            'inside the initial window, at its edge, behind it - between statements that complete later from the completer thread): '
            'n = 3 at concurrency 1 every vector over {raises synchronously, later ok, later error} with a later completion, n = 4 at '
            'concurrency 2 every vector over {raises synchronously, later ok} containing both, each for list / generator / async-future '
            'without fail-fast and the generator with it, preemption bound 1; and with preemption bound 0 (threads switch only where '
            'one blocks or ends, either thread first) every vector containing a synchronous raise and a later completion for n = 4 over '
            '{raises, completes before returning ok, later ok, later error} at concurrency 1..3 with every variant and fail-fast setting, '
            'n = 5 over {raises, later ok, later error} at concurrency 1..4 and n = 6 over {raises, later ok} at concurrency 1..5 '
            '(list / generator / async-future without fail-fast, generator with it) '
            '(thorough: bound 1 for n = 4 over {raises, later ok} at concurrency 1..3, n = 3 being covered at every concurrency by the '
            'first layer; bound 0 for n = 4 over all five behaviours, n = 5 over four, n = 6 over three, n = 7 over two, concurrency 1..n-1), '
            'scheduling points at every line of cassandra/concurrent.py and of ResponseFuture.add_callback(s)/add_errback/'
            'clear_callbacks/_set_final_*; preemption bound 1 (thorough: 2 for n <= 2 with one completer and no paged statement, 1 otherwise; 0 where the initial-window layer says so).  '
            'Oracle: one result per statement at its own position, '
            'the number of outstanding statements (futures execute_async handed out whose response has not arrived yet, counted by the stub '
            'at every hand-out in every execution) never above the concurrency level, fail-fast raises THE FIRST failure: the stub logs every failure, execute_async entry and '
            'returned completion with its thread in the serialised order; a failure is certainly later than another when it follows it '
            'in the same thread, or after that thread came back to the stub; the raised failure must be one with no certainly-earlier '
            'failure (unique when all failures happen in one thread or do not overlap; generator variant: the lowest failed position is '
            'accepted as well, results being consumed in input order); async future completed '
            'exactly once with no InvalidStateError anywhere, no deadlock.',
    'note': 'The stub session only constructs futures and completes them through the real _set_final_result/_set_final_exception; '
            'Condition/Lock/Event are the scheduler-aware virtual primitives.',
    'design_ref': 'C32',
}

BEH = ['raise', 'now_ok', 'now_err', 'later_ok', 'later_err']
# paged statements: the first response says 'more pages'; the consumer pages on (ResultSet.fetch_next_page) as soon as it
# holds the result and the next page is delivered by the pager thread
PAGED = ['now_paged_ok', 'later_paged_ok']
FOCUS = [getattr(ResponseFuture, n).__code__ for n in
         ('add_callback', 'add_errback', 'add_callbacks', 'clear_callbacks', '_set_final_result', '_set_final_exception')]


class StubLBP(object):
    def make_query_plan(self, *a, **k):
        return []


class StubCluster(object):
    _default_load_balancing_policy = StubLBP()
    connection_class = None


class Boom(Exception):
    pass


class _Message(object):
    paging_state = None


class PagedFuture(ResponseFuture):
    """The real ResponseFuture; only the transmission of a request is replaced: a next-page request (the real
    start_fetching_next_page ran before) is recorded for the pager thread of the harness."""
    _vidx = None

    def send_request(self, error_no_hosts=True):
        self.session.page_requests.append(self._vidx)
        self.session.note('page', self._vidx)
        return True


class StubSession(object):
    row_factory = staticmethod(lambda names, rows: rows)
    keyspace = None

    def __init__(self, behaviours, s):
        self.cluster = StubCluster()
        self.beh = behaviours
        self.s = s
        self.created = {}          # idx -> future
        self.inflight = 0
        self.peak = 0
        self.errors = {}
        self.log = []              # (virtual thread, 'enter' | 'fail' | 'done' | 'end', idx) in global (serialised) order
        self.page_requests = []    # statements whose next page the consumer asked for, in order
        self.pages_delivered = 0

    def note(self, kind, idx):
        cur = self.s.current
        self.log.append((cur.name if cur is not None else None, kind, idx))

    def submit(self, fn, *a, **k):
        raise RuntimeError('submit not expected')

    def execute_async(self, statement, params=None, timeout=None, execution_profile=None, **kw):
        idx = statement
        b = self.beh[idx]
        self.note('enter', idx)
        if b == 'raise':
            e = self.errors[idx] = Boom('sync %d' % idx)
            self.note('fail', idx)
            raise e
        if b in PAGED:
            f = PagedFuture(self, message=_Message(), query=None, timeout=None)
        else:
            f = ResponseFuture(self, message=None, query=None, timeout=None)
        f._vidx = idx
        self.inflight += 1
        self.peak = max(self.peak, self.inflight)
        self.created[idx] = f
        if b.startswith('now'):
            self.complete(idx)
        return f

    def complete(self, idx):
        f = self.created[idx]
        self.inflight -= 1
        if self.beh[idx].endswith('ok'):
            if self.beh[idx] in PAGED:
                f._paging_state = b'more'          # what _set_result does with a response that has more pages
            f._set_final_result([('row', idx)])
        else:
            e = self.errors[idx] = Boom('async %d' % idx)
            self.note('fail', idx)
            f._set_final_exception(e)

    def deliver_next_page(self, idx):
        """The last page of statement idx arrives (not one of the executor's statements: in-flight is not touched)."""
        f = self.created[idx]
        f._paging_state = None
        self.pages_delivered += 1
        f._set_final_result([('page2', idx)])

    def first_failure_candidates(self):
        """Statements whose failure may count as 'the first' (in completion order).

        Virtual threads run one at a time, so the log is a total order.  Failure i is certainly earlier than
        failure j when it was logged earlier and either both happened in the same thread (program order) or
        i's thread, after i, came back to the stub (entered execute_async for another statement, returned from
        the top-level completion that delivered i, or ended) before j happened: the executor had been handed i
        and had moved on.  A failure with no certainly-earlier failure is a candidate; with one thread, or
        failures that do not overlap, exactly one is left."""
        fl = [(pos, thr, idx) for pos, (thr, kind, idx) in enumerate(self.log) if kind == 'fail']
        cands = []
        for pj, tj, j in fl:
            earlier = False
            for pi, ti, i in fl:
                if pi >= pj:
                    break
                if ti == tj or any(t == ti and k in ('enter', 'done', 'end') for (t, k, _) in self.log[pi + 1:pj]):
                    earlier = True
                    break
            if not earlier:
                cands.append(j)
        return cands


_RealFuture = cc.Future


class CountingFuture(_RealFuture):
    def __init__(self):
        _RealFuture.__init__(self)
        self.sets = []

    def set_result(self, r):
        self.sets.append('result')
        return _RealFuture.set_result(self, r)

    def set_exception(self, e):
        self.sets.append('exception')
        return _RealFuture.set_exception(self, e)


def _gc_outside(fn):
    """Like sched.gc_quiet (no cyclic collection inside an execution: a collection that starts in a virtual thread while
    the line tracer is active has been seen to stall executions whose statements raise, and would make step counts
    depend on the allocator), but the collection between executions is done every 64th execution only: a full
    gc.collect() after each of these ~2 ms executions cost 45% extra."""
    import functools
    import gc
    calls = [0]

    @functools.wraps(fn)
    def wrapper(*a, **kw):
        was = gc.isenabled()
        gc.disable()
        try:
            return fn(*a, **kw)
        finally:
            calls[0] += 1
            if calls[0] % 64 == 0:
                gc.collect()
            if was:
                gc.enable()
    return wrapper


@_gc_outside
def harness(params, prefix, part):
    beh, conc, ff, variant, ncompleters = params['beh'], params['conc'], params['ff'], params['variant'], params.get('completers', 1)
    s = sched.Scheduler(prefix, focus=FOCUS, focus_files=('cassandra/concurrent.py',), horizon=8000)
    sess = StubSession(beh, s)
    out = {}
    saved = (cc.Condition, cl.Lock, cl.Event, cc.Future)
    cc.Condition, cl.Lock, cl.Event, cc.Future = vthreading.VCondition, vthreading.VLock, vthreading.VEvent, CountingFuture
    try:
        stmts = [(i, None) for i in range(len(beh))]

        paged = [i for i, b in enumerate(beh) if b in PAGED]

        def consume(r):
            """What an application does with a result it has been handed: a result set with more pages is paged on at
            once (the real ResultSet.fetch_next_page -> start_fetching_next_page -> result())."""
            if not paged or not r[0]:
                return
            rs = r[1]
            out.setdefault('seen', []).append((rs.response_future._vidx, list(rs.current_rows)))
            if rs.has_more_pages:
                rs.fetch_next_page()

        def client():
            try:
                if variant == 'list':
                    res = cc.execute_concurrent(sess, stmts, concurrency=conc, raise_on_first_error=ff)
                    for r in res:
                        consume(r)
                    out['res'] = res
                elif variant == 'gen':
                    res = []
                    for r in cc.execute_concurrent(sess, stmts, concurrency=conc, raise_on_first_error=ff, results_generator=True):
                        res.append(r)
                        consume(r)
                    out['res'] = res
                else:
                    fut = cc.execute_concurrent_async(sess, stmts, concurrency=conc, raise_on_first_error=ff)
                    out['fut'] = fut
                    if paged:
                        # the application waits for the future and pages on
                        s.block(fut.done, None, 'async future done')
                        if fut.exception() is None:
                            for r in fut.result():
                                consume(r)
            except Boom as e:
                out['raised'] = e
            except BaseException as e:
                if isinstance(e, sched.Abort):
                    raise
                out['escaped'] = e
            out['client_done'] = True
            sess.note('end', None)

        def pager():
            # delivers the next (last) page of every statement the consumer asked a page of, in the order of the requests
            served = 0
            while True:
                s.block(lambda: len(sess.page_requests) > served or 'client_done' in out, None, 'a next-page request')
                if len(sess.page_requests) <= served:
                    break
                i = sess.page_requests[served]
                served += 1
                try:
                    sess.deliver_next_page(i)
                except BaseException as e:
                    if isinstance(e, sched.Abort):
                        raise
                    out.setdefault('completer_exc', []).append(e)
            sess.note('end', None)

        later = [i for i, b in enumerate(beh) if b.startswith('later')]

        def completer(mine):
            def body():
                for i in mine:
                    if i not in sess.created:
                        s.block(lambda: i in sess.created or out.get('raised') is not None or 'res' in out or 'escaped' in out or 'fut' in out,
                                None, 'statement %d submitted' % i)
                    if i in sess.created:
                        try:
                            sess.complete(i)
                        except Boom:
                            raise
                        except BaseException as e:
                            if isinstance(e, sched.Abort):
                                raise
                            out.setdefault('completer_exc', []).append(e)
                        sess.note('done', i)
                sess.note('end', None)
            return body
        s.spawn(client, 'client')
        if later:
            if ncompleters == 1:
                s.spawn(completer(later), 'completer')
            else:
                s.spawn(completer(later[0::2]), 'completerA')
                if later[1::2]:
                    s.spawn(completer(later[1::2]), 'completerB')
        if paged:
            # not runnable before there is something to deliver (a thread that only starts in order to wait adds nothing)
            s.spawn(pager, 'pager').waiting = lambda: bool(sess.page_requests) or 'client_done' in out
        s.run()
    finally:
        cc.Condition, cl.Lock, cl.Event, cc.Future = saved
    data = {'params': params, 'prefix': s.choices()}
    n = len(beh)
    fails = [i for i, b in enumerate(beh) if b in ('raise', 'now_err', 'later_err')]
    cls = 'sync' if not [b for b in beh if b.startswith('later')] else 'mixed'
    if sess.peak == conc:
        part.count('peak_reached_concurrency')
    if sess.peak > conc:
        part.violation('C32/concurrency-exceeded/%s' % variant, 'peak in-flight %d > concurrency %d; params %r' % (sess.peak, conc, params), data)
    if s.failure:
        # with fail-fast the client may legitimately return while later statements are never submitted;
        # a completer waiting for a statement that will never be submitted is released by its predicate.
        part.violation('C32/%s/%s/%s' % (s.failure[0], variant, cls), '%s ; params %r' % (s.failure[1], params), data)
        return s
    for t in s.threads:
        if t.exc is not None and not isinstance(t.exc, Boom):
            part.violation('C32/thread-exception/%s/%s/%s' % (variant, type(t.exc).__name__, cls),
                           '%r in %s ; params %r' % (t.exc, t.name, params), data)
    if 'escaped' in out:
        part.violation('C32/escaped/%s/%s/%s' % (variant, type(out['escaped']).__name__, cls),
                       '%r escaped to the caller; params %r' % (out['escaped'], params), data)
    if out.get('completer_exc'):
        e = out['completer_exc'][0]
        part.violation('C32/completing-thread/%s/%s/%s' % (variant, type(e).__name__, cls),
                       '%r raised into the completing thread; params %r' % (e, params), data)

    res, raised = out.get('res'), out.get('raised')
    if variant == 'async' and 'fut' in out:
        fut = out['fut']
        if len(fut.sets) != 1:
            part.violation('C32/future-completions/%s/%s' % (len(fut.sets) if len(fut.sets) < 2 else 'many', cls),
                           'async future completed %r; params %r' % (fut.sets, params), data)
        if fut.done():
            if fut.exception() is not None:
                raised = fut.exception()
            else:
                res = fut.result()
    part.outcome((variant, 'raised' if raised is not None else ('results' if res is not None else 'nothing')))
    if raised is not None:
        if not (ff and fails):
            part.violation('C32/raised-unexpectedly/%s' % variant, '%r raised; params %r' % (raised, params), data)
        elif not any(raised is e for e in sess.errors.values()):
            part.violation('C32/raised-unknown/%s' % variant, '%r is not one of the statements\' failures; params %r' % (raised, params), data)
        else:
            # WHICH failure: the first one.  list / async-future: first in completion order (every failure that is not
            # certainly later than another one is acceptable).  generator: results are consumed in input order, so the
            # first failure the caller meets is the lowest failed position; the first in completion order is accepted too.
            got = [i for i, e in sess.errors.items() if e is raised][0]
            cands = sess.first_failure_candidates()
            allowed = set(cands)
            if variant == 'gen':
                allowed.add(min(sess.errors))
            part.count('first_failure_judged')
            if len(allowed) == 1:
                part.count('first_failure_unique')
            if got not in allowed:
                order = [(t, i) for (t, k, i) in sess.log if k == 'fail']
                part.violation('C32/fail-fast-not-first/%s/%s' % (variant, cls),
                               'raised the failure of statement %d, but the first failure is %s (failures in order (thread, statement): %r); params %r'
                               % (got, ' or '.join(str(c) for c in sorted(allowed)), order, params), data)
    elif res is not None:
        if ff and fails and variant != 'async' or (ff and fails and variant == 'async'):
            # fail fast must raise when some statement failed
            part.violation('C32/fail-fast-not-raised/%s' % variant, 'failures %r but results returned; params %r' % (fails, params), data)
        elif len(res) != n:
            part.violation('C32/result-count/%s/%s' % (variant, cls), '%d results for %d statements: %r; params %r' % (len(res), n, res, params), data)
        else:
            for i, r in enumerate(res):
                ok = beh[i].endswith('ok')
                if beh[i] in PAGED:
                    # iterating a paged result set would page on: judged by the first page the consumer saw
                    good = r[0] is True and r[1].response_future._vidx == i and (i, [('row', i)]) in out.get('seen', [])
                else:
                    good = (r[0] is True and list(r[1]) == [('row', i)]) if ok else (r[0] is False and r[1] is sess.errors.get(i))
                if not good:
                    part.violation('C32/result-position/%s/%s' % (variant, cls),
                                   'position %d holds %r for behaviour %s; params %r' % (i, r, beh[i], params), data)
                    break
    elif variant != 'async' or 'fut' not in out:
        part.violation('C32/no-outcome/%s' % variant, 'neither results nor exception; params %r' % (params,), data)
    if sess.pages_delivered:
        part.count('next_pages_delivered', sess.pages_delivered)
        # the consumer asked for the next page while the thread that delivered the first page was still inside that delivery
        for pos, (thr, kind, idx) in enumerate(sess.log):
            if kind == 'page' and not any(k == 'done' and j == idx for (_, k, j) in sess.log[:pos]) and beh[idx].startswith('later'):
                part.count('paged_on_before_first_page_delivery_returned')
    if any(p.chosen for p in s.trace):
        part.mark_nontrivial(repr((params, s.choices())))
    part.sample({'params': params, 'choices': s.choices(), 'outcome': 'raised' if raised is not None else 'results'}, limit=1)
    return s


SYNC = ['raise', 'now_ok', 'now_err']


def configs(ctx):
    out = []
    seen = set()

    def add(beh, conc, variants=('list', 'gen', 'async'), ffs=(False, True), **extra):
        for ff in ffs:
            for variant in variants:
                key = (tuple(beh), conc, ff, variant, extra.get('completers', 1))
                if key not in seen:
                    seen.add(key)
                    out.append(dict({'beh': list(beh), 'conc': conc, 'ff': ff, 'variant': variant}, **extra))

    sub3 = ['now_ok', 'later_ok', 'later_err']
    for n in (1, 2, 3) + ((4,) if ctx.thorough else ()):
        if n <= 3:
            vecs = list(itertools.product(BEH, repeat=n))
        else:
            vecs = list(itertools.product(sub3, repeat=n))
        for beh in vecs:
            for conc in (range(1, n + 1) if (n <= 2 or ctx.thorough) else (2,)):
                add(beh, conc)
    # everything completes or fails in the caller's thread (one schedule each): the order of the failures is the
    # statement order, so the first failure is unique for every variant
    for n in (3, 4) + ((5,) if ctx.thorough else ()):
        for beh in itertools.product(SYNC, repeat=n):
            for conc in range(1, n + 1):
                add(beh, conc)
    # paged statements (first response has more pages, the consumer pages on, the pager thread delivers the next page)
    for n in (1, 2, 3):
        if n <= 2:
            vecs = [v for v in itertools.product(BEH + PAGED, repeat=n) if set(v) & set(PAGED)]
        elif ctx.thorough:
            vecs = [v for v in itertools.product(BEH + ['later_paged_ok'], repeat=n) if 1 <= v.count('later_paged_ok') <= 2]
        else:
            vecs = [v for v in itertools.product(sub3 + ['later_paged_ok'], repeat=n) if v.count('later_paged_ok') == 1]
        for beh in vecs:
            for conc in (range(1, n + 1) if (n <= 2 or ctx.thorough) else (1, 2)):
                if n <= 2 or ctx.thorough:
                    add(beh, conc)
                else:
                    # list / async-future hand the results out when the run is over: the consumer's paging can only overlap
                    # the last completion, which n <= 2 has; n = 3 in the quick tier: generator only, fail-fast on only
                    # when a statement fails (without a failure the two runs differ in no step)
                    add(beh, conc, variants=('gen',), ffs=(False, True) if 'later_err' in beh else (False,))
    # initial window and its refills: more statements than the concurrency level with execute_async raising synchronously at
    # every position (inside the initial window, at its edge, behind it) between statements that complete later - a failure
    # on submission starts its replacement from inside the launch loop, which must count it
    def window(alphabet, n, concs, bound, need_raise=True):
        for beh in itertools.product(alphabet, repeat=n):
            if any(b.startswith('later') for b in beh) and ('raise' in beh or not need_raise):
                for conc in concs:
                    extra = {'bound': 0} if bound == 0 else {}
                    if bound == 0 and n <= 4:
                        add(beh, conc, **extra)
                    else:
                        # fail-fast list / async-future stop submitting at the first failure: left to the layers above and to n <= 4
                        add(beh, conc, ffs=(False,), **extra)
                        add(beh, conc, variants=('gen',), ffs=(True,), **extra)
    if ctx.thorough:
        window(['raise', 'later_ok'], 4, (1, 2, 3), 1)          # n = 3 at concurrency 1..3: the first layer above
        window(['raise', 'now_ok', 'now_err', 'later_ok', 'later_err'], 4, (1, 2, 3), 0)
        window(['raise', 'now_ok', 'later_ok', 'later_err'], 5, (1, 2, 3, 4), 0)
        window(['raise', 'later_ok', 'later_err'], 6, (1, 2, 3, 4, 5), 0)
        window(['raise', 'later_ok'], 7, (1, 2, 3, 4, 5, 6), 0)
    else:
        window(['raise', 'later_ok', 'later_err'], 3, (1,), 1, need_raise=False)
        window(['raise', 'later_ok'], 4, (2,), 1)
        window(['raise', 'now_ok', 'later_ok', 'later_err'], 4, (1, 2, 3), 0)
        window(['raise', 'later_ok', 'later_err'], 5, (1, 2, 3, 4), 0)
        window(['raise', 'later_ok'], 6, (1, 2, 3, 4, 5), 0)
    if ctx.thorough:
        # two completer threads (bound 1 already yields ~4000 schedules per configuration): n = 2 every vector with two
        # later completions, n = 3 over the 3-behaviour subset at concurrency 2
        out += [dict(c, completers=2) for c in out if sum(1 for b in c['beh'] if b.startswith('later')) >= 2 and
                not set(c['beh']) & set(PAGED) and
                (len(c['beh']) == 2 or (len(c['beh']) == 3 and c['conc'] == 2 and set(c['beh']) <= set(sub3)))]
    return out


def bound_of(ctx, params):
    """Preemption bound of a configuration: quick 1; thorough 2 for n <= 2 statements with one completer (measured:
    1.2 million schedules) and no paged statement (a third thread), 1 for the larger configurations (bound 2 there is ~30 000 schedules per configuration)."""
    if 'bound' in params:
        return params['bound']
    if ctx.thorough and len(params['beh']) <= 2 and params.get('completers', 1) == 1 and not set(params['beh']) & set(PAGED):
        return 2
    return 1


def run(ctx):
    cfgs = ctx.rotate(configs(ctx))
    # one exploration per configuration would fork a pool each; run configurations as first-level data
    ctx.count('configs', len(cfgs))
    work = [(c, bound_of(ctx, c)) for c in cfgs]
    nchunks = ctx.nproc * (2 if ctx.quick else 16)
    parts = ctx.pmap(_explore_cfg_chunk, [work[i::nchunks] for i in range(nchunks) if work[i::nchunks]])
    for part in parts:
        ctx.merge(part)
    ctx.count('states', ctx.counters.get('executions', 0))
    ctx.cov['preemption_bound'] = max(b for _, b in work)
    ctx.cov['preemption_bound_by_size'] = {'n<=2, one completer, not paged': bound_of(ctx, {'beh': ['now_ok']}), 'larger or paged': 1,
                                           'initial-window layer, larger n / wider alphabet': 0}
    ctx.count('configs_preemption_bound_0', sum(1 for _, b in work if b == 0))
    ctx.count('configs_sync_raise_in_initial_window_then_later',
              sum(1 for c in cfgs if len(c['beh']) > c['conc'] and 'raise' in c['beh'][:c['conc']] and
                  any(b.startswith('later') for b in c['beh'])))
    ctx.count('configs_with_paged_statement', sum(1 for c in cfgs if set(c['beh']) & set(PAGED)))
    ctx.cov['rule'] = ('every configuration (behaviour vector, concurrency, fail-fast, variant) x every schedule within the preemption '
                       'bound of the configuration (0 for configs_preemption_bound_0 of them: both start orders, switches only where a thread '
                       'blocks or ends); configs_sync_raise_in_initial_window_then_later = configurations with more statements than the '
                       'concurrency level, a statement among the first `concurrency` whose execute_async raises and one completing later; '
                       'peak_reached_concurrency = executions in which as many statements as allowed were outstanding at once; non-trivial = execution with a non-default scheduling choice; first_failure_judged = fail-fast executions whose '
                       'raised failure was compared with the admissible first failures, first_failure_unique = those with exactly one admissible; '
                       'next_pages_delivered = next pages the consumer fetched and the pager thread delivered, '
                       'paged_on_before_first_page_delivery_returned = page requests made while the completer thread was still inside '
                       'the delivery of that statement\'s first page')
    ctx.cov['exhaustive'] = True


def _explore_cfg_chunk(work):
    part = Part()
    for params, bound in work:
        frontier = [[]]
        while frontier:
            nxt = []
            for prefix in frontier:
                s = harness(params, prefix, part)
                part.count('executions')
                part.count('transitions', s.steps)
                nxt.extend(k for k, _ in sched.children(s.trace, len(prefix), bound))
            frontier = nxt
    return part


def replay(ctx, data):
    part = Part()
    harness(data['params'], data['prefix'], part)
    for fp, what, _ in part.violations:
        print(fp, '::', what)
    return bool(part.violations)
