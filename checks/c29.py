"""C29 Simple-statement parameters are injection-safe and value-preserving.

Engine N: a finite catalogue of parameter values (every type in Encoder.mapping, a one-line subclass
of each, hostile strings, boundary numbers, nested collections) is substituted by
cassandra.query.bind_params (positional and named, in a query that contains '%%').  The resulting
statement is lexed by the independent vt.spec.cqllex: it must consist of the template's tokens with
exactly one literal term in the parameter's place, and that term, interpreted for the CQL type the
encoder targets, must encode (by small encoders written here from the protocol spec) to the bytes
cassandra.cqltypes.<T>.serialize produces for the same python value, i.e. what a prepared statement
would send.
"""
import collections
import datetime
import enum
import ipaddress
import itertools
import re
import socket
import struct
import uuid
from decimal import Decimal

from vt.core import Part, HarnessError
from vt.spec import cqllex

META = {
    'level': 'exploration',
    'engine': 'N',
    'technique': 'bounded-exhaustive value catalogue, substituted statement re-read by an independent CQL lexer/term parser',
    'text': 'Values: all concatenations of <=2 (quick) / <=3 (thorough) atoms from 18 hostile string atoms; boundary ints, bools, '
            'floats (NaN, +-inf, +-0.0, denormal, 1e16...), Decimals (>17 digits, large exponents), bytes/bytearray/memoryview, UUIDs '
            '(digit- and exponent-looking), naive and aware datetimes, dates, datetime.time, util.Time/Date, IPv4/IPv6, None, geo types; '
            'a one-line subclass of every subclassable type in Encoder.mapping plus namedtuple, defaultdict, IntEnum and (str, Enum); '
            'every container kind of the mapping over a 16-leaf pool with 0, 1 and 2 elements, nested to container depth 2 (quick) / 3 '
            '(thorough).  Each value is bound positionally and by name into an UPDATE that also contains %%.  Oracle: the bound text '
            'lexes to template-prefix tokens + exactly one literal term + template-suffix tokens, and the term read for the '
            'targeted CQL type has the encoding cqltypes.<T>.serialize gives for the python value (collections structurally).',
    'note': 'Trusted: vt/spec/cqllex.py and the leaf encoders in this file (stdlib only).  The prepared-path side is the driver\'s own '
            'cqltypes serializers (their correctness is C01/C02).  Decimals are compared numerically (scale is not demanded).',
    'design_ref': 'C29',
}

POS_QUERY = "UPDATE ks.t SET v = %s, note = '100%%' WHERE k = %s"
NAMED_QUERY = "UPDATE ks.t SET v = %(v)s, note = '100%%' WHERE k = %(k)s"
PREFIX = "UPDATE ks.t SET v = "
SUFFIX = ", note = '100%' WHERE k = 7"

ATOMS = ["'", "''", ";", "--", "/*", "*/", "\\", "%", "%s", "%(v)s", "é", "\U0001F600", "\x00", "a", "$$", '"', " ", "\n"]


# ------------------------------------------------------------------------------------------ independent leaf encoders
def varint(n):
    length = (n.bit_length() + 8) // 8 if n >= 0 else ((-n - 1).bit_length() + 8) // 8
    return n.to_bytes(max(1, length), 'big', signed=True)


_date_re = re.compile(r'^(-?\d+)-(\d+)-(\d+)$')
_time_re = re.compile(r'^(\d+):(\d+):(\d+)(?:\.(\d{1,9}))?$')


def days_from_civil(y, m, d):
    y -= m <= 2
    era = y // 400
    yoe = y - era * 400
    doy = (153 * (m + (-3 if m > 2 else 9)) + 2) // 5 + d - 1
    return era * 146097 + yoe * 365 + yoe // 4 - yoe // 100 + doy - 719468


class Mismatch(Exception):
    pass


def encode_term(kind, t):
    """bytes Cassandra stores when the literal `t` (a cqllex value) is given for a column of CQL type `kind`"""
    if kind == 'boolean':
        if type(t) is bool:
            return b'\x01' if t else b'\x00'
    elif kind == 'varint':
        if type(t) is int:
            return varint(t)
    elif kind == 'double':
        if isinstance(t, cqllex.FloatLit):
            return struct.pack('>d', float(t))
        if type(t) is int:
            return struct.pack('>d', float(t))
    elif kind == 'text':
        if type(t) is str:
            return t.encode('utf-8')
    elif kind == 'blob':
        if type(t) is bytes:
            return t
    elif kind == 'uuid':
        if isinstance(t, uuid.UUID):
            return t.bytes
    elif kind == 'timestamp':
        if type(t) is int and -2 ** 63 <= t < 2 ** 63:
            return struct.pack('>q', t)
    elif kind == 'date':
        if type(t) is int and 0 <= t < 2 ** 32:
            return struct.pack('>I', t)
        if type(t) is str:
            m = _date_re.match(t)
            if m and len(m.group(1).lstrip('-')) >= 4:
                y, mo, d = int(m.group(1)), int(m.group(2)), int(m.group(3))
                if 1 <= mo <= 12 and 1 <= d <= 31:
                    return struct.pack('>I', days_from_civil(y, mo, d) + 2 ** 31)
    elif kind == 'time':
        if type(t) is int and 0 <= t < 86400 * 10 ** 9:
            return struct.pack('>q', t)
        if type(t) is str:
            m = _time_re.match(t)
            if m:
                h, mi, s = int(m.group(1)), int(m.group(2)), int(m.group(3))
                ns = int((m.group(4) or '0').ljust(9, '0'))
                if h < 24 and mi < 60 and s < 60:
                    return struct.pack('>q', ((h * 60 + mi) * 60 + s) * 10 ** 9 + ns)
    elif kind == 'inet':
        if type(t) is str:
            for fam in (socket.AF_INET, socket.AF_INET6):
                try:
                    return socket.inet_pton(fam, t)
                except (OSError, ValueError):
                    pass
    else:
        raise HarnessError('kind %r' % kind)
    raise Mismatch('literal %r is not a %s value' % (t, kind))


def leaf_kind(v):
    import cassandra.util as cu
    if v is None:
        return 'null'
    if isinstance(v, bool):
        return 'boolean'
    if isinstance(v, int):
        return 'varint'
    if isinstance(v, float):
        return 'double'
    if isinstance(v, Decimal):
        return 'decimal'
    if isinstance(v, str):
        return 'text'
    if isinstance(v, (bytes, bytearray, memoryview)):
        return 'blob'
    if isinstance(v, uuid.UUID):
        return 'uuid'
    if isinstance(v, datetime.datetime):
        return 'timestamp'
    if isinstance(v, (datetime.date, cu.Date)):
        return 'date'
    if isinstance(v, (datetime.time, cu.Time)):
        return 'time'
    if isinstance(v, (ipaddress.IPv4Address, ipaddress.IPv6Address)):
        return 'inet'
    if isinstance(v, (cu.Point, cu.LineString, cu.Polygon)):
        return 'geo'
    return None


def container_kind(v):
    import types
    import cassandra.util as cu
    from cassandra.encoder import ValueSequence
    if isinstance(v, ValueSequence):
        return 'in-list'
    if isinstance(v, (list, tuple, types.GeneratorType)):
        return 'list'
    if isinstance(v, (set, frozenset, cu.sortedset)):
        return 'set'
    if isinstance(v, (dict, cu.OrderedMap)):
        return 'map'
    return None


def prepared_bytes(kind, v):
    from cassandra import cqltypes as ct
    T = {'boolean': ct.BooleanType, 'varint': ct.IntegerType, 'double': ct.DoubleType, 'text': ct.UTF8Type, 'blob': ct.BytesType,
         'uuid': ct.UUIDType, 'timestamp': ct.DateType, 'date': ct.SimpleDateType, 'time': ct.TimeType, 'inet': ct.InetAddressType}[kind]
    return bytes(T.serialize(v, 4))


def compare(term, v, path='value'):
    """None if the literal `term` denotes what the prepared path sends for v, else a message"""
    ck = container_kind(v)
    if ck is None:
        kind = leaf_kind(v)
        if kind is None:
            raise HarnessError('no kind for %r' % (v,))
        if kind == 'null':
            return None if term is None else '%s: NULL expected, literal is %r' % (path, term)
        if kind == 'geo':
            return None if type(term) is str and term == str(v) else '%s: literal %r is not the WKT string %r' % (path, term, str(v))
        if kind == 'decimal':
            if isinstance(term, cqllex.FloatLit) and term.text.lstrip('-') not in ('NaN', 'Infinity'):
                got = Decimal(term.text)          # the text, not the float: 1E+400 is a fine decimal
            elif type(term) is int:
                got = Decimal(term)
            else:
                return '%s: literal %r is not a decimal constant' % (path, term)
            return None if got == Decimal(v) else '%s: literal denotes %s, the prepared path sends %s' % (path, got, Decimal(v))
        try:
            want = prepared_bytes(kind, v)
        except Exception as e:
            raise HarnessError('prepared path cannot serialize %r as %s: %r' % (v, kind, e))
        try:
            got = encode_term(kind, term)
        except Mismatch as e:
            return '%s: %s' % (path, e)
        if got != want:
            return '%s: literal %r encodes as %s %s, the prepared path sends %s' % (path, term, kind, got.hex(), want.hex())
        return None
    if ck in ('list', 'in-list'):
        items = list(v)
        if ck == 'list' and type(term) is not list:
            return '%s: a list literal expected, got %r' % (path, term)
        if ck == 'in-list' and type(term) is not tuple:
            return '%s: a (..) value list expected, got %r' % (path, term)
        if len(term) != len(items):
            return '%s: %d elements written for %d' % (path, len(term), len(items))
        for i, (t, x) in enumerate(zip(term, items)):
            r = compare(t, x, '%s[%d]' % (path, i))
            if r:
                return r
        return None
    if ck == 'set':
        items = list(v)
        if isinstance(term, cqllex.EmptyBraces):
            term = cqllex.CqlSet()
        if not isinstance(term, cqllex.CqlSet):
            return '%s: a set literal expected, got %r' % (path, term)
        if len(term) != len(items):
            return '%s: %d elements written for %d' % (path, len(term), len(items))
        left = list(term)
        for x in items:
            for j, t in enumerate(left):
                if compare(t, x, path) is None:
                    del left[j]
                    break
            else:
                return '%s: no element of the literal denotes %r (%s)' % (path, x, compare(left[0], x, path + '{}'))
        return None
    items = list(v.items())
    if isinstance(term, cqllex.EmptyBraces):
        term = cqllex.CqlMap()
    if not isinstance(term, cqllex.CqlMap):
        return '%s: a map literal expected, got %r' % (path, term)
    if len(term) != len(items):
        return '%s: %d entries written for %d' % (path, len(term), len(items))
    left = list(term)
    for k, x in items:
        for j, (tk, tv) in enumerate(left):
            if compare(tk, k, path) is None and compare(tv, x, path) is None:
                del left[j]
                break
        else:
            tk, tv = left[0]
            return '%s: no entry of the literal denotes %r: %r (%s)' % (path, k, x, compare(tk, k, path + '{key}') or compare(tv, x, path + '{value}'))
    return None


# ------------------------------------------------------------------------------------------ value catalogue
class Case(object):
    __slots__ = ('label', 'family', 'make', 'leaves')

    def __init__(self, label, family, make, leaves=()):
        self.label, self.family, self.make, self.leaves = label, family, make, leaves


def const(v):
    return lambda: v


class Color(enum.IntEnum):
    RED = 1


class Name(str, enum.Enum):
    A = "a'b"


class Tint(enum.StrEnum):
    RED = "r'ed"


NT = collections.namedtuple('NT', 'a b')


def subclass_of(t):
    """the one-line subclass `class SubT(T): pass`, registered in this module so that it can be pickled"""
    name = 'Sub' + t.__name__
    if name not in globals():
        try:
            c = type(name, (t,), {'__module__': __name__})
        except TypeError:
            return None
        c.__qualname__ = name
        globals()[name] = c
    return globals()[name]


def _register_subclasses():
    import cassandra.util as cu
    for t in (str, int, float, Decimal, bytes, bytearray, uuid.UUID, datetime.datetime, datetime.date, datetime.time, cu.Time, cu.Date,
              ipaddress.IPv4Address, ipaddress.IPv6Address, cu.Point, list, tuple, set, frozenset, dict):
        subclass_of(t)
    for t in (str, int, bytes):
        subclass_of(subclass_of(t))      # class B(A) with class A(T): two levels below the supported type


SUBCLASS_FAMILIES = ('str-Enum', 'IntEnum', 'namedtuple', 'defaultdict')


def is_subclass_family(f):
    return f.endswith('-subclass') or f in SUBCLASS_FAMILIES


def scalar_cases(ctx_quick):
    import cassandra.util as cu
    out = []

    def add(family, v, label=None):
        out.append(Case(label or '%s %r' % (family, v), family, const(v)))

    nmax = 2 if ctx_quick else 3
    strings = ['']
    for n in range(1, nmax + 1):
        for t in itertools.product(ATOMS, repeat=n):
            strings.append(''.join(t))
    strings += ["x' OR 1=1", "x'; DROP TABLE t; --", "100%", "%%", "it''s", "a\\'b", "null", "NaN", "0x00", "$$a$$"]
    strings = list(dict.fromkeys(strings))
    S = subclass_of(str)
    for s in strings:
        add('str', s)
    for s in ["abc", "x' OR 1=1", "a'b", "", "é", "1", "null", "x'; DROP TABLE t; --", "0x00", "a b"]:
        add('str-subclass', S(s), 'str-subclass %r' % s)
    add('str-Enum', Name.A)
    add('str-Enum', Tint.RED, 'StrEnum %r' % Tint.RED.value)
    S2 = subclass_of(S)
    for s in ["abc", "x' OR 1=1", "a'b", ""]:
        add('str-subclass', S2(s), 'str-subclass-of-subclass %r' % s)

    ints = [0, 1, -1, 127, -128, 2 ** 31 - 1, -2 ** 31, 2 ** 63 - 1, -2 ** 63, 2 ** 64, -2 ** 64, 10 ** 30, -10 ** 30]
    I = subclass_of(int)
    for i in ints:
        add('int', i)
    for i in (0, -1, 2 ** 64):
        add('int-subclass', I(i), 'int-subclass %d' % i)
    add('IntEnum', Color.RED)
    I2 = subclass_of(I)
    for i in (0, -1, 2 ** 64):
        add('int-subclass', I2(i), 'int-subclass-of-subclass %d' % i)
    add('bool', True)
    add('bool', False)

    floats = [float('nan'), float('inf'), float('-inf'), 0.0, -0.0, 1.0, -1.5, 0.1, 1e16, 1e22, 1e-7, 5e-324, 2.2250738585072014e-308,
              1.7976931348623157e308, 123456789.12345678, 1 / 3, 2 ** 53 + 2.0, 1e15, 123456789012345680.0]
    F = subclass_of(float)
    for f in floats:
        add('float', f)
    for f in (0.1, float('nan'), float('inf'), float('-inf'), 1e22, -0.0):
        add('float-subclass', F(f), 'float-subclass %r' % f)

    decs = ['0', '1', '-1', '1.0', '1.10', '0.1', '-0', '0E+3', '1E+30', '1E-30', '1.00000000000000000001', '9007199254740993',
            '123456789012345678901234567890.123456789', '-0.000000000000000000001', '0.30000000000000004', '1E+400', '1E-400',
            '99999999999999999999', '3.14159265358979323846']
    D = subclass_of(Decimal)
    for d in decs:
        add('Decimal', Decimal(d))
    for d in ('0.1', '1.00000000000000000001', '1E+30'):
        add('Decimal-subclass', D(d), 'Decimal-subclass %s' % d)

    blobs = [b'', b'\x00', b'\xff\x00ab', b"'", b"';--", bytes(range(256))]
    B, BA = subclass_of(bytes), subclass_of(bytearray)
    for b in blobs:
        add('bytes', b)
        add('bytearray', bytearray(b))
        out.append(Case('memoryview %r' % b, 'memoryview', (lambda b=b: memoryview(b))))
    for b in (b'', b'ab', b"'"):
        add('bytes-subclass', B(b))
        add('bytearray-subclass', BA(b))
    B2 = subclass_of(B)
    for b in (b'ab', b"'"):
        add('bytes-subclass', B2(b), 'bytes-subclass-of-subclass %r' % b)

    uuids = ['00000000-0000-0000-0000-000000000000', '12345678-1234-5678-1234-567812345678', '1e234567-e89b-12d3-a456-426655440000',
             'ffffffff-ffff-ffff-ffff-ffffffffffff', 'deadbeef-dead-1eef-8ead-beefdeadbeef', '00000000-0000-1000-8080-808080808080',
             '0e000000-0000-4000-8000-000000000000']
    U = subclass_of(uuid.UUID)
    for u in uuids:
        add('UUID', uuid.UUID(u))
    add('UUID-subclass', U(uuids[1]))

    tz1 = datetime.timezone(datetime.timedelta(hours=5, minutes=30))
    tz2 = datetime.timezone(datetime.timedelta(hours=-8))
    dts = [datetime.datetime(1970, 1, 1), datetime.datetime(1969, 12, 31, 23, 59, 59, 999000), datetime.datetime(1969, 12, 31, 23, 59, 59, 999999),
           datetime.datetime(2038, 1, 19, 3, 14, 8), datetime.datetime(1900, 1, 1, 0, 0, 0, 4000), datetime.datetime(1, 1, 1),
           datetime.datetime(9999, 12, 31, 23, 59, 59, 999999), datetime.datetime(2020, 2, 29, 12, 30, 15, 1), datetime.datetime(2020, 2, 29, 12, 30, 15, 500),
           datetime.datetime(2020, 2, 29, 12, 30, 15, 999), datetime.datetime(2242, 3, 16, 12, 56, 32, 123000), datetime.datetime(1600, 6, 1, 1, 2, 3, 456000)]
    for d in dts:
        add('datetime', d)
    for d in (dts[0], dts[7], dts[3]):
        add('datetime-aware', d.replace(tzinfo=tz1))
        add('datetime-aware', d.replace(tzinfo=tz2))
        add('datetime-aware', d.replace(tzinfo=datetime.timezone.utc))
    DT = subclass_of(datetime.datetime)
    add('datetime-subclass', DT(2020, 2, 29, 12, 30, 15, 1000))

    dates = [datetime.date(1970, 1, 1), datetime.date(1969, 12, 31), datetime.date(2000, 2, 29), datetime.date(1000, 1, 1), datetime.date(9999, 12, 31),
             datetime.date(1582, 10, 15), datetime.date(2038, 1, 19)]
    DA = subclass_of(datetime.date)
    for d in dates:
        add('date', d)
    add('date-subclass', DA(2000, 2, 29))

    times = [datetime.time(0, 0, 0), datetime.time(23, 59, 59, 999999), datetime.time(1, 2, 3, 4), datetime.time(12, 0), datetime.time(0, 0, 0, 1)]
    TI = subclass_of(datetime.time)
    for t in times:
        add('time', t)
    add('time-subclass', TI(1, 2, 3, 4))
    for t in (0, 1, 999, 86399999999999, 45296789012345):
        add('Time', cu.Time(t), 'Time %d' % t)
    add('Time', cu.Time('12:34:56.789012345'), 'Time 12:34:56.789012345')
    add('Time-subclass', subclass_of(cu.Time)(1), 'Time-subclass 1')
    for d in (0, -1, 1, -2 ** 31, 2 ** 31 - 1, 19000, -719162, 2932896, 2932897):
        add('Date', cu.Date(d), 'Date %d' % d)
    add('Date', cu.Date(datetime.date(2000, 2, 29)), 'Date 2000-02-29')
    add('Date-subclass', subclass_of(cu.Date)(5), 'Date-subclass 5')

    for a in ('0.0.0.0', '255.255.255.255', '10.1.2.3', '127.0.0.1'):
        add('IPv4Address', ipaddress.IPv4Address(a))
    for a in ('::', '::1', '2001:db8::ff00:42:8329', 'ffff:ffff:ffff:ffff:ffff:ffff:ffff:ffff', '::ffff:1.2.3.4', 'fe80::1'):
        add('IPv6Address', ipaddress.IPv6Address(a))
    add('IPv4Address-subclass', subclass_of(ipaddress.IPv4Address)('10.1.2.3'))
    add('IPv6Address-subclass', subclass_of(ipaddress.IPv6Address)('::1'))
    add('None', None)
    add('geo', cu.Point(1.0, 2.5))
    add('geo', cu.LineString(((1.0, 2.0), (3.0, 4.0))))
    add('geo', cu.Polygon([(0.0, 0.0), (1.0, 0.0), (1.0, 1.0), (0.0, 0.0)]))
    add('geo-subclass', subclass_of(cu.Point)(1.0, 2.5))
    return out


def leaf_pool():
    import cassandra.util as cu
    S = subclass_of(str)
    return [('str', "a'b"), ('str-subclass', S("x' OR 1=1")), ('str', ''), ('int', 1), ('bool', True), ('IntEnum', Color.RED),
            ('float', 0.1), ('float', float('nan')), ('Decimal', Decimal('1.00000000000000000001')), ('bytes', b'\x00\xff'),
            ('UUID', uuid.UUID('1e234567-e89b-12d3-a456-426655440000')), ('None', None), ('datetime', datetime.datetime(2020, 2, 29, 12, 30, 15, 1000)),
            ('date', datetime.date(2020, 2, 29)), ('Time', cu.Time(1)), ('IPv4Address', ipaddress.IPv4Address('1.2.3.4'))]


def hashable(v):
    try:
        hash(v)
        return True
    except TypeError:
        return False


def container_makers():
    """name -> (family, builder(list of items or pairs) -> value, 'seq' | 'set' | 'map')"""
    import cassandra.util as cu
    from cassandra import cqltypes as ct
    from cassandra.encoder import ValueSequence
    L, T, St, FS, Di = subclass_of(list), subclass_of(tuple), subclass_of(set), subclass_of(frozenset), subclass_of(dict)

    def omsk(pairs):
        m = cu.OrderedMapSerializedKey(ct.UTF8Type, 4)
        for k, v in pairs:
            m[k] = v
        return m

    def dd(pairs):
        d = collections.defaultdict(list)
        d.update(pairs)
        return d
    return collections.OrderedDict([
        ('list', ('list', list, 'seq')), ('tuple', ('tuple', tuple, 'seq')), ('generator', ('generator', lambda it: (x for x in list(it)), 'seq')),
        ('ValueSequence', ('ValueSequence', ValueSequence, 'seq')), ('namedtuple', ('namedtuple', lambda it: NT(*it), 'seq2')),
        ('list-subclass', ('list-subclass', L, 'seq')), ('tuple-subclass', ('tuple-subclass', T, 'seq')),
        ('set', ('set', set, 'set')), ('frozenset', ('frozenset', frozenset, 'set')), ('sortedset', ('sortedset', cu.sortedset, 'set')),
        ('set-subclass', ('set-subclass', St, 'set')), ('frozenset-subclass', ('frozenset-subclass', FS, 'set')),
        ('dict', ('dict', dict, 'map')), ('OrderedDict', ('OrderedDict', collections.OrderedDict, 'map')), ('OrderedMap', ('OrderedMap', cu.OrderedMap, 'map')),
        ('OrderedMapSerializedKey', ('OrderedMapSerializedKey', omsk, 'map-textkey')), ('defaultdict', ('defaultdict', dd, 'map')),
        ('dict-subclass', ('dict-subclass', Di, 'map')),
    ])


def contents(shape, pool, pairs2):
    """finite list of (leaf tags, items) for a container shape over `pool` = [(tag, value)]"""
    out = []
    if shape in ('seq', 'set'):
        out.append(((), []))
        for t, v in pool:
            out.append(((t,), [v]))
        for (t1, v1), (t2, v2) in pairs2:
            out.append(((t1, t2), [v1, v2]))
    elif shape == 'seq2':
        for (t1, v1), (t2, v2) in pairs2:
            out.append(((t1, t2), [v1, v2]))
    else:
        out.append(((), []))
        for (t1, k), (t2, v) in itertools.product(pool, pool):
            out.append(((t1, t2), [(k, v)]))
        for (t1, v1), (t2, v2) in pairs2:
            out.append(((t1, t2, t1, t2), [(v1, v2), (v2, v1)]))
    return out


class _Sliced(list):
    """collects every k-th case only (each worker builds just its own slice); labels are made lazily"""
    def __init__(self, sel, count_only):
        list.__init__(self)
        self.sel, self.count_only, self.n = sel, count_only, 0

    def add(self, label, family, make, tags):
        n = self.n
        self.n += 1
        if self.count_only or (self.sel is not None and n % self.sel[1] != self.sel[0]):
            return
        list.append(self, Case(label(), family, make, tags))


def container_cases(depth, sel=None, count_only=False):
    pool = leaf_pool()
    makers = container_makers()
    pairs_all = list(itertools.product(pool, pool))
    out = _Sliced(sel, count_only)

    def ok_for(name, shape, items):
        if name == 'ValueSequence' and not items:
            return False                       # '()' is an IN list, not a term
        if shape == 'set':
            if not all(hashable(x) for x in items) and name != 'sortedset':
                return False
            if len(items) == 2:
                if name == 'sortedset' and type(items[0]) is not type(items[1]):
                    return False
                a, b = items
                if a is b or (a == b and hashable(a)):
                    return False
                if a != a or b != b:           # two NaNs: distinct members, skip the pair
                    return False
        if shape in ('map', 'map-textkey'):
            ks = [k for k, _ in items]
            if name not in ('OrderedMap',) and not all(hashable(k) for k in ks):
                return False
            if shape == 'map-textkey' and not all(type(k) is str for k in ks):
                return False
            if len(ks) == 2 and (ks[0] is ks[1] or ks[0] == ks[1] or ks[0] != ks[0] or ks[1] != ks[1]):
                return False
            if any(k is None for k in ks) and name == 'OrderedMap':
                return True
        return True

    def level(pool_now, pairs_now, d, only_outer=None):
        res = []
        for name, (family, build, shape) in makers.items():
            shp = 'map' if shape == 'map-textkey' else shape
            for tags, items in contents(shp, pool_now, pairs_now):
                if not ok_for(name, shape, items):
                    continue
                res.append((name, family, build, tags, items))
        return res

    # depth 1: containers of leaves (all ordered pairs)
    d1 = level(pool, pairs_all, 1)
    for name, family, build, tags, items in d1:
        out.add((lambda name=name, tags=tags: '%s of %s' % (name, list(tags))), family, (lambda build=build, items=items: build(items)), tags)
    if depth >= 2:
        # inner values: every container kind with 0/1 leaf and a few 2-leaf contents
        few = [(pool[0], pool[3]), (pool[1], pool[0]), (pool[6], pool[8]), (pool[3], pool[3]), (pool[9], pool[11]), (pool[12], pool[13])]
        inner = []
        for name, family, build, tags, items in level(pool, few, 1):
            if name in ('generator',):
                continue
            inner.append(('%s(%s)' % (name, ','.join(tags)), (lambda build=build, items=items: build(items)), tuple(tags) + (family,)))
        inner_pool = [((lab, tags), mk) for lab, mk, tags in inner]
        for name, (family, build, shape) in makers.items():
            for (lab, tags), mk in inner_pool:
                for extra in (None, 0):
                    def make(build=build, mk=mk, shape=shape, extra=extra):
                        x = mk()
                        if shape in ('map', 'map-textkey'):
                            items = [('k', x)] + ([('k2', mk())] if extra is not None else [])
                        elif shape == 'seq2':
                            items = [x, mk()]
                        else:
                            items = [x] + ([1] if extra is not None else [])
                        return build(items)
                    if shape == 'set':
                        try:
                            if not hashable(mk()) and name != 'sortedset':
                                continue
                            if name == 'sortedset' and extra is not None:
                                continue
                        except Exception:
                            continue
                    if shape == 'seq2' and extra is not None:
                        continue
                    out.add((lambda name=name, lab=lab, extra=extra: '%s of %s%s' % (name, lab, ' +1' if extra is not None else '')), family, make, tags)
            if shape in ('map',) and name == 'OrderedMap':
                for (lab, tags), mk in inner_pool:
                    out.add((lambda lab=lab: 'OrderedMap keyed by %s' % lab), family, (lambda build=build, mk=mk: build([(mk(), 1)])), tags)
        if depth >= 3:
            mids = []
            for name, (family, build, shape) in makers.items():
                if name in ('generator', 'namedtuple') or shape == 'set':
                    continue
                for (lab, tags), mk in inner_pool:
                    def mid(build=build, mk=mk, shape=shape):
                        return build([('k', mk())] if shape in ('map', 'map-textkey') else [mk()])
                    mids.append(('%s(%s)' % (name, lab), mid, tuple(tags) + (family,)))
            for name, (family, build, shape) in makers.items():
                if shape == 'set' or shape == 'seq2':
                    continue
                for lab, mid, tags in mids:
                    out.add((lambda name=name, lab=lab: '%s of %s' % (name, lab)), family,
                            (lambda build=build, mid=mid, shape=shape: build([('k', mid())] if shape in ('map', 'map-textkey') else [mid()])), tags)
    return out.n if count_only else out


# ------------------------------------------------------------------------------------------ the check of one case
def bind(site, value):
    from cassandra.query import bind_params
    from cassandra.encoder import Encoder
    enc = Encoder()
    if site == 'positional':
        return bind_params(POS_QUERY, (value, 7), enc)
    if site == 'positional-list':
        return bind_params(POS_QUERY, [value, 7], enc)
    return bind_params(NAMED_QUERY, {'v': value, 'k': 7}, enc)


_PRE = None


def judge(part, case, bad_tags=frozenset(), sites=('positional', 'named')):
    global _PRE
    if _PRE is None:
        _PRE = ([t.key() for t in cqllex.tokens(PREFIX)], [t.key() for t in cqllex.tokens(SUFFIX)])
    pre, suf = _PRE
    import types
    fam = case.family
    parts = (fam,) + tuple(case.leaves)
    culprit = [t for t in parts if t in bad_tags]
    # one input class for every value whose exact type is a subclass of a supported type
    fam_fp = 'subclass' if any(is_subclass_family(t) for t in parts) else (culprit[0] if culprit else fam)
    for site in sites:
        part.count('evaluations')
        data = {'label': case.label, 'site': site}
        try:
            text = bind(site, case.make())
        except Exception as e:
            part.violation('C29/raises/%s' % fam_fp, 'bind_params (%s) raised %r for %s' % (site, e, case.label), data)
            part.outcome((fam, 'raises'))
            continue
        ref = case.make()
        if isinstance(ref, types.GeneratorType):
            ref = list(ref)
        try:
            toks = cqllex.tokens(text)
            keys = [t.key() for t in toks]
            if len(toks) <= len(pre) + len(suf) or keys[:len(pre)] != pre or keys[-len(suf):] != suf:
                raise cqllex.CqlError('the statement no longer has the template\'s tokens around the parameter')
            term = cqllex.parse_term(toks[len(pre):len(toks) - len(suf)])
        except cqllex.CqlError as e:
            part.violation('C29/not-one-term/%s' % fam_fp, '%s bound (%s) gives %r: %s' % (case.label, site, text[:300], e), data)
            part.outcome((fam, 'not-one-term'))
            continue
        msg = compare(term, ref)
        if msg:
            part.violation('C29/value/%s' % fam_fp, '%s bound (%s) gives %r: %s' % (case.label, site, text[:300], msg[:300]), data)
            part.outcome((fam, 'other-value'))
            continue
        part.outcome((fam, 'ok'))
        part.sample({'case': case.label, 'text': text[:200]}, limit=1)
    part.mark_nontrivial(case.label)


def run_chunk(arg):
    which, depth, quick, i, k, bad = arg
    _register_subclasses()
    part = Part()
    for c in container_cases(depth, (i, k)):
        judge(part, c, bad)
    return part


def selftest():
    cqllex.selftest()
    assert varint(0) == b'\x00' and varint(-1) == b'\xff' and varint(128) == b'\x00\x80' and varint(-129) == b'\xff\x7f' and varint(127) == b'\x7f'
    assert encode_term('date', '1970-01-01') == b'\x80\x00\x00\x00' and encode_term('date', 2 ** 31 + 1) == b'\x80\x00\x00\x01'
    assert encode_term('time', '00:00:01.5') == struct.pack('>q', 1500000000)
    assert encode_term('inet', '::1') == b'\x00' * 15 + b'\x01'
    # the judge itself: a correct rendering passes, the classic injections do not
    assert compare(cqllex.read_term("'a''b'"), "a'b") is None
    assert compare(cqllex.read_term("{'a': [1, 2]}"), {'a': [1, 2]}) is None
    assert compare(cqllex.read_term("1.0"), Decimal('1.00000000000000000001'))
    assert compare(cqllex.read_term("'1'"), 1)
    return True


def run(ctx):
    selftest()
    _register_subclasses()
    depth = 2 if ctx.quick else 3
    sc = scalar_cases(ctx.quick)
    # scalars first (in this process): families that fail there explain nested failures containing such a leaf
    part = Part()
    for c in ctx.rotate(sc):
        judge(part, c)
    bad = frozenset(fp.split('/', 2)[2] for fp, _, _ in part.violations)
    ctx.merge(part)
    k = max(1, ctx.nproc)
    ncont = container_cases(depth, count_only=True)
    jobs = [('container', depth, ctx.quick, i, k, bad) for i in range(k)]
    for p in ctx.pmap(run_chunk, ctx.rotate(jobs)):
        ctx.merge(p)
    ctx.cov['cases'] = {'scalar': len(sc), 'container': ncont}
    ctx.cov['rule'] = ('%d scalar values and %d container values (container depth <= %d), each bound positionally and by name; '
                       'non-trivial = every case (each needs quoting, sign/exponent handling or nesting); outcomes are per type family'
                       % (len(sc), ncont, depth))
    ctx.cov['exhaustive'] = True
    ctx.assume('Cassandra reads literals as Lexer.g/Parser.g say; integer constants are accepted for date (unsigned day offset) and '
               'timestamp (ms) columns; string constants for date (yyyy-mm-dd, year >= 4 digits), time (hh:mm:ss[.f{1,9}]), inet')
    ctx.assume('left out (server behaviour not verifiable offline): datetime.date before year 1000 (strftime prints the year unpadded), '
               'tz-aware datetime.time (str() appends the offset), non-finite Decimals (not serializable by the prepared path), '
               'the empty ValueSequence "()"')
    ctx.assume('a decimal literal must denote the same number; its scale may differ (1.10 vs 1.1)')
    ctx.assume('geo types are compared as the WKT text str(value)')


def replay(ctx, d):
    part = Part()
    _register_subclasses()
    for quick in (True, False):
        for c in scalar_cases(quick) + container_cases(2 if quick else 3):
            if c.label == d['label']:
                judge(part, c, sites=(d['site'],))
                for fp, what, _ in part.violations:
                    print(fp, '::', what)
                return bool(part.violations)
    raise HarnessError('case %r not in the catalogue' % d['label'])
