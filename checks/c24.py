"""C24 Reconnection schedules respect their delay bounds and attempt limits.

Engine N: the whole configuration space (delay/base/max x max_attempts) x every jitter script
(randint rebound, all 3^k prefixes then a constant tail) is enumerated; each schedule is read
item by item and compared with an exact rational reference of the documented curve.

A second family puts max_delay close to base_delay (max/base from one ulp above 1 up to 2.35, with the
boundaries 1.15 = upper jitter edge, 1/0.85 = lower jitter edge and 2*0.85 bracketed), where the plateau
max_delay is reached at item 1 or 2 and *both* clamps are live on capped items; there every one of the 31
draws of randint(85, 115) is enumerated, as a constant script and as a single deviating draw at each of the
first k positions.
"""
import itertools
from fractions import Fraction
from itertools import islice

from vt.core import Part

META = {
    'level': 'exploration',
    'engine': 'N',
    'technique': 'bounded-exhaustive enumeration of configurations x jitter scripts vs exact reference curve',
    'text': 'Every (delay/base/max, max_attempts) configuration from a boundary grid, crossed with every '
            'jitter script over {85,100,115} for the first k items and each constant tail, is expanded up '
            'to 2100 items and compared item by item with a rational-arithmetic reference band [85%,115%] of min(base*2^i,max) clamped to [base,max]; the real '
            '_ReconnectionHandler is driven over every finite schedule to count attempts.  A near-ratio family '
            '(5 bases x 15 ratios max/base in (1, 2.35] bracketing 1.15, 1/0.85 and 1.7, so that the capped plateau starts '
            'at item 1 or 2 and sits within one jitter band of base) is crossed with all 31 draws of randint(85,115): '
            'each draw as a constant script (max_attempts None/3/64) and as a single deviating draw at each of the '
            'first k positions over a tail of 100 (max_attempts 3/64); the grid configurations with a finite limit '
            '<= 64 also get the 31 constant scripts.',
    'note': 'Jitter is drawn through cassandra.policies.randint, which the check rebinds.  On the boundary grid '
            'with long schedules only 85/100/115 are enumerated; all 31 draws are enumerated on the near-ratio '
            'family and on the short grid schedules.',
    'design_ref': 'C24',
}

DELAYS = [0, 0.1, 1, 2, 600, 1e308]
ATTEMPTS = [None, 0, 1, 2, 3, 64, 2000]
JIT = (85, 100, 115)
ALL_JIT = tuple(range(85, 116))
# near-ratio family: max_delay within (and just around) one jitter band of base_delay
RATIO_BASES = [0.1, 1, 4, 10, 100]
RATIOS = [None, 1.01, 1.1, 1.125, 1.149, 1.15, 1.151, 1.17, 1.176, 100.0 / 85, 1.177, 1.2, 1.7, 2, 2.35]
RATIO_ATTEMPTS = [None, 3, 64]


def ratio_pairs():
    import math
    out = []
    for a in RATIO_BASES:
        for r in RATIOS:
            b = math.nextafter(float(a), float('inf')) if r is None else a * r
            if b > a and (a, b) not in out:
                out.append((a, b))
    return out


def scripts_for(kind, fam, n, k):
    if kind == 'const':
        return [((), 100)]
    const31 = [((), j) for j in ALL_JIT]
    if fam == 'ratio':
        out = list(const31)
        if n is not None:
            for pos in range(k):
                for j in ALL_JIT:
                    if j != 100:
                        out.append(((100,) * pos + (j,), 100))
        return out
    out = [(p, t) for p in itertools.product(JIT, repeat=k) for t in JIT]
    if n is not None and n <= 64:
        out += [s for s in const31 if s[1] not in JIT]
    return out


class Script(object):
    def __init__(self, prefix, tail):
        self.prefix, self.tail, self.i = prefix, tail, 0

    def __call__(self, a, b):
        assert (a, b) == (85, 115), (a, b)
        v = self.prefix[self.i] if self.i < len(self.prefix) else self.tail
        self.i += 1
        return v

    def at(self, i):
        return self.prefix[i] if i < len(self.prefix) else self.tail


def ref_exp_item(base, mx, i, j):
    """Documented curve: min(base*2^i, max), +-15% jitter, kept within [base, max]."""
    fb, fm = Fraction(base), Fraction(mx)
    e = min(fb * (2 ** i), fm)
    d = e * j / 100
    return min(max(fb, d), fm), e


def close(x, f):
    f = float(f) if f < Fraction(10) ** 400 else float('inf')
    if x == f:
        return True
    return abs(x - f) <= 1e-9 * max(abs(f), 1e-300)


def run_chunk(args):
    k, horizon, configs = args
    import cassandra.policies as pol
    from cassandra.pool import _ReconnectionHandler
    part = Part()
    orig = pol.randint
    try:
        for cfg in configs:
            kind, a, b, n = cfg[:4]
            fam = cfg[4] if len(cfg) > 4 else 'grid'
            fa, fb_ = (Fraction(a), Fraction(b)) if kind == 'exp' else (None, None)
            for prefix, tail in scripts_for(kind, fam, n, k):
                sc = Script(prefix, tail)
                pol.randint = sc
                case = {'kind': kind, 'a': a, 'b': b, 'max_attempts': n, 'jitter_prefix': list(prefix), 'tail': tail,
                        'fam': fam}
                part.count('evaluations')
                part.count('schedules_%s_%s' % (kind, fam))
                try:
                    p = pol.ConstantReconnectionPolicy(a, n) if kind == 'const' else \
                        pol.ExponentialReconnectionPolicy(a, b, n)
                    items = list(islice(iter(p.new_schedule()), horizon + 1))
                except Exception as e:
                    part.violation('C24/%s/raises/%s' % (kind, type(e).__name__),
                                   'schedule raised %r for %r' % (e, case), case)
                    continue
                # length
                want = horizon + 1 if n is None or n > horizon else n
                if len(items) != want:
                    lim = 'none' if n is None else ('zero' if n == 0 else 'n')
                    part.violation('C24/%s/length/max_attempts=%s' % (kind, lim),
                                   'max_attempts=%r yielded %s items (expected %s) for %r' % (
                                       n, '>=%d' % len(items) if len(items) > horizon else len(items), want, case), case)
                # items
                bad = None
                jittered = False
                plateau = None
                for i, x in enumerate(items):
                    if kind == 'const':
                        if x != a:
                            bad = ('value', i, x, a)
                            break
                    else:
                        if plateau is None:
                            lo, e = ref_exp_item(a, b, i, 85)
                            hi, _ = ref_exp_item(a, b, i, 115)
                            mid = ref_exp_item(a, b, i, 100)[0]
                            if e == fb_ or fa == 0:
                                # min(base*2^i, max) no longer changes: the reference band is the same from here on
                                plateau = (lo, hi, e, mid)
                        else:
                            lo, hi, e, mid = plateau
                        if not (a <= x <= b):
                            bad = ('bounds', i, x, (a, b))
                            break
                        # the statement asks for the jitter band, not for a particular use of the draw
                        if not (close(x, lo) or close(x, hi) or lo <= Fraction(x) <= hi):
                            bad = ('curve', i, x, [float(lo) if lo < 10 ** 400 else 'huge',
                                                   float(hi) if hi < 10 ** 400 else 'huge'])
                            break
                        if sc.at(i) != 100 and lo != hi and not close(x, mid):
                            jittered = True
                        if i < 8 and e == fb_ and fb_ != fa:
                            # a capped item on which the scripted draw reaches past one of the two clamps
                            raw = e * sc.at(i) / 100
                            if raw < fa:
                                part.count('capped_items_needing_lower_clamp')
                            elif raw > fb_:
                                part.count('capped_items_needing_upper_clamp')
                if bad:
                    part.violation('C24/%s/item/%s' % (kind, bad[0]),
                                   'item %d is %r, reference %r, for %r' % (bad[1], bad[2], bad[3], case),
                                   dict(case, index=bad[1]))
                part.outcome((kind, len(items) > horizon, tuple(items[:2])))
                if kind == 'exp' and jittered:
                    part.mark_nontrivial(repr((a, b, n, prefix, tail)))
                elif kind == 'const':
                    part.mark_nontrivial(repr((a, n)))
                part.sample({'case': case, 'first_items': items[:5], 'n_items': len(items)}, limit=2)
                # drive the real handler over finite non-empty schedules
                if n is not None and 0 < n <= 64 and all(j == tail for j in prefix):
                    sc2 = Script(prefix, tail)
                    pol.randint = sc2
                    delays = []

                    class Sched(object):
                        def schedule(self, d, fn):
                            delays.append(d)
                            self.fn = fn
                    s = Sched()
                    attempts = [0]

                    class H(_ReconnectionHandler):
                        def try_reconnect(self):
                            attempts[0] += 1
                            raise OSError('down')
                    h = H(s, iter(p.new_schedule()), lambda: None)
                    h.start()
                    steps = 0
                    while getattr(s, 'fn', None) is not None and steps < 200:
                        fn, s.fn = s.fn, None
                        fn()
                        steps += 1
                    part.count('handler_runs')
                    if attempts[0] != n or len(delays) != n:
                        part.violation('C24/handler/attempts', 'handler made %d attempts / %d delays for a schedule of %d' % (
                            attempts[0], len(delays), n), case)
    finally:
        pol.randint = orig
    return part


def run(ctx):
    k = 3 if ctx.quick else 6
    horizon = 2100
    configs = []
    for d in DELAYS:
        for n in ATTEMPTS:
            configs.append(('const', d, None, n))
    for a in DELAYS:
        for b in DELAYS:
            if b < a:
                continue
            for n in ATTEMPTS:
                configs.append(('exp', a, b, n))
    n_grid = len(configs)
    pairs = ratio_pairs()
    for a, b in pairs:
        for n in RATIO_ATTEMPTS:
            configs.append(('exp', a, b, n, 'ratio'))
    configs = ctx.rotate(configs)
    chunks = [(k, horizon, configs[i::ctx.nproc]) for i in range(ctx.nproc)]
    for part in ctx.pmap(run_chunk, [c for c in chunks if c[2]]):
        ctx.merge(part)
    ctx.cov['rule'] = ('configs = %d grid (const: delay x max_attempts; exp: base<=max x max_attempts) + %d near-ratio '
                       '(%d (base,max) pairs with max/base in (1,2.35] x max_attempts in %r); per grid exp config '
                       'every jitter script in {85,100,115}^%d x constant tail (+ the other 28 constant draws when '
                       'max_attempts <= 64); per near-ratio config all 31 constant draws and, for finite limits, a single '
                       'draw j != 100 in 85..115 at each of the first %d positions; up to %d items read per schedule; '
                       'non-trivial = exp case in which some item actually moved off the un-jittered curve, or any const config' % (
                           n_grid, len(configs) - n_grid, len(pairs), RATIO_ATTEMPTS, k, k, horizon + 1))
    ctx.cov['exhaustive'] = True
    ctx.assume('randint is the only randomness in the policies (rebound by the check)')


def replay(ctx, data):
    # re-runs every script of the configuration's family (k = 3 covers the quick tier's positions)
    k = max(3, len(data['jitter_prefix']))
    part = run_chunk((k, 2100, [(data['kind'], data['a'], data['b'], data['max_attempts'], data.get('fam', 'grid'))]))
    for fp, what, _ in part.violations:
        print(fp, '::', what)
    return bool(part.violations)
