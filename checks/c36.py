"""C36 cqlengine column values are stored as the core driver would store them.

Engine N.  Every cqlengine column class x boundary values of its natural python type(s):
`col.to_database(v)`, encoded with the column's CQL type (`col.cql_type.serialize`), must be the
same CQL value as the core driver's encoding of `v` itself (`col.cql_type.serialize(v)`).
Set / map element order is not part of a CQL value, so collection encodings are compared after an
independent structural canonicalisation.  DateTime is judged against the exact integer
millisecond instant computed with timedelta integer arithmetic (naive = UTC; aware datetimes
with fixed offsets, pytz zones and stdlib zoneinfo zones, including both sides of DST changes).
Datetimes that carry a sub-millisecond part (microsecond not a multiple of 1000) have no "exact
millisecond instant"; they are judged by the first half of the statement: the stored integer must
be the one the core encoder (DateType.serialize) stores for the same datetime, on both sides of 1970.
Timezone-aware datetimes (and aware datetime.time objects) are also input values of every other date/time-typed
column (Date, Time) and of collections / tuples / UDT fields of Date, Time and DateTime: every tz case x days x
wall-clock times on both sides of midnight at the distance of every UTC offset used.
"""
import datetime
import decimal
import ipaddress
import struct
import uuid

from vt.core import Part, HarnessError

META = {
    'level': 'exploration',
    'engine': 'N',
    'technique': 'bounded-exhaustive enumeration of column classes x boundary values; differential against the core encoder and an exact-instant reference',
    'text': 'For each of the 40 column specifications (every concrete cqlengine column class, collections with scalar, Date, Time, DateTime '
            'and nested element types, two UDTs) and every boundary value of the natural python type(s) of its CQL type, the bytes the '
            'core driver produces for col.to_database(v) under the column CQL type are compared with the bytes it produces for v '
            'itself (sets/maps compared as unordered after splitting the collection layout independently); scalar encodings are '
            'additionally cross-checked against an independent encoder.  DateTime: every millisecond 0..999 x sub-millisecond part '
            '{0,1,499,500,501,999} us at 12 epochs between year 1 and 9999 (naive, before and after 1970), and boundary milliseconds '
            '(all 1000 in the thorough tier) x the same sub-millisecond parts for aware datetimes in 5 fixed offsets, 2 pytz zones and '
            '2 zoneinfo zones at 13 local moments (both sides of DST transitions, both sides of 1970 incl. moments that change side '
            'through the offset).  Whole-millisecond values are judged against exact integer arithmetic; values with a sub-millisecond '
            'part against the integer the core encoder stores for the same datetime; every value is also converted after validate().  '
            'Timezone-aware datetimes are input values of the Date column too (14 tz cases: fixed offsets +-, pytz, zoneinfo x 10 days incl. '
            'DST changes and both sides of 1970 x 17 wall-clock times on both sides of midnight, at the distance of each UTC offset from '
            'midnight), aware datetime.time objects of the Time column, and both (3 days) are elements of List/Set/Map/Tuple/UDT of '
            'Date, Time and DateTime (singletons and whole per-day lists).',
    'note': 'Values a column\'s validate() rejects or the core encoder rejects are not "valid values" and are counted, not judged. '
            'The textual literal form of the value (Encoder) is C29\'s subject; here the typed encoding is compared.',
    'design_ref': 'C36',
}

PV = 4
EPOCHS = [(1, 1, 1), (100, 6, 15), (1000, 2, 28), (1600, 12, 31), (1700, 3, 1), (1899, 12, 31), (1900, 1, 1),
          (1969, 12, 31), (1970, 1, 1), (2024, 2, 29), (2243, 7, 4), (9999, 12, 31)]
U = [uuid.UUID(int=0), uuid.UUID(int=(1 << 128) - 1), uuid.UUID('12345678-1234-5678-1234-567812345678')]
TU = [uuid.UUID('00000000-0000-1000-8080-808080808080'), uuid.UUID('ffffffff-ffff-1fff-bf7f-7f7f7f7f7f7f'),
      uuid.UUID('e2f8ff50-6f5a-11ee-b962-0242ac120002')]
D = decimal.Decimal
DT0 = datetime.datetime(1970, 1, 1)
DT1 = datetime.datetime(2024, 2, 29, 12, 30, 1)
DT2 = datetime.datetime(1900, 1, 1, 0, 0, 1)
# microseconds inside the millisecond: none, the smallest, around the half, the largest
SUBMS = [0, 1, 499, 500, 501, 999]
# below 2**43 ms from the epoch (about 1691..2248) a double holds the core encoder's `seconds * 1e3 + microsecond / 1e3`
# closely enough that its int() is the exact truncation; beyond, the core result itself is float-rounded
CORE_EXACT_BELOW = 1 << 43
_EPOCH_N = datetime.datetime(1970, 1, 1)
_EPOCH_A = datetime.datetime(1970, 1, 1, tzinfo=datetime.timezone.utc)
_US = datetime.timedelta(microseconds=1)


def micros_of(v):
    """Exact microsecond instant of a datetime (naive = UTC), integer arithmetic of the stdlib only."""
    if v.tzinfo is not None and v.utcoffset() is not None:
        return (v - _EPOCH_A) // _US
    return (v - _EPOCH_N) // _US


# wall-clock times of day for aware datetimes given to date/time-typed columns: on both sides of midnight and at the distance of
# every UTC offset used in tz_cases() from midnight (where the UTC calendar day and the wall-clock day part ways), plus midday
NEAR_MIDNIGHT = [(0, 0, 0, 0), (0, 30, 0, 0), (1, 59, 59, 999999), (4, 0, 0, 0), (5, 29, 59, 0), (5, 30, 0, 0), (8, 0, 0, 0),
                 (11, 59, 59, 999999), (12, 0, 0, 0), (14, 0, 0, 0), (15, 59, 59, 0), (16, 0, 0, 0), (18, 30, 0, 0), (19, 0, 0, 0),
                 (21, 30, 0, 0), (22, 0, 0, 0), (23, 59, 59, 999999)]
# days: both DST changes of the zones in tz_cases(), a summer day, both sides of 1970, a leap day, month/year ends
AWARE_DAYS = [(2024, 3, 10), (2024, 3, 31), (2024, 7, 1), (2024, 11, 3), (2024, 10, 27), (1970, 1, 1), (1969, 12, 31), (2024, 2, 29),
              (2023, 12, 31), (1900, 1, 1)]
AWARE_DAYS_QUICK_COLLECTION = [(2024, 3, 10), (2024, 7, 1), (1970, 1, 1)]


def aware_datetimes(days=None, tz_kinds=None):
    """Timezone-aware datetimes: every tz case x day x wall-clock time near midnight (what cannot be built is left out)."""
    out = []
    for kind, label, mk in tz_cases():
        if tz_kinds is not None and kind not in tz_kinds:
            continue
        for (y, mo, d) in (days or AWARE_DAYS):
            for (h, mi, sec, us) in NEAR_MIDNIGHT:
                try:
                    v = mk(datetime.datetime(y, mo, d, h, mi, sec, us))
                    v.utcoffset()
                except (OverflowError, ValueError):
                    continue
                out.append(v)
    return out


def aware_times():
    """datetime.time objects carrying a tzinfo (fixed offsets): the time-of-day is the wall-clock one."""
    out = []
    for mins in (0, 330, -480, 840, -720):
        tz = datetime.timezone(datetime.timedelta(minutes=mins))
        for (h, mi, sec, us) in NEAR_MIDNIGHT:
            out.append(datetime.time(h, mi, sec, us, tzinfo=tz))
    return out


def scalar_values():
    from cassandra import util
    return {
        'text': ['', 'a', 'h\xe9€\U0001f600', 'x' * 70000, "it's", '\x00'],
        'ascii': ['', 'abc', '\x00\x7f'],
        'blob': [b'', b'\x00', b'\xff\x00\x80', bytearray(b'\x01\x02'), b'z' * 70000],
        'inet': ['0.0.0.0', '255.255.255.255', '::1', '2001:db8::ff00:42:8329', ipaddress.ip_address('10.1.2.3'),
                 ipaddress.ip_address('fe80::1')],
        'int': [0, 1, -1, 2147483647, -2147483648, True],
        'tinyint': [0, 1, -1, 127, -128],
        'smallint': [0, 1, -1, 32767, -32768],
        'bigint': [0, 1, -1, 9223372036854775807, -9223372036854775808],
        'varint': [0, 1, -1, 127, 128, -128, -129, 255, 256, 1 << 63, -(1 << 63) - 1, 1 << 200, -(1 << 200)],
        'boolean': [True, False],
        'float': [0.0, -0.0, 1.5, -1.5, float('inf'), float('-inf'), 3.4028234663852886e+38, 1.401298464324817e-45, 1, 0.1],
        'double': [0.0, -0.0, 1.5, 0.1, float('inf'), float('-inf'), 1.7976931348623157e+308, 5e-324, 1, -7],
        'decimal': [D('0'), D('0.0'), D('-0'), D('0E-10'), D('1'), D('-1'), D('1.0'), D('1.00'), D('0.1'), D('-0.1'),
                    D('1E+30'), D('-1E-30'), D('123456789012345678901234567890.123456789012345678901234567890'),
                    D('1.00000000000000000001'), D('9' * 50), D('1E+2147483647'), 1, -5, 10 ** 30],
        'uuid': U,
        'timeuuid': TU,
        'date': [datetime.date(1970, 1, 1), datetime.date(1969, 12, 31), datetime.date(1, 1, 1), datetime.date(9999, 12, 31),
                 datetime.date(2024, 2, 29), util.Date(0), util.Date(-1), util.Date(-(1 << 31)), util.Date((1 << 31) - 1),
                 util.Date(2932897), datetime.datetime(2024, 2, 29, 23, 59, 59), datetime.datetime(1969, 12, 31, 23, 59, 59, 999999),
                 datetime.datetime(1970, 1, 1, 0, 0, 0), '2024-02-29', '1969-12-31'] + aware_datetimes(),
        'time': [datetime.time(0, 0, 0), datetime.time(23, 59, 59, 999999), datetime.time(1, 2, 3, 4), util.Time(0),
                 util.Time(86399999999999), util.Time(1), '12:34:56.789012345', '00:00:00'] + aware_times(),
        'duration': [util.Duration(0, 0, 0), util.Duration(1, 2, 3), util.Duration(-1, -2, -3),
                     util.Duration(2147483647, 2147483647, 9223372036854775807),
                     util.Duration(-2147483648, -2147483648, -9223372036854775808)],
    }


def column_specs():
    """[(name, make column, values, reference cql scalar type or None)]"""
    from cassandra.cqlengine import columns as c
    from cassandra.cqlengine.usertype import UserType
    sv = scalar_values()

    class addr(UserType):
        street = c.Text()
        zipcode = c.Integer()
        since = c.DateTime()
        tags = c.Set(c.Integer)

    class stay(UserType):
        day = c.Date()
        at = c.Time()
        seen = c.DateTime()
        days = c.List(c.Date)

    # aware datetimes / times as elements of collections, tuples and UDT fields of the date/time-typed columns
    aw = aware_datetimes(days=AWARE_DAYS_QUICK_COLLECTION)
    aw_fixed = aware_datetimes(days=AWARE_DAYS_QUICK_COLLECTION, tz_kinds=('aware-fixed',))
    at = aware_times()
    n = len(NEAR_MIDNIGHT)
    chunks = [aw[i:i + n] for i in range(0, len(aw), n)]           # one tz case x one day per chunk
    specs = [
        ('Text', lambda: c.Text(), sv['text'], 'text'),
        ('Ascii', lambda: c.Ascii(), sv['ascii'], 'ascii'),
        ('Blob', lambda: c.Blob(), sv['blob'], 'blob'),
        ('Inet', lambda: c.Inet(), sv['inet'], 'inet'),
        ('Integer', lambda: c.Integer(), sv['int'], 'int'),
        ('TinyInt', lambda: c.TinyInt(), sv['tinyint'], 'tinyint'),
        ('SmallInt', lambda: c.SmallInt(), sv['smallint'], 'smallint'),
        ('BigInt', lambda: c.BigInt(), sv['bigint'], 'bigint'),
        ('VarInt', lambda: c.VarInt(), sv['varint'], 'varint'),
        ('Counter', lambda: c.Counter(), sv['bigint'], 'counter'),
        ('Boolean', lambda: c.Boolean(), sv['boolean'], 'boolean'),
        ('Float', lambda: c.Float(), sv['float'], 'float'),
        ('Double', lambda: c.Double(), sv['double'], 'double'),
        ('Decimal', lambda: c.Decimal(), sv['decimal'], 'decimal'),
        ('UUID', lambda: c.UUID(), sv['uuid'], 'uuid'),
        ('TimeUUID', lambda: c.TimeUUID(), sv['timeuuid'], 'timeuuid'),
        ('Date', lambda: c.Date(), sv['date'], None),
        ('Time', lambda: c.Time(), sv['time'], None),
        ('Duration', lambda: c.Duration(), sv['duration'], None),
        ('Tuple', lambda: c.Tuple(c.Integer, c.Text, c.DateTime, c.Decimal),
         [(1, 'a', DT1, D('1.50')), (0, '', DT0, D('0')), (-1, None, None, None), (5,), (None, None, DT2, D('1E+3'))], None),
        ('Set', lambda: c.Set(c.Integer), [set(), {0}, {3, 1, 2}, {-1, 2147483647, -2147483648}, set(range(300, 0, -7))], None),
        ('Set<DateTime>', lambda: c.Set(c.DateTime), [{DT0}, {DT1, DT2, DT0}], None),
        ('Set<Text>', lambda: c.Set(c.Text), [{'b', 'a', 'h\xe9'}, {''}], None),
        ('List', lambda: c.List(c.Text), [[], [''], ['b', 'a', 'b'], ['h\xe9'] * 3], None),
        ('List<Decimal>', lambda: c.List(c.Decimal), [[D('1.0'), D('1.00'), D('-0.1')], [D('1E+5')]], None),
        ('List<DateTime>', lambda: c.List(c.DateTime), [[DT1, DT0, DT1]], None),
        ('Map', lambda: c.Map(c.Text, c.Integer), [{}, {'a': 1}, {'b': 2, 'a': 1, '': 0}], None),
        ('Map<DateTime,Date>', lambda: c.Map(c.DateTime, c.Date), [{DT1: datetime.date(2024, 2, 29), DT0: datetime.date(1, 1, 1)}], None),
        ('Map<Text,List>', lambda: c.Map(c.Text, c.List(c.Integer)), [{'a': [1, 2], 'b': []}, {'k': [3]}], None),
        ('List<Tuple>', lambda: c.List(c.Tuple(c.Integer, c.Time)), [[(1, datetime.time(1, 2, 3)), (2, None)]], None),
        ('UserDefinedType', lambda: c.UserDefinedType(addr),
         [addr(street='x', zipcode=1, since=DT1, tags={2, 1}), addr(), addr(street='', zipcode=-1, since=DT0, tags=set())], None),
        ('List<Date>', lambda: c.List(c.Date), [[v] for v in aw] + chunks + [[datetime.date(2024, 2, 29), DT1, '1969-12-31']], None),
        ('Set<Date>', lambda: c.Set(c.Date), [{v} for v in aw_fixed] + [{datetime.date(1, 1, 1), datetime.date(9999, 12, 31)}], None),
        ('Map<Date,Date>', lambda: c.Map(c.Date, c.Date),
         [{v: datetime.date(1970, 1, 1)} for v in aw_fixed] + [{datetime.date(1970, 1, 1): v} for v in aw_fixed], None),
        ('Map<Text,List<Date>>', lambda: c.Map(c.Text, c.List(c.Date)), [{'k': ch, '': []} for ch in chunks], None),
        ('List<Time>', lambda: c.List(c.Time), [[t] for t in at] + [at], None),
        ('List<DateTime>/aware', lambda: c.List(c.DateTime), [[v.replace(microsecond=0)] for v in aw], None),
        ('Set<DateTime>/aware', lambda: c.Set(c.DateTime), [{v.replace(microsecond=0)} for v in aw_fixed], None),
        ('Tuple<Date,Time,DateTime>', lambda: c.Tuple(c.Date, c.Time, c.DateTime),
         [(v, datetime.time(v.hour, v.minute, v.second, v.microsecond, tzinfo=v.tzinfo), v.replace(microsecond=0)) for v in aw_fixed], None),
        ('UserDefinedType<Date>', lambda: c.UserDefinedType(stay),
         [stay(day=v, at=datetime.time(v.hour, v.minute, v.second, v.microsecond, tzinfo=v.tzinfo), seen=v.replace(microsecond=0), days=[v, v])
          for v in aw_fixed] + [stay()], None),
    ]
    return specs


# ---------------------------------------------------------------------------- canonical form
def split_items(b, n_expected=None):
    """[count:int32] then count x [len:int32][bytes] (protocol v3+ collection layout)."""
    (n,) = struct.unpack('>i', b[:4])
    pos, out = 4, []
    for _ in range(n):
        (ln,) = struct.unpack('>i', b[pos:pos + 4])
        pos += 4
        if ln < 0:
            out.append(None)
        else:
            out.append(b[pos:pos + ln])
            pos += ln
    if pos != len(b):
        raise HarnessError('trailing bytes in collection encoding')
    return out


def split_fields(b):
    pos, out = 0, []
    while pos < len(b):
        (ln,) = struct.unpack('>i', b[pos:pos + 4])
        pos += 4
        if ln < 0:
            out.append(None)
        else:
            out.append(b[pos:pos + ln])
            pos += ln
    return out


def canon(col, b):
    """Order-insensitive structural form of an encoded value, following the column tree."""
    cname = type(col).__name__
    if b is None:
        return None
    if cname == 'Set':
        return ('set', tuple(sorted((canon(col.types[0], x) for x in split_items(b)), key=repr)))
    if cname == 'List':
        return ('list', tuple(canon(col.types[0], x) for x in split_items(b)))
    if cname == 'Map':
        it = split_items_pairs(b)
        return ('map', tuple(sorted(((canon(col.types[0], k), canon(col.types[1], v)) for k, v in it), key=repr)))
    if cname == 'Tuple':
        f = split_fields(b)
        return ('tuple', tuple(canon(t, x) for t, x in zip(col.types, f)) + tuple(f[len(col.types):]))
    if cname == 'UserDefinedType':
        f = split_fields(b)
        return ('udt', tuple(canon(t, x) for t, x in zip(col.sub_types, f)))
    return bytes(b)


def split_items_pairs(b):
    (n,) = struct.unpack('>i', b[:4])
    flat = split_items(struct.pack('>i', 2 * n) + b[4:])
    return list(zip(flat[0::2], flat[1::2]))


# ---------------------------------------------------------------------------- generic columns
def run_spec(idx):
    from vt.world import install
    install()
    from vt.spec import minicql
    part = Part()
    name, make, values, ref_type = column_specs()[idx]
    col = make()
    col.set_column_name('c')
    ct = col.cql_type
    for v in values:
        case = {'column': name, 'value': repr(v)[:200], 'spec': idx}
        vclass = type(v).__name__
        if isinstance(v, (datetime.datetime, datetime.time)) and v.utcoffset() is not None:
            vclass += '-aware'
        try:
            vv = col.validate(v)
        except Exception as e:
            part.count('rejected_by_validate')
            part.outcome((name, 'validate-rejects', type(e).__name__))
            continue
        try:
            core = ct.serialize(v, PV)
        except Exception as e:
            part.count('rejected_by_core')
            part.outcome((name, 'core-rejects', type(e).__name__))
            continue
        part.count('evaluations')
        try:
            sent = col.to_database(v)
            enc = ct.serialize(sent, PV) if sent is not None else None
        except Exception as e:
            part.violation('C36/%s/raises/%s' % (name, type(e).__name__),
                           '%s.to_database(%r) or its encoding raised %r although validate() and the core encoder accept the value' % (name, v, e), case)
            continue
        same = enc == core or (enc is not None and canon(col, enc) == canon(col, core))
        if not same:
            part.violation('C36/%s/differs/%s' % (name, vclass),
                           '%s column: to_database(%r) = %r encodes to %s, the core driver encodes the value to %s' % (
                               name, v, sent, enc.hex() if enc is not None else None, core.hex()), case)
        if ref_type is not None:
            try:
                ref = minicql.encode_value(ref_type, v)
            except Exception:
                ref = None
            if ref is not None and enc is not None and same and ref != enc:
                # both driver paths agree with each other but not with the independent encoder: that is
                # C01/C02's subject (or a reference bug), not C36's; make it visible without judging
                part.count('reference_disagrees_with_both')
                part.outcome((name, 'ref-differs', vclass))
        if enc is not None and (sent is not v):
            part.mark_nontrivial('%s|%r' % (name, v))
        part.outcome((name, 'same' if same else 'differs', type(sent).__name__))
        part.sample({'column': name, 'value': repr(v)[:80], 'to_database': repr(sent)[:80], 'encoded': enc}, limit=1)
        # validated value must be stored the same way as the raw one (save() validates first)
        try:
            enc2 = ct.serialize(col.to_database(vv), PV) if vv is not None else None
        except Exception as e:
            part.violation('C36/%s/raises-after-validate/%s' % (name, type(e).__name__),
                           '%s.to_database(validate(%r)) raised %r' % (name, v, e), case)
            continue
        if enc2 != enc and not (enc2 is not None and enc is not None and canon(col, enc2) == canon(col, enc)):
            part.violation('C36/%s/validate-changes-value/%s' % (name, vclass),
                           '%s column: value %r encodes to %r directly but to %r after validate()' % (name, v, enc, enc2), case)
    return part


# ---------------------------------------------------------------------------- DateTime
def tz_cases():
    """[(kind, label, function naive local datetime -> aware datetime)]"""
    import pytz
    import zoneinfo
    out = []
    for mins in (0, 330, -480, 840, -720):
        tz = datetime.timezone(datetime.timedelta(minutes=mins))
        out.append(('aware-fixed', 'UTC%+d' % mins, lambda d, tz=tz: d.replace(tzinfo=tz)))
    for zone in ('US/Eastern', 'Europe/Berlin'):
        z = pytz.timezone(zone)
        out.append(('aware-pytz', zone, lambda d, z=z: z.localize(d, is_dst=True)))
        out.append(('aware-pytz', zone + '/std', lambda d, z=z: z.localize(d, is_dst=False)))
    out.append(('aware-pytz', 'pytz.utc', lambda d: d.replace(tzinfo=pytz.utc)))
    for zone in ('America/New_York', 'Europe/Berlin'):
        z = zoneinfo.ZoneInfo(zone)
        out.append(('aware-zoneinfo', zone, lambda d, z=z: d.replace(tzinfo=z)))
        out.append(('aware-zoneinfo', zone + '/fold', lambda d, z=z: d.replace(tzinfo=z, fold=1)))
    return out


# local wall-clock moments for aware datetimes: winter, summer, and around both DST changes
# and around 1970: local moments that are before / after the epoch only after the offset is applied
AWARE_MOMENTS = [(2024, 1, 15, 12, 0, 0), (2024, 7, 1, 12, 0, 0), (2024, 3, 10, 1, 59, 59), (2024, 3, 10, 3, 0, 0),
                 (2024, 3, 31, 3, 0, 0), (2024, 11, 3, 1, 30, 0), (2024, 10, 27, 2, 30, 0), (1969, 12, 31, 23, 59, 59),
                 (1969, 12, 31, 18, 0, 0), (1970, 1, 1, 3, 0, 0),
                 (1900, 1, 1, 0, 0, 0), (1, 1, 2, 0, 0, 0), (9999, 12, 30, 0, 0, 0)]


def judge_dt(part, col, v, kind, label):
    from vt.spec import minicql
    from cassandra.cqltypes import DateType
    try:
        floor_ms = minicql.millis_of(v)
        micros = micros_of(v)
    except OverflowError:
        part.count('instant_out_of_range')
        return
    if micros // 1000 != floor_ms:
        raise HarnessError('two exact computations of the instant of %r disagree: %d us vs %d ms' % (v, micros, floor_ms))
    part.count('evaluations')
    case = {'kind': kind, 'label': label, 'value': repr(v), 'iso': v.isoformat(), 'fold': getattr(v, 'fold', 0)}
    try:
        got = col.to_database(v)
    except Exception as e:
        part.violation('C36/DateTime/%s/raises/%s' % (kind, type(e).__name__), 'DateTime.to_database(%r) raised %r' % (v, e), case)
        return
    is_int = isinstance(got, int) and not isinstance(got, bool)
    if micros % 1000 == 0:
        # a whole millisecond: the statement names the value, the exact millisecond instant
        want = floor_ms
        if got != want or not is_int:
            diff = got - want if isinstance(got, (int, float)) else None
            size = '1ms' if diff is not None and abs(diff) <= 1 else 'offset'
            part.violation('C36/DateTime/%s/instant-off-by-%s' % (kind, size),
                           'DateTime.to_database(%s) [%s %s] = %r, exact millisecond instant is %d (difference %r ms)' % (
                               v.isoformat(), kind, label, got, want, diff), case)
            part.outcome(('DateTime', kind, 'off-by-' + size))
        else:
            part.outcome(('DateTime', kind, 'exact'))
            if want % 1000:
                part.mark_nontrivial('dt|%s|%s|%d' % (kind, label, want))
    else:
        # a sub-millisecond part: the stored integer must be the one the core encoder stores for this datetime
        part.count('submilli_evaluations')
        (core,) = struct.unpack('>q', DateType.serialize(v, PV))
        trunc = micros // 1000 if micros >= 0 else -(-micros // 1000)      # what the core formula int(s * 1e3 + us / 1e3) denotes
        if core != trunc:
            part.count('submilli_core_encoder_float_rounded')
        ok = is_int and (got == core or (got == trunc and abs(trunc) >= CORE_EXACT_BELOW))
        want = core
        if not ok:
            diff = got - core if isinstance(got, (int, float)) else None
            part.violation('C36/DateTime/%s/sub-millisecond-differs-from-core/%s' % (kind, 'before-1970' if micros < 0 else 'after-1970'),
                           'DateTime.to_database(%s) [%s %s] = %r, the core driver encodes this datetime as %d ms (exact instant %d us; '
                           'difference %r ms)' % (v.isoformat(), kind, label, got, core, micros, diff), case)
            part.outcome(('DateTime', kind, 'sub-ms-differs-from-core'))
        else:
            part.outcome(('DateTime', kind, 'sub-ms-as-core' if got == core else 'sub-ms-truncated-where-core-is-float-rounded'))
            if micros < 0:
                part.mark_nontrivial('dtsub|%s|%s|%d' % (kind, label, micros))
    # save() validates first: the validated value must be stored as the same integer
    try:
        got2 = col.to_database(col.validate(v))
    except Exception as e:
        part.violation('C36/DateTime/%s/raises-after-validate/%s' % (kind, type(e).__name__),
                       'DateTime.to_database(validate(%r)) raised %r' % (v, e), case)
        return
    if got2 != got:
        part.violation('C36/DateTime/%s/validate-changes-value' % kind,
                       'DateTime column: %s is stored as %r directly but as %r after validate()' % (v.isoformat(), got, got2), case)
    part.sample({'column': 'DateTime', 'kind': kind, 'value': v.isoformat(), 'to_database': got, 'expected_ms': want}, limit=1)


def run_datetime(args):
    from vt.world import install
    install()
    from cassandra.cqlengine import columns as c
    from cassandra.cqltypes import DateType
    from vt.spec import minicql
    what, idx, ms_list = args
    part = Part()
    col = c.DateTime()
    col.set_column_name('c')
    if what == 'naive':
        y, mo, d = EPOCHS[idx]
        for (h, mi, s) in ((0, 0, 0), (23, 59, 59)):
            base = datetime.datetime(y, mo, d, h, mi, s)
            for ms in ms_list:
                for sub in SUBMS:
                    v = base.replace(microsecond=ms * 1000 + sub)
                    judge_dt(part, col, v, 'naive', '%04d' % y)
                # the core encoder on the whole-millisecond value, for the record (its exactness is C01/C02's subject)
                v = base.replace(microsecond=ms * 1000)
                if DateType.serialize(v, PV) != struct.pack('>q', minicql.millis_of(v)):
                    part.count('core_encoder_inexact')
        # a date object is midnight UTC of that day
        v = datetime.date(y, mo, d)
        part.count('evaluations')
        got, want = col.to_database(v), minicql.millis_of(v)
        if got != want:
            part.violation('C36/DateTime/date/instant', 'DateTime.to_database(%r) = %r, midnight UTC of that day is %d ms' % (v, got, want),
                           {'kind': 'date', 'value': repr(v), 'iso': v.isoformat()})
        part.outcome(('DateTime', 'date', 'exact' if got == want else 'off'))
    else:
        kind, label, mk = tz_cases()[idx]
        for mom in AWARE_MOMENTS:
            base = datetime.datetime(*mom)
            for ms in ms_list:
                for sub in SUBMS:
                    try:
                        v = mk(base.replace(microsecond=ms * 1000 + sub))
                        v.utcoffset()
                    except (OverflowError, ValueError):
                        part.count('instant_out_of_range')
                        continue
                    except Exception as e:          # pytz NonExistentTimeError / AmbiguousTimeError cannot occur with is_dst given
                        raise HarnessError('cannot build aware datetime %r %r: %r' % (label, mom, e))
                    judge_dt(part, col, v, kind, label)
    return part


def run(ctx):
    from vt.world import install
    install()
    from vt.spec import minicql
    minicql.selftest()
    specs = column_specs()
    names = [s[0] for s in specs]
    ms_all = list(range(1000))
    ms_aware = list(range(0, 1000, 1)) if ctx.thorough else [0, 1, 4, 5, 9, 37, 250, 499, 500, 501, 998, 999]
    jobs = [('spec', i) for i in range(len(specs))]
    jobs += [('naive', i) for i in range(len(EPOCHS))]
    jobs += [('aware', i) for i in range(len(tz_cases()))]
    jobs = ctx.rotate(jobs)

    for part in ctx.pmap(_job, [(j, ms_all, ms_aware) for j in jobs]):
        ctx.merge(part)
    ctx.cov['rule'] = ('column specs: %s; each with the listed boundary values of its natural python types (Date: + %d '
                       'aware datetimes = tz cases x %d days x %d wall-clock times near midnight; '
                       'Time: + %d aware times; collections/tuple/UDT of Date/Time/DateTime: the same family on '
                       '%d days); DateTime naive: %d epochs x 2 times of '
                       'day x ms 0..999 x %d sub-millisecond parts %r us; DateTime aware: %d tz cases x %d local moments x %d ms values x the same '
                       'sub-millisecond parts; an evaluation = one value accepted by both '
                       'validate() and the core encoder; non-trivial = to_database() returned a converted object (not the input itself), or an exact '
                       'DateTime instant with a non-zero millisecond part, or a DateTime with a sub-millisecond part before 1970 (where flooring and '
                       'truncating toward zero differ) stored as the core encoder stores it'
                       % (', '.join(names), len(aware_datetimes()), len(AWARE_DAYS), len(NEAR_MIDNIGHT), len(aware_times()),
                          len(AWARE_DAYS_QUICK_COLLECTION), len(EPOCHS), len(SUBMS), SUBMS, len(tz_cases()), len(AWARE_MOMENTS), len(ms_aware)))
    ctx.cov['exhaustive'] = True
    ctx.assume('a naive datetime means UTC (cqlengine documentation and the core encoder agree); a datetime.date in a DateTime column means midnight UTC')
    ctx.assume('a datetime with a sub-millisecond part has no exact millisecond instant: it is judged only against the integer the core encoder '
               '(DateType.serialize) stores for it.  Within 2**43 ms of 1970 (about 1691..2248) that integer must be matched exactly; further out '
               'the core encoder\'s double arithmetic rounds the sub-millisecond part away (C01/C02\'s subject, counted as '
               'submilli_core_encoder_float_rounded) and either the core result or the exact truncation toward zero, which the core formula denotes, is accepted')
    ctx.assume('DateTime.truncate_microseconds keeps its default (False)')
    ctx.assume('values outside the natural python type of a column (float or str in a Decimal column, str in an Integer column, int day counts '
               'in a Date column, whose meaning differs between cqlengine (days since 1970) and the core encoder (raw unsigned value)) are left out')
    ctx.assume('for a Date column the reference is the core SimpleDateType encoder on the same python value: the calendar day an aware datetime shows '
               '(its wall-clock fields); for a Time column the wall-clock time of day of an aware datetime.time')
    ctx.assume('DateTime elements inside collections/tuples/UDTs use whole-second values so that the DateTime conversion is judged once, by the DateTime cases')
    ctx.assume('set and map element order is not part of the CQL value (Cassandra sorts on write)')


def _job(arg):
    (what, i), ms_all, ms_aware = arg
    if what == 'spec':
        return run_spec(i)
    if what == 'naive':
        return run_datetime(('naive', i, ms_all))
    return run_datetime(('aware', i, ms_aware))


def replay(ctx, data):
    from vt.world import install
    install()
    from cassandra.cqlengine import columns as c
    part = Part()
    if 'spec' in data:
        p = run_spec(data['spec'])
        part = p
    else:
        col = c.DateTime()
        col.set_column_name('c')
        found = False
        if data['kind'] == 'naive':
            v = datetime.datetime.fromisoformat(data['iso'])
            judge_dt(part, col, v, 'naive', data['label'])
            found = True
        elif data['kind'] == 'date':
            p = run_datetime(('naive', [i for i, e in enumerate(EPOCHS) if datetime.date(*e).isoformat() == data['iso']][0], []))
            part = p
            found = True
        else:
            for kind, label, mk in tz_cases():
                if kind == data['kind'] and label == data['label']:
                    naive = datetime.datetime.fromisoformat(data['iso']).replace(tzinfo=None)
                    judge_dt(part, col, mk(naive), kind, label)
                    found = True
        if not found:
            raise HarnessError('cannot rebuild the recorded case %r' % (data,))
    for fp, what, _ in part.violations:
        print(fp, '::', what)
    return bool(part.violations)
