"""C01 Every CQL value survives an encode/decode round trip.

Engine N: every (type tree, boundary value / container shape, protocol version) triple of a finite
grid is pushed through the driver, `T.from_binary(T.to_binary(v, pv), pv)`, and the result is
compared structurally with the original (reference domain of vt.spec.values; floats by bit pattern,
sets irrespective of order, short tuples padded with null).

A second, small layer holds few but large values: the boundary sizes of every width field of the
collection layout (vt.spec.valuegen.width_cases), see META['text'].
"""
from vt.core import Part
from vt.spec import values as V
from vt.spec import valuegen as G
from vt import valbridge as B

META = {
    'level': 'exploration',
    'engine': 'N',
    'technique': 'bounded-exhaustive enumeration of (type tree, boundary value, protocol version) with a structural round-trip oracle',
    'text': 'All 21 scalar types with their boundary values (integer edges around every byte length, varints to 9/20 '
            'bytes, decimals over unscaled x scale edges, NaN/inf/-0.0, empty and non-BMP text, ms-precision timestamps '
            'over years 1..9999, date/time extremes, durations with each component at its int32/int64 and vint-size '
            'edges), every container shape (list, set, map, tuple, UDT, vector, frozen<list>) over every scalar, and '
            'a further nesting level over int/text based trees (thorough: over all scalars, plus a fourth level over int/text/double/blob), with the shapes empty / '
            'singleton / two elements / both orders / null at each position / one collection of all boundary values, '
            'are encoded and decoded by the driver at protocol versions 1,2,3,4,5,6,65,66; the decoded python object '
            'is converted back and compared with the original value. Width-field layer: for every length/count field of '
            'the collection layout (list/set element count and element length, map entry count, key length and value '
            'length) top-level lists, sets and maps whose field value is 32767, 32768, 65535 and 65536 (the edges of the '
            '16-bit fields of protocol v1/v2: bit 15 clear / set, largest that fits, first that does not) are round-tripped '
            'at all 8 versions: one element / key / value of exactly that serialized size (text with 1- and 2-byte '
            'characters, ascii, varchar, blob; as list element and map value also tuple, list, map, UDT and vector '
            'elements, which keep the 32-bit layout inside), alone and between ordinary elements, key and value both '
            'boundary-sized; and collections of exactly that many elements (tinyint and 0..1-byte text list elements, '
            'distinct smallint set members and map keys; thorough: also boolean elements and int members/keys). At v1/v2 '
            'a width of 65536 must be refused by the encoder (an exception) or survive; it may not be written wrapped.',
    'note': 'Type classes are built with apply_parameters/make_udt_class. Documented normalisations accepted: sets '
            'come back as sortedset, maps as OrderedMap, UDTs as namedtuples, dates/times as util.Date/util.Time, '
            'timestamps as naive UTC datetimes. Values with no CQL meaning are not generated (see assumptions).',
    'design_ref': 'C01',
}

PVS = G.PROTOCOL_VERSIONS


def tuplify(x):
    return tuple(tuplify(i) for i in x) if isinstance(x, (list, tuple)) else x


def tstr(t):
    if t[0] == 'reversed':
        return 'reversed<%s>' % tstr(t[1])
    return V.cql_name(t)


def check_case(part, t, T, vi, v, dv, pv, form, thorough):
    part.count('evaluations')
    case = {'type': t, 'value_index': vi, 'pv': pv, 'form': form, 'thorough': thorough,
            'cql_type': tstr(t), 'value': B.short(v, 400)}
    try:
        b = T.to_binary(dv, pv)
    except Exception as e:
        try:
            lt, lv, where = B.localise(t, v, pv, lambda st, sv, spv: _raises(st, sv, spv))
        except Exception:
            lt, lv, where = t, v, ()
        part.violation('C01/encode-raises/%s/%s' % (lt[0], type(e).__name__),
                       'to_binary(%s, pv=%d) of %s raised %r (smallest failing part: %s %s inside %s)' % (
                           B.short(dv), pv, tstr(t), e, lt[0], B.short(lv), '/'.join(where) or 'top level'), case)
        part.outcome((t[0], 'encode-raises'))
        return
    try:
        r = T.from_binary(b, pv)
    except Exception as e:
        try:
            lt, lv, where = B.localise(t, v, pv, _roundtrip_raises)
        except Exception:
            lt, lv, where = t, v, ()
        part.violation('C01/decode-raises/%s/%s' % (lt[0], type(e).__name__),
                       'from_binary(%s, pv=%d) of %s raised %r; the bytes are the driver\'s own encoding of %s '
                       '(smallest failing part: %s %s inside %s)' % (
                           b[:64].hex(), pv, tstr(t), e, B.short(dv), lt[0], B.short(lv, 120), '/'.join(where) or 'top level'), case)
        part.outcome((t[0], 'decode-raises'))
        return
    got = B.from_driver(t, r)
    d = B.diff(t, v, got)
    if d is None:
        part.outcome((t[0], 'ok', 'null' if _has_null(t, v) else 'plain'))
    else:
        tail, text = B.describe(d)
        if t[0] in V.WRAPPERS and d[1] == 'value-became-null' and not d[2] and d[3] in ('', b''):
            tail = '%s/empty-became-null' % t[0]       # the wrapper, not the wrapped codec, loses the empty value
        part.violation('C01/roundtrip/%s' % tail,
                       '%s value %s (given as %s, pv=%d) came back as %s: %s' % (
                           tstr(t), B.short(v), form, pv, B.short(r), text), case)
        part.outcome((t[0], 'mismatch', tail))
    if len(b) > 0 and vi > 0:
        part.mark_nontrivial(hash((t, vi, pv, form)))
    if vi == 4:
        part.sample({'type': tstr(t), 'value': B.short(v, 120), 'pv': pv, 'form': form, 'bytes': b[:48].hex(), 'decoded': B.short(r, 120)}, limit=2)


def check_width_case(part, wi, t, T, v, dv, what, size, maxw, pv, thorough):
    """One case of the width-field layer: a top-level collection whose element count or one of whose
    element / key / value lengths is `size`.  Where the 16-bit fields of v1/v2 cannot hold the width the
    encoder has to refuse; everywhere else the value has to come back."""
    part.count('evaluations')
    part.count('width_evaluations')
    fits = pv >= 3 or maxw <= G.WIDTH16_MAX
    case = {'layer': 'width', 'width_index': wi, 'type': t, 'pv': pv, 'thorough': thorough, 'cql_type': tstr(t),
            'field': what, 'size': size, 'value': B.short(v, 200)}
    where = '%s = %d, %s, pv=%d' % (what, size, tstr(t), pv)
    try:
        b = T.to_binary(dv, pv)
    except Exception as e:
        if fits:
            part.violation('C01/width/encode-raises/%s/%s' % (t[0], type(e).__name__),
                           'to_binary raised %r for %s (value %s)' % (e, where, B.short(v, 120)), case)
            part.outcome((t[0], 'width', 'encode-raises'))
        else:
            part.count('width_refused_by_encoder')
            part.outcome((t[0], 'width', 'does-not-fit-refused'))
        return
    try:
        r = T.from_binary(b, pv)
    except Exception as e:
        part.violation('C01/width/decode-raises/%s/%s' % (t[0], type(e).__name__),
                       'from_binary raised %r on the driver\'s own %d-byte encoding (starts %s) for %s%s' % (
                           e, len(b), b[:16].hex(), where, '' if fits else '; the width does not fit 16 bits and the encoder did not refuse it'), case)
        part.outcome((t[0], 'width', 'decode-raises'))
        return
    d = B.diff(t, v, B.from_driver(t, r))
    if d is None:
        part.outcome((t[0], 'width', 'ok' if fits else 'does-not-fit-but-survived'))
    else:
        tail, text = B.describe(d)
        n = len(r) if hasattr(r, '__len__') else -1
        part.violation('C01/width/roundtrip/%s/%s' % (t[0], what.split(',')[0].replace(' ', '-')),
                       '%s: the value (%d top-level elements) came back with %d elements as %s: %s%s' % (
                           where, len(v), n, B.short(r, 160), text[:300],
                           '' if fits else '; the width does not fit 16 bits and the encoder wrote it anyway (encoding starts %s)' % b[:8].hex()), case)
        part.outcome((t[0], 'width', 'mismatch', tail))
    part.mark_nontrivial(hash(('width', wi, pv)))
    if size == 32768 and pv in (2, 4):
        part.sample({'type': tstr(t), 'field': what, 'size': size, 'pv': pv, 'encoded_bytes': len(b), 'bytes': b[:12].hex()}, limit=2)


def run_width_chunk(args):
    thorough, idxs, only = args
    import logging
    logging.disable(logging.CRITICAL)
    part = Part()
    cases = G.width_cases(thorough)
    for wi in idxs:
        t, v, what, size, maxw = cases[wi]
        T = B.driver_type(t)
        dv = B.to_driver(t, v)
        part.count('width_values')
        for pv in PVS:
            if only is not None and pv != only['pv']:
                continue
            check_width_case(part, wi, t, T, v, dv, what, size, maxw, pv, thorough)
    return part


def _raises(st, sv, spv):
    try:
        B.driver_type(st).to_binary(B.to_driver(st, sv), spv)
        return False
    except Exception:
        return True


def _roundtrip_raises(st, sv, spv):
    T = B.driver_type(st)
    try:
        b = T.to_binary(B.to_driver(st, sv), spv)
    except Exception:
        return False
    try:
        T.from_binary(b, spv)
        return False
    except Exception:
        return True


def _has_null(t, v):
    k = t[0]
    if v is None:
        return True
    if k in V.SCALARS:
        return False
    if k in V.WRAPPERS:
        return _has_null(t[1], v)
    if k == 'map':
        return any(_has_null(t[1], a) or _has_null(t[2], b) for a, b in v)
    if k in ('tuple', 'udt'):
        subs = V.subtypes(t)
        return len(v) < len(subs) or any(_has_null(s, x) for s, x in zip(subs, v))
    return any(_has_null(t[1], x) for x in v)


def run_chunk(args):
    thorough, types, only = args
    import logging
    logging.disable(logging.CRITICAL)      # UDT field names that are no python identifiers log a warning each
    part = Part()
    for t in types:
        T = B.driver_type(t)
        vals = G.values(t, thorough)
        part.count('types')
        for vi, v in enumerate(vals):
            if only is not None and vi != only['value_index']:
                continue
            null_elem = G.has_null_element(t, v)
            dv = B.to_driver(t, v)
            forms = [('canonical', dv)] + B.alt_forms(t, v)
            part.count('values')
            for pv in PVS:
                if null_elem and pv < 3:
                    part.count('skipped_null_element_before_v3')
                    continue
                if only is not None and pv != only['pv']:
                    continue
                for form, fv in forms:
                    if only is not None and form != only['form']:
                        continue
                    check_case(part, t, T, vi, v, fv, pv, form, thorough)
    return part


def type_space(ctx_quick):
    if ctx_quick:
        levels = G.value_type_trees(3, base_deeper=(('int',), ('text',)), thorough=False)
    else:
        lv = G.value_type_trees(3, base_deeper=G.SCALAR_TYPES, thorough=True)
        lv4 = G.value_type_trees(4, base_deeper=(('int',), ('text',), ('double',), ('blob',)), thorough=True)
        levels = lv + [lv4[3]]
    # reversed<> is not a CQL data type (the server unwraps it before it describes a column); its codec is compared in C28
    return [[t for t in lvl if t[0] != 'reversed'] for lvl in levels]


def run(ctx):
    V.selftest()
    thorough = not ctx.quick
    import cassandra.cqltypes       # imported before the fork so that the workers share it
    levels = type_space(ctx.quick)
    types = [t for lvl in levels for t in lvl]
    types = ctx.rotate(types)
    n = 4 if ctx.quick else ctx.nproc * 4      # the quick grid takes ~2 s on one core: a few workers beat 16 forks
    chunks = [(thorough, types[i::n], None) for i in range(n)]
    for part in ctx.pmap(run_chunk, [c for c in chunks if c[1]]):
        ctx.merge(part)
    nw = len(G.width_cases(thorough))         # built before the fork: the workers share the large values
    m = max(1, min(ctx.nproc, 8))
    widx = ctx.rotate(list(range(nw)))
    for part in ctx.pmap(run_width_chunk, [(thorough, widx[i::m], None) for i in range(m)]):
        ctx.merge(part)
    ctx.cov['width_layer'] = {'sizes': list(G.WIDTH16_EDGES), 'cases': nw, 'length_cases': len(G.width_length_cases()),
                              'count_cases': nw - len(G.width_length_cases())}
    ctx.cov['type_trees_per_level'] = [len(l) for l in levels]
    ctx.cov['protocol_versions'] = list(PVS)
    ctx.cov['rule'] = ('every type tree of the grid (levels %s) x every generated value x 8 protocol versions x every accepted '
                       'input form; non-trivial = distinct (type, value, version, form) whose encoding is at least one byte '
                       'and whose value is not the first (ordinary) value of its type; plus the width-field layer: %d '
                       'boundary-sized collections (%d length cases, %d count cases; sizes %s) x 8 protocol versions, canonical '
                       'form, each counted as one evaluation and, when the encoder produced bytes, as one non-trivial case'
                       % ([len(l) for l in levels], nw, len(G.width_length_cases()), nw - len(G.width_length_cases()),
                          list(G.WIDTH16_EDGES)))
    ctx.cov['exhaustive'] = True
    ctx.assume('top-level null is a frame-level length of -1 (C03/C04), not a to_binary/from_binary case')
    ctx.assume('null elements of list/set/map cannot be expressed before protocol v3 (unsigned 16-bit lengths): not generated for v1/v2')
    ctx.assume('a top-level list/set/map with more than 65535 elements, or with an element/key/value longer than 65535 bytes, '
               'has no protocol v1/v2 encoding (unsigned 16-bit widths): there the encoder raising is the accepted outcome, '
               'a silently wrapped width is not')
    ctx.assume('the sign boundary of the 32-bit width fields (v3+ collections, tuple/UDT fields, nested collections: 2 GiB / 2^31 '
               'elements) is out of reach of an in-memory check and is not generated; widths up to 65536 are')
    ctx.assume('values without CQL meaning are not generated: counters/durations as set elements or map keys, counters inside '
               'containers, durations with mixed signs, null vector elements, zero-dimension vectors, zero-length tuples, '
               'set members that are equal under Cassandra\'s comparator (numerically equal decimals)')
    ctx.assume('timezone-aware datetimes and non-canonical inet spellings come back normalised (naive UTC / inet_ntop form) and are left out')
    ctx.assume('timestamps outside datetime\'s years 1..9999 cannot be represented by the documented python type and are left out')


def replay(ctx, data):
    if data.get('layer') == 'width':
        part = run_width_chunk((bool(data['thorough']), [data['width_index']], data))
        for fp, what, _ in part.violations:
            print(fp, '::', what)
        return bool(part.violations)
    t = tuplify(data['type'])
    part = run_chunk((bool(data['thorough']), [t], data))
    for fp, what, _ in part.violations:
        print(fp, '::', what)
    return bool(part.violations)
