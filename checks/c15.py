"""C15 Requests with a timeout always finish in bounded time.

Engine E over the same world as C14, but servers may stay silent for ever: quiescence is
"no timer and no task left" (unanswered requests may remain).  The virtual clock only moves when
the explorer fires the earliest timer, so "finished within the timeout" is an exact statement.
"""
from vt import explore
from vt import reqworld   # noqa: F401
from checks import c14

META = {
    'level': 'model_checking',
    'engine': 'E',
    'technique': 'explicit-state BFS over timer/response/fault/task histories with a virtual clock; deadline invariant in every state',
    'text': 'All histories up to the depth bound for timeouts {0, 0.5, 10} x speculative executions {0, 1 (delay 1.0)} x '
            'first page and one further page fetch, plus configurations with more speculative executions than hosts in the '
            'plan (3 on 2 hosts, 1-2 on 1 host) and speculative delays that do not fit / exactly fit the remaining time '
            '(0.4 x3, 0.5 x2, 2.0 x1 with timeout 1.0), plus an application USE statement with timeout {0, 1.0} (the coordinator '
            'answers, the USE the driver then sends on every pool to propagate the keyspace may be answered, refused, fail or '
            'stay unanswered for ever) and an EXECUTE of a prepared statement with timeout 1.0 that is answered UNPREPARED '
            '(re-prepare task, PREPARE, second EXECUTE, each possibly never answered; the timeout may fire while any of the '
            'follow-up tasks is still queued), plus paging histories with timeouts {0, 1.0} x speculative executions {0, 1 (delay 0.4)} '
            'on 2 hosts with up to three (thorough: four) fetches after the first page, where a fetch may end normally, with an error '
            'response (invalid, overloaded with RETHROW), with NoHostAvailable (RETRY_NEXT_HOST or lost connections until the plan is '
            'used up) or by the client timeout, and the application, the paging state still being there, fetches that page again '
            '(repeatedly), the server staying silent for the repeated fetch too or answering the abandoned fetch late: answers may '
            'never come.  Invariant in every state, for every fetch (first page, later page, repeated after a failed fetch; each has '
            'its own start): an unfinished page fetch has virtual time <= its start + timeout + 30 ms (the documented PYTHON-853 '
            're-arm), a finished one finished by then; when no timer and no task is left every fetch has finished.',
    'note': 'Query plans are finite (1-3 hosts).  Time is the virtual clock that every driver module reads; it advances only '
            'when the earliest pending timer fires.',
    'design_ref': 'C15',
}

EPS = 0.03 + 1e-3


class H(c14.H):
    name = 'c15'

    def init(self):
        st = c14.H.init(self)
        st.fetch_start = [st.w.clock.now for _ in st.futures]
        # the current fetch asks again for a page whose previous fetch ended with an exception
        st.refetch = [False for _ in st.futures]
        return st

    def apply(self, st, ev):
        if ev[0] == 'next_page':
            st.fetch_start[ev[1]] = st.w.clock.now
            st.refetch[ev[1]] = st.futures[ev[1]]._final_exception is not None
        c14.H.apply(self, st, ev)

    def canon(self, st):
        return c14.H.canon(self, st) + (tuple(st.refetch),)

    @staticmethod
    def page_of(st, fi):
        if st.observers[fi].generation == 0:
            return 'first'
        return 'repeated' if st.refetch[fi] else 'later'

    def is_quiescent(self, st, evs):
        return not st.w.live_timers() and not st.w.tasks

    def check(self, st, part, hist):
        to = self.params['timeout']
        for fi, (f, o) in enumerate(zip(st.futures, st.observers)):
            deadline = st.fetch_start[fi] + to + EPS
            page = self.page_of(st, fi)
            if f._event.is_set():
                when = o.order[0][1] if o.order else st.w.clock.now
                part.outcome(('done', page, type(f._final_exception).__name__))
                if when > deadline:
                    part.violation('C15/finished-late/%s-page' % page,
                                   'page fetch finished at +%.3fs with timeout %s' % (when - st.fetch_start[fi], to),
                                   {'params': self.params, 'history': hist})
            else:
                part.outcome(('open', page))
                if st.w.clock.now > deadline:
                    part.violation('C15/unfinished-after-deadline/%s-page' % page,
                                   'page fetch still unfinished at +%.3fs with timeout %s' % (st.w.clock.now - st.fetch_start[fi], to),
                                   {'params': self.params, 'history': hist})
        if len(hist) >= 2:
            part.mark_nontrivial(repr(self.canon(st)))

    def at_quiescence(self, st, part, hist):
        for fi, (f, o) in enumerate(zip(st.futures, st.observers)):
            if not f._event.is_set():
                page = self.page_of(st, fi)
                part.violation('C15/never-finishes/%s-page' % page,
                               'no timer and no task left, %d request(s) unanswered, fetch incomplete: it can never finish'
                               % len(st.pending()), {'params': self.params, 'history': hist})


def configs(ctx):
    out = []
    for to in (0.0, 0.5, 10.0):
        for spec in (0, 1):
            p = dict(hosts=3, timeout=to, spec=spec, paged=True, kinds=['rows_more', 'overloaded'],
                     decisions=['RETRY', 'RETRY_NEXT_HOST'], faults=(spec == 0), task_window=1, max_pages=1)
            out.append(('t%s-s%d' % (to, spec), p, 6 if ctx.quick else 8))
    # more speculative executions allowed than hosts left in the query plan (the speculative timer must
    # still hand over to the timeout timer), and a speculative delay that does not fit the remaining time
    for hosts, spec, delay, to in ((2, 3, 1.0, 10.0), (1, 1, 1.0, 10.0), (1, 2, 0.5, 2.0), (3, 3, 0.4, 1.0), (3, 1, 2.0, 1.0), (3, 2, 0.5, 1.0)):
        p = dict(hosts=hosts, timeout=to, spec=spec, spec_delay=delay, paged=True, kinds=['rows_more', 'overloaded'],
                 decisions=['RETRY', 'RETRY_NEXT_HOST'], faults=False, task_window=1, max_pages=1)
        out.append(('h%d-s%d-d%s-t%s' % (hosts, spec, delay, to), p, 6 if ctx.quick else 8))
    # paging histories: up to three (thorough: four) fetches after the first page.  A fetch may end normally (rows_more), with
    # an error response (invalid; overloaded + RETHROW), with NoHostAvailable (RETRY_NEXT_HOST / lost connections until
    # the plan of 2 hosts is used up) or by the client timeout; while the paging state is still there the application
    # may then ask for that page AGAIN ('repeated' fetch), and the server may stay silent for that fetch as well (or
    # answer the timed-out earlier fetch late).  Every fetch has its own deadline (start_fetching_next_page + timeout).
    for to in (0.0, 1.0):
        for spec in (0, 1):
            p = dict(hosts=2, timeout=to, spec=spec, spec_delay=0.4, paged=True, kinds=['rows_more', 'invalid', 'overloaded'],
                     decisions=['RETRY_NEXT_HOST', 'RETHROW'], faults=(spec == 0), task_window=1,
                     max_pages=4 if ctx.thorough else 3)
            out.append(('pages-t%s-s%d' % (to, spec), p, 8 if ctx.quick else 10))
    # continuations other than a retry (see checks/c14.py): an application USE whose propagation to the other pools may
    # never be answered, and a re-prepare of an unknown prepared statement
    for to in (0.0, 1.0):
        out.append(('use-t%s' % to, dict(hosts=3, timeout=to, spec=0, use='ks2', hold_use=True, kinds=['rows'],
                                         use_kinds=['default', 'invalid', 'overloaded'], decisions=['RETRY_NEXT_HOST'],
                                         faults=True, task_window=1), 5 if ctx.quick else 7))
    out.append(('prepared-t1.0', dict(hosts=3, timeout=1.0, spec=0, prepared=True, kinds=['rows', 'unprepared', 'overloaded'],
                                      prepare_kinds=['default', 'invalid'], decisions=['RETRY', 'RETRY_NEXT_HOST'],
                                      faults=False, task_window=1), 7 if ctx.quick else 9))
    return out


def run(ctx):
    for name, params, depth in configs(ctx):
        explore.bfs(ctx, H, params, max_depth=depth, label='c15-' + name, max_states=200000 if ctx.thorough else 30000)
    ctx.cov['rule'] = ('state = event history replayed on a fresh real Session; non-trivial = distinct canonical state at depth >= 2; '
                       'outcomes = (done/open, first/later/repeated page fetch, final exception type); repeated = start_fetching_next_page called '
                       'while the previous fetch of this future had ended with an exception')
    ctx.assume('handlers are atomic with respect to each other (single-threaded histories)')
    ctx.assume('epsilon = 30 ms: _on_timeout re-arms itself up to 3 x 10 ms while no connection has been borrowed yet (PYTHON-853)')


def replay(ctx, data):
    part = explore.replay(H, data['params'], [tuple(e) for e in data['history']])
    for fp, what, _ in part.violations:
        print(fp, '::', what)
    return bool(part.violations)
