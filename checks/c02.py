"""C02 Value encodings are byte-exact with Cassandra's type serializers.

Engine N: for every (type tree, value, protocol version) of the C01 grid the driver's bytes are
compared with the independent reference codec (vt.spec.values), the reference bytes -- including
encodings only Cassandra produces: -1 length null elements, UDT values that stop before later-added
fields -- are decoded by the driver and compared with the value, and a list of out-of-range values
per type must raise instead of producing bytes.  Input-kind layer: every python input kind a scalar
serializer accepts (datetime / date / str / int / float / wrapper objects / ipaddress ...) at the boundary
values of the type, incl. every pre-epoch day with every non-zero time of day.
"""
from vt.core import Part
from vt.spec import values as V
from vt.spec import valuegen as G
from vt import valbridge as B

META = {
    'level': 'exploration',
    'engine': 'N',
    'technique': 'bounded-exhaustive differential comparison of the driver codec with an independent reference codec, both directions, plus range probes',
    'text': 'Same finite grid as C01 (21 scalars with boundary values, every container shape over every scalar, deeper '
            'levels over int/text trees (thorough: all scalars, fourth level over int/text/double/blob), 8 protocol versions). Three oracles per case: driver bytes == reference bytes '
            '(BigInteger varints, scale+unscaled decimals, zig-zag vints, 2^31-offset dates, 16/32-bit collection '
            'framing with -1 for null, unsigned-vint sizes in variable-width vectors); reference bytes decode in the '
            'driver to the value; every out-of-range value (integer edges +-1, duration components beyond int32/int64, '
            'time outside a day, dates outside uint32, decimal scales beyond int32, floats beyond float32, non-ASCII '
            'ascii, wrong vector dimension, oversize tuples, >65535 elements or bytes in v1/v2 collections), alone and '
            'as an element of list/tuple/map/vector, must raise. Vint boundary layer (same encode/decode oracles): every unsigned '
            'vint edge 2^(7k)-1, 2^(7k), 2^(7k)+1 and 2^(7k-1)-1, 2^(7k-1), 2^(7k-1)+1 for k=1..9 plus whole-byte edges, as the zig-zag '
            'image of each duration component (alone in each position, same-sign pairs in adjacent positions, all three equal), and as the '
            'serialized size (k<=3: up to 2^21+1 bytes) of an element of vector<E, 1..3> for 11 variable-width element kinds E (text incl. '
            'two-byte characters, ascii, varchar, blob, varint, decimal, tuple, list, map, UDT, nested vector) in every position; '
            'the vector size writer/reader itself at every edge up to 2^31-1. Input-kind layer (encode oracle; decode oracle for values new in the layer): '
            'every python input kind a scalar serializer accepts, at the boundary values of the type, alone and as an element of list / tuple / '
            'map value: date as datetime.date, naive datetime.datetime at 15 times of day (midnight, first/last microsecond, millisecond and second, '
            'quarters, the times of +-2^31 s) on 31 days (epoch +-2, 0001-01-01/02, 9999-12-30/31, 2^31-second days, leap days, 1900, 1582, 1677/2262, '
            'i.e. every pre-epoch day with every non-zero time of day), yyyy-mm-dd strings, raw CQL integers, util.Date built from each; timestamp as '
            'naive datetime, aware datetime at UTC offsets 0, +5:30, -8, +14, -12, -0:01, int and float milliseconds (incl. int64 / 2^53 edges), '
            'datetime.date for midnights, over every such day x whole-millisecond time of day; time as int, datetime.time, HH:MM:SS strings with 9 and '
            'with the fewest fractional digits, util.Time built from each, at every unit edge +-1 ns; decimal as str (two spellings), int, float; '
            'float/double as int; inet as ipaddress objects and exploded / upper-case / unpadded IPv6 spellings; blob as bytearray / memoryview; '
            'out-of-range values given as those kinds (raw CQL date ints beyond uint32, time strings of 24 h, non-finite or over-scaled decimals as '
            'float/str, ints beyond float32) must raise.',
    'note': 'The reference is cross-checked against the fixed vectors of tests/unit/test_marshalling.py and test_types.py '
            'and protocol-spec examples (vt.spec.values.selftest, run at the start of every run). Vector element widths '
            'are compared only where Cassandra 5\'s fixed length is unambiguous.',
    'design_ref': 'C02',
}

PVS = G.PROTOCOL_VERSIONS


def tuplify(x):
    return tuple(tuplify(i) for i in x) if isinstance(x, (list, tuple)) else x


def tstr(t):
    return V.cql_name(t)


class _Long(object):
    """Stand-in for a long str/bytes in messages (repr of a 2 MiB element is not informative)."""
    def __init__(self, x):
        self.x = x

    def __repr__(self):
        if isinstance(self.x, int):
            return '<int of %d bits>' % self.x.bit_length()
        return '<%s of length %d: %r...>' % (type(self.x).__name__, len(self.x), self.x[:6])


def _abbr(x):
    if isinstance(x, (str, bytes)) and len(x) > 300:
        return _Long(x)
    if type(x) is int and x.bit_length() > 1024:
        return _Long(x)
    if type(x) is list:
        return [_abbr(i) for i in x]
    if type(x) is tuple:
        return tuple(_abbr(i) for i in x)
    return x


def short(x, n=300):
    return B.short(_abbr(x), n)


def _pv_at(where, pv):
    """Layout version of a part found by B.localise below the containers `where`."""
    for k in where:
        if k != 'vector':
            pv = max(3, pv)
    return pv


def _size_prefix_mismatch(t, v, pv):
    """For t = vector<variable-width E, n>: the first element whose unsigned-vint size prefix in the
    driver's bytes is not the one Cassandra writes -> (index, size, driver prefix, reference prefix)."""
    t = V.unwrap(t)
    if t[0] != 'vector' or V.fixed_len(t[1]) is not None:
        return None
    try:
        db = B.driver_type(t).to_binary(B.to_driver(t, v), pv)
        pos = 0
        for i, x in enumerate(v):
            eb = V.encode(t[1], x, pv)
            pre = V.uvint_encode(len(eb))
            if db[pos:pos + len(pre)] != pre:
                try:
                    end = V.uvint_decode(db, pos)[1]
                except V.RefError:
                    end = pos + len(pre)
                return (i, len(eb), bytes(db[pos:end]), pre)
            pos += len(pre)
            if db[pos:pos + len(eb)] != eb:
                return None
            pos += len(eb)
    except Exception:
        return None
    return None


def _bytes_differ(st, sv, spv):
    try:
        want = V.encode(st, sv, spv)
    except (V.RefUnknown, V.RefUnrepresentable):
        return False
    return B.driver_type(st).to_binary(B.to_driver(st, sv), spv) != want


def _encode_raises(st, sv, spv):
    try:
        B.driver_type(st).to_binary(B.to_driver(st, sv), spv)
        return False
    except Exception:
        return True


def _decode_raises(st, sv, spv):
    try:
        want = V.encode(st, sv, spv)
    except V.RefError:
        return False
    try:
        B.driver_type(st).from_binary(want, spv)
        return False
    except Exception:
        return True


def _direct_null(t, v):
    t = V.unwrap(t)
    if t[0] in ('list', 'set'):
        return any(x is None for x in v)
    if t[0] == 'map':
        return any(a is None or b is None for a, b in v)
    return False


def check_encode(part, t, T, vi, v, dv, pv, form, want, case):
    try:
        b = T.to_binary(dv, pv)
    except Exception as e:
        try:
            lt, lv, where = B.localise(t, v, pv, _encode_raises)
        except Exception:
            lt, lv, where = t, v, ()
        part.violation('C02/encode-raises/%s/%s' % (lt[0], type(e).__name__),
                       'to_binary(%s, pv=%d) of %s raised %r for a value Cassandra encodes as %s (smallest failing part: %s %s inside %s)' % (
                           short(dv), pv, tstr(t), e, want[:64].hex(), lt[0], short(lv, 120), '/'.join(where) or 'top level'), case)
        part.outcome((t[0], 'encode-raises'))
        return
    if b == want:
        part.outcome((t[0], 'bytes-equal'))
        return b
    try:
        lt, lv, where = B.localise(t, v, pv, _bytes_differ)
    except Exception:
        lt, lv, where = t, v, ()
    lt = V.unwrap(lt)
    extra = ''
    mism = _size_prefix_mismatch(lt, lv, _pv_at(where, pv))
    if lt[0] in V.SCALARS:
        tail = '%s/value' % lt[0]
    elif _direct_null(lt, lv):
        tail = '%s/null-element-length' % lt[0]
    elif mism is not None:
        tail = 'vector/element-size-vint'
        extra = '; element %d is %d bytes long: driver wrote the size as %s, Cassandra writes %s' % (
            mism[0], mism[1], mism[2].hex(), mism[3].hex())
    else:
        tail = '%s/framing' % lt[0]
    part.violation('C02/bytes/%s' % tail,
                   '%s value %s (given as %s, pv=%d): driver wrote %s, Cassandra writes %s (smallest differing part: %s %s inside %s%s)' % (
                       tstr(t), short(v), form, pv, b[:96].hex(), want[:96].hex(), tstr(lt), short(lv, 120), '/'.join(where) or 'top level', extra),
                   case)
    part.outcome((t[0], 'bytes-differ', tail))
    return b


def check_decode(part, t, T, v, pv, want_bytes, case, what='reference'):
    try:
        r = T.from_binary(want_bytes, pv)
    except Exception as e:
        try:
            lt, lv, where = B.localise(t, v, pv, _decode_raises)
        except Exception:
            lt, lv, where = t, v, ()
        part.violation('C02/decode-raises/%s/%s' % (lt[0], type(e).__name__),
                       'from_binary(%s, pv=%d) of %s raised %r; Cassandra means %s (smallest failing part: %s %s inside %s)' % (
                           want_bytes[:64].hex(), pv, tstr(t), e, short(v), lt[0], short(lv, 120), '/'.join(where) or 'top level'), case)
        part.outcome((t[0], 'decode-raises'))
        return
    d = B.diff(t, v, B.from_driver(t, r))
    if d is None:
        part.outcome((t[0], 'decode-equal'))
        return
    tail, text = B.describe(d)
    part.violation('C02/decode/%s' % tail,
                   '%s bytes %s (pv=%d) mean %s to Cassandra but decode to %s: %s' % (
                       tstr(t), want_bytes[:96].hex(), pv, short(v), short(r), text), case)
    part.outcome((t[0], 'decode-differs', tail))


def _compare(part, t, T, vi, v, pv, decode_only, forms, case, key):
    """The oracles of one (type, value, version) case; False when the reference has no bytes for it."""
    try:
        want = V.encode(t, v, pv)
    except V.RefUnknown:
        part.count('skipped_width_not_decided')
        return False
    except V.RefUnrepresentable:
        part.count('skipped_null_element_before_v3')
        return False
    b = None
    for form, fv in forms:
        part.count('evaluations')
        part.count('encode_comparisons')
        b = check_encode(part, t, T, vi, v, fv, pv, form, want, dict(case, form=form))
    part.count('evaluations')
    part.count('decode_comparisons')
    check_decode(part, t, T, v, pv, want, dict(case, form='decode'))
    if len(want) > 0 and vi > 0:
        part.mark_nontrivial(hash(key))
    if vi == 4:
        part.sample({'type': tstr(t), 'value': short(v, 120), 'pv': pv, 'reference_bytes': want[:48].hex(),
                     'driver_bytes': None if b is None else b[:48].hex()}, limit=2)
    return True


def run_chunk(args):
    if args[0] == 'vint':
        return run_vint_chunk(args[1:])
    if args[0] == 'kinds':
        return run_kinds(args[1:])
    thorough, types, only = args
    import logging
    logging.disable(logging.CRITICAL)
    part = Part()
    for t in types:
        T = B.driver_type(t)
        vals = G.values(t, thorough)
        part.count('types')
        extra = []
        if t[0] == 'udt' and len(t[3]) > 1:
            extra = [vals[0][:-1]]              # written before the last field was added: decode only
        for vi, v in enumerate(vals + extra):
            if only is not None and vi != only['value_index']:
                continue
            decode_only = vi >= len(vals)
            dv = None if decode_only else B.to_driver(t, v)
            forms = [] if decode_only else [('canonical', dv)] + [f for f in B.alt_forms(t, v) if f[0] != 'python-set']
            for pv in PVS:
                if only is not None and pv != only['pv']:
                    continue
                case = {'type': t, 'value_index': vi, 'pv': pv, 'thorough': thorough, 'cql_type': tstr(t), 'value': short(v, 400)}
                _compare(part, t, T, vi, v, pv, decode_only, forms, case, (t, vi, pv))
    return part


# ------------------------------------------------------------------------------- vint boundaries
VINT_SCALARS = (('duration',),)


def vint_types():
    return list(VINT_SCALARS) + G.vint_vector_types()


def vint_values(t, thorough):
    """[(value, protocol versions)] of the vint boundary layer for type t."""
    if t == ('duration',):
        return [(v, PVS) for v in G.vint_durations()]
    return G.vint_vector_values(t, thorough)


def run_vint_chunk(args):
    """Same three oracles as the grid, over the values whose vints sit on a length boundary: duration
    components on every zig-zag vint edge, vectors with an element of every boundary size."""
    thorough, types, only = args
    import logging
    logging.disable(logging.CRITICAL)
    part = Part()
    for t in types:
        T = B.driver_type(t)
        part.count('vint_layer_types')
        for vi, (v, pvs) in enumerate(vint_values(t, thorough)):
            if only is not None and vi != only['value_index']:
                continue
            dv = B.to_driver(t, v)
            forms = [('canonical', dv)] + B.alt_forms(t, v)
            for pv in pvs:
                if only is not None and pv != only['pv']:
                    continue
                case = {'layer': 'vint', 'type': t, 'value_index': vi, 'pv': pv, 'thorough': thorough, 'cql_type': tstr(t),
                        'value': short(v, 400)}
                try:
                    if _compare(part, t, T, vi + 1, v, pv, False, forms, case, ('vint', t, vi, pv)):
                        part.count('vint_boundary_cases')
                except V.RefRangeError:
                    part.count('skipped_element_over_65535_bytes_before_v3')
    return part


def size_writer_edges():
    """Element sizes are Java ints: every vint edge up to 2^31-1."""
    return [u for u in G.vint_edges(31, 1, 9)]


def run_size_writer(only=None):
    """The writer/reader VectorType uses for element sizes (the names cassandra.cqltypes binds), at every
    boundary size up to 2^31-1: elements above 2 MiB are not materialised by run_vint_chunk."""
    from vt.core import HarnessError
    import cassandra.cqltypes as C
    pack, unpack = getattr(C, 'uvint_pack', None), getattr(C, 'uvint_unpack', None)
    if pack is None or unpack is None:
        raise HarnessError('cassandra.cqltypes no longer binds uvint_pack/uvint_unpack: find the vector size writer again')
    part = Part()
    for u in size_writer_edges():
        if only is not None and u != only:
            continue
        want = V.uvint_encode(u)
        part.count('evaluations', 2)
        part.count('size_writer_probes', 2)
        try:
            got = pack(u)
        except Exception as e:
            got = e
        if got != want:
            part.violation('C02/bytes/vector/element-size-vint',
                           'vector element size %d: the driver\'s size writer gives %s, Cassandra writes %s' % (
                               u, got.hex() if isinstance(got, bytes) else repr(got), want.hex()), {'size_writer': u})
            part.outcome(('size-writer', 'bytes-differ'))
        else:
            part.outcome(('size-writer', 'bytes-equal'))
        try:
            back = unpack(want + b'\x00')
        except Exception as e:
            back = e
        if back != (u, len(want)):
            part.violation('C02/decode/vector/element-size-vint',
                           'vector element size prefix %s means %d (%d bytes) to Cassandra, the driver\'s size reader gives %r' % (
                               want.hex(), u, len(want), back), {'size_writer': u})
            part.outcome(('size-writer', 'decode-differs'))
        else:
            part.outcome(('size-writer', 'decode-equal'))
        if u >= 128:
            part.mark_nontrivial(hash(('size-writer', u)))
    return part


# ------------------------------------------------------------------------------- input kinds
# Every python input kind a scalar serializer accepts, at the boundary values of the type, compared with the
# reference bytes of the value the object stands for (same encode oracle as the grid; the reference bytes of
# values that are new in this layer are also decoded).
KIND_CONTEXTS = ('top', 'list', 'tuple', 'map-value')
KIND_INNER_PVS = (2, 4)                      # 16-bit and 32-bit collection framing around the element
TZ_OFFSET_MINUTES = (0, 330, -480, 840, -720, -1)
_ORD_EPOCH = 719163                          # date(1970, 1, 1).toordinal()


def kind_cases(thorough):
    """[(scalar type, input kind, reference value, maker() -> python object, decode too?)].

    date: datetime.date, datetime.datetime (naive, every time of day of G.kind_times_of_day), 'yyyy-mm-dd',
    the raw CQL integer (day + 2^31), util.Date built from each of them; timestamp: naive datetime, aware datetime
    at six UTC offsets, int and float milliseconds, datetime.date for midnights; time: int nanoseconds,
    datetime.time, 'HH:MM:SS[.f...]' with 9 and with the fewest fractional digits, util.Time built from each;
    decimal: str (python's spelling and digitsEexp), int, float; float/double: int; inet: ipaddress objects, exploded /
    upper-case / unpadded spellings of IPv6 addresses; blob: bytearray, memoryview."""
    import datetime
    import decimal
    import ipaddress
    import math
    import struct
    from cassandra import util
    D = decimal.Decimal
    out = []

    def add(k, kind, ref, maker, decode=False, desc=None):
        out.append(((k,), kind, ref, maker, decode, desc))

    def const(x):
        return lambda: x

    # ---- date
    tods = G.kind_times_of_day(thorough)
    for d in G.kind_days(thorough):
        dd = datetime.date.fromordinal(d + _ORD_EPOCH)
        add('date', 'date', d, const(dd), True)
        add('date', 'Date-of-date', d, lambda dd=dd: util.Date(dd), desc='util.Date(%r)' % (dd,))
        s = '%04d-%02d-%02d' % (dd.year, dd.month, dd.day)
        add('date', 'str', d, const(s))
        add('date', 'Date-of-str', d, lambda s=s: util.Date(s), desc='util.Date(%r)' % (s,))
        for tod in tods:
            dtm = datetime.datetime(dd.year, dd.month, dd.day, *tod)
            add('date', 'datetime', d, const(dtm))
            add('date', 'Date-of-datetime', d, lambda dtm=dtm: util.Date(dtm), desc='util.Date(%r)' % (dtm,))
    for d in G.scalar_values('date', thorough):
        add('date', 'int-raw-cql', d, const(d + 2 ** 31))
        add('date', 'Date-of-int', d, lambda d=d: util.Date(d), desc='util.Date(%r)' % (d,))

    # ---- timestamp
    epoch = datetime.datetime(1970, 1, 1)
    for v in G.kind_instants(thorough):
        naive = epoch + datetime.timedelta(milliseconds=v)
        add('timestamp', 'int', v, const(v), True)
        add('timestamp', 'float', v, const(float(v)))
        add('timestamp', 'naive-datetime', v, const(naive))
        for off in TZ_OFFSET_MINUTES:
            delta = datetime.timedelta(minutes=off)
            try:
                local = naive + delta
            except OverflowError:
                continue                      # the wall-clock time at this offset is outside datetime's years
            add('timestamp', 'aware-datetime', v, const(local.replace(tzinfo=datetime.timezone(delta))))
        if v % 86400000 == 0:
            add('timestamp', 'date', v, const(naive.date()))
    for v in G.kind_wide_instants():
        add('timestamp', 'int', v, const(v))              # beyond datetime: the decode direction has no python value
        if float(v) == v:
            add('timestamp', 'float', v, const(float(v)))

    # ---- time
    for v in G.kind_time_nanos(thorough):
        sec, frac = divmod(v, 10 ** 9)
        hms = '%02d:%02d:%02d' % (sec // 3600, sec // 60 % 60, sec % 60)
        s9 = '%s.%09d' % (hms, frac)
        add('time', 'int', v, const(v), True)
        add('time', 'Time-of-int', v, lambda v=v: util.Time(v), desc='util.Time(%r)' % (v,))
        add('time', 'str', v, const(s9))
        add('time', 'Time-of-str', v, lambda s9=s9: util.Time(s9), desc='util.Time(%r)' % (s9,))
        short_s = s9.rstrip('0')
        if short_s != s9:
            add('time', 'str-short', v, const(hms if short_s.endswith('.') else short_s))
        if v % 1000 == 0:
            tm = datetime.time(sec // 3600, sec // 60 % 60, sec % 60, frac // 1000)
            add('time', 'time', v, const(tm))
            add('time', 'Time-of-time', v, lambda tm=tm: util.Time(tm), desc='util.Time(%r)' % (tm,))

    # ---- decimal
    for v in G.scalar_values('decimal', thorough):
        sign, digits, exp = v.as_tuple()
        ds = ''.join(str(x) for x in digits)
        add('decimal', 'str', v, const(str(v)))
        add('decimal', 'str-digitsEexp', v, const('%s%sE%d' % ('-' if sign else '', ds, exp)))
        if exp == 0:
            add('decimal', 'int', v, const(-int(ds) if sign else int(ds)))
    for n in G.scalar_values('varint', False):
        add('decimal', 'int', D(n), const(n), True)
    for f in G.kind_dyadic_floats():
        add('decimal', 'float', D(repr(f)), const(f), True)

    # ---- float / double given as int
    for k, fmt, extra in (('float', '>f', (2 ** 24, -2 ** 24, 2 ** 31, 2 ** 127)), ('double', '>d', (2 ** 53, -2 ** 53, 2 ** 63, 2 ** 1023))):
        vals = [x for x in G.scalar_values(k, thorough) if math.isfinite(x) and x == int(x) and not (x == 0 and math.copysign(1, x) < 0)]
        for x in vals + [float(n) for n in extra]:
            if struct.unpack(fmt, struct.pack(fmt, x))[0] == x:
                add(k, 'int', x, const(int(x)), True)

    # ---- inet
    for a in G.scalar_values('inet', thorough):
        ip = ipaddress.ip_address(a)
        add('inet', 'ipaddress', a, const(ip), True)
        if ip.version == 6:
            add('inet', 'str-exploded', a, const(ip.exploded))
            add('inet', 'str-upper', a, const(ip.exploded.upper()))
            n = int.from_bytes(ip.packed, 'big')
            add('inet', 'str-unpadded', a, const(':'.join('%x' % ((n >> (16 * (7 - i))) & 0xffff) for i in range(8))))

    # ---- blob
    for b in G.scalar_values('blob', thorough):
        add('blob', 'bytearray', b, lambda b=b: bytearray(b), True)
        add('blob', 'memoryview', b, lambda b=b: memoryview(b))
    return out


def _kind_ref(cname, t, v):
    I = ('int',)
    if cname == 'top':
        return t, v
    if cname == 'list':
        return ('list', t), [v]
    if cname == 'tuple':
        return ('tuple', I, t), (1, v)
    if cname == 'map-value':
        return ('map', I, t), [(1, v)]
    raise ValueError(cname)


def run_kinds(args):
    thorough, i, n, only = args
    import logging
    logging.disable(logging.CRITICAL)
    part = Part()
    cases = kind_cases(thorough)
    for idx in range(i, len(cases), n):
        if only is not None and idx != only['index']:
            continue
        t, kind, ref, maker, decode, desc = cases[idx]
        part.count('input_kind_cases')
        part.mark_nontrivial(hash(('kind', idx)))
        for cname in KIND_CONTEXTS:
            for pv in (PVS if cname == 'top' else KIND_INNER_PVS):
                if only is not None and (cname, pv) != (only['context'], only['pv']):
                    continue
                case = {'layer': 'kinds', 'index': idx, 'context': cname, 'pv': pv, 'thorough': thorough,
                        'cql_type': tstr(t), 'kind': kind, 'value': short(ref, 200)}
                _kind_compare(part, t, kind, ref, maker, desc, cname, pv, case)
                if decode and cname == 'top':
                    part.count('evaluations')
                    part.count('decode_comparisons')
                    check_decode(part, t, B.driver_type(t), ref, pv, V.encode(t, ref, pv), dict(case, form='decode'))
    return part


def _kind_compare(part, t, kind, ref, maker, desc, cname, pv, case):
    part.count('evaluations')
    part.count('encode_comparisons')
    part.count('input_kind_encode_comparisons')
    rt, rv = _kind_ref(cname, t, ref)
    want = V.encode(rt, rv, pv)
    obj = None
    try:
        obj = maker()
        ct, cv = in_context(cname, t, obj)
        got = B.driver_type(ct).to_binary(cv, pv)
    except Exception as e:
        part.violation('C02/encode-raises/%s/given-as-%s/%s' % (t[0], kind, type(e).__name__),
                       '%s value %s given as %s (%s) (context %s, pv=%d): the driver raised %r; Cassandra encodes the value as %s' % (
                           tstr(t), short(ref, 120), kind, desc or short(obj, 160), cname, pv, e, want[:64].hex()), case)
        part.outcome((t[0], kind, 'encode-raises'))
        return
    if got == want:
        part.outcome((t[0], kind, 'bytes-equal'))
        return
    part.violation('C02/bytes/%s/value/given-as-%s' % (t[0], kind),
                   '%s value %s given as %s (%s) (context %s, pv=%d): driver wrote %s, Cassandra writes %s' % (
                       tstr(t), short(ref, 120), kind, desc or short(obj, 160), cname, pv, got[:96].hex(), want[:96].hex()), case)
    part.outcome((t[0], kind, 'bytes-differ'))


def kind_summary(thorough):
    out = {}
    for t, kind, ref, maker, decode, desc in kind_cases(thorough):
        d = out.setdefault(t[0], {})
        d[kind] = d.get(kind, 0) + 1
    return out


# ------------------------------------------------------------------------------- range probes
def range_cases():
    """(failure kind, detail, scalar type, maker(util) -> the python object a user would pass)."""
    import decimal
    D = decimal.Decimal
    n = V.NANOS_PER_DAY
    cases = []

    def add(kind, detail, k, maker):
        cases.append((kind, detail, (k,), maker))

    for k, bits in (('tinyint', 8), ('smallint', 16), ('int', 32), ('bigint', 64), ('counter', 64)):
        add('out-of-range', 'max+1', k, lambda u, bits=bits: 2 ** (bits - 1))
        add('out-of-range', 'min-1', k, lambda u, bits=bits: -2 ** (bits - 1) - 1)
        add('out-of-range', '2^bits', k, lambda u, bits=bits: 2 ** bits)
    add('beyond-int64', 'int ms 2^63', 'timestamp', lambda u: 2 ** 63)
    add('beyond-int64', 'int ms -2^63-1', 'timestamp', lambda u: -2 ** 63 - 1)
    add('beyond-int64', 'float ms 1e19', 'timestamp', lambda u: 1e19)
    add('beyond-uint32', 'Date(2^31)', 'date', lambda u: u.Date(2 ** 31))
    add('beyond-uint32', 'Date(-2^31-1)', 'date', lambda u: u.Date(-2 ** 31 - 1))
    add('negative', 'Time(-1)', 'time', lambda u: u.Time(-1))
    add('negative', 'int -1', 'time', lambda u: -1)
    add('negative', 'Time(-2^63)', 'time', lambda u: u.Time(-2 ** 63))
    add('one-day-or-more', 'Time(86400e9)', 'time', lambda u: u.Time(n))
    add('one-day-or-more', 'int 86400e9', 'time', lambda u: n)
    add('months-or-days-beyond-int32', 'months 2^31', 'duration', lambda u: u.Duration(2 ** 31, 0, 0))
    add('months-or-days-beyond-int32', 'months -2^31-1', 'duration', lambda u: u.Duration(-2 ** 31 - 1, 0, 0))
    add('months-or-days-beyond-int32', 'days 2^31', 'duration', lambda u: u.Duration(0, 2 ** 31, 0))
    add('months-or-days-beyond-int32', 'days -2^31-1', 'duration', lambda u: u.Duration(0, -2 ** 31 - 1, 0))
    add('nanoseconds-beyond-int64', 'nanoseconds 2^63', 'duration', lambda u: u.Duration(0, 0, 2 ** 63))
    add('nanoseconds-beyond-int64', 'nanoseconds -2^63-1', 'duration', lambda u: u.Duration(0, 0, -2 ** 63 - 1))
    add('scale-beyond-int32', '1E+2147483649', 'decimal', lambda u: D('1E+2147483649'))
    add('scale-beyond-int32', '1E-2147483648', 'decimal', lambda u: D('1E-2147483648'))
    add('non-finite', 'NaN', 'decimal', lambda u: D('NaN'))
    add('non-finite', '-Infinity', 'decimal', lambda u: D('-Infinity'))
    add('beyond-float32', '1e39', 'float', lambda u: 1e39)
    add('beyond-float32', '-1e39', 'float', lambda u: -1e39)
    add('beyond-float32', 'double max', 'float', lambda u: 1.7976931348623157e308)
    add('non-ascii', 'e-acute', 'ascii', lambda u: u'\xe9')
    add('non-ascii', 'U+0080', 'ascii', lambda u: u'a\x80')
    add('lone-surrogate', 'U+D800', 'text', lambda u: u'\ud800')
    add('malformed', '256.1.1.1', 'inet', lambda u: '256.1.1.1')
    add('malformed', '1.2.3.4.5', 'inet', lambda u: '1.2.3.4.5')
    add('malformed', 'g::1', 'inet', lambda u: 'g::1')
    return cases


def kind_range_cases():
    """Out-of-range values handed over as another accepted input kind:
    (failure kind, detail, scalar type, maker(util), the reference value the object stands for)."""
    import decimal
    D = decimal.Decimal
    n = V.NANOS_PER_DAY
    return [
        ('beyond-uint32', 'raw CQL int 2^32', ('date',), lambda u: 2 ** 32, 2 ** 31),
        ('beyond-uint32', 'raw CQL int -1', ('date',), lambda u: -1, -2 ** 31 - 1),
        ('one-day-or-more', "str '24:00:00'", ('time',), lambda u: '24:00:00', n),
        ('one-day-or-more', "str '23:59:60'", ('time',), lambda u: '23:59:60', n),
        ('one-day-or-more', "Time('23:59:60')", ('time',), lambda u: u.Time('23:59:60'), n),
        ('non-finite', 'float nan', ('decimal',), lambda u: float('nan'), D('NaN')),
        ('non-finite', 'float inf', ('decimal',), lambda u: float('inf'), D('Infinity')),
        ('non-finite', "str 'NaN'", ('decimal',), lambda u: 'NaN', D('NaN')),
        ('non-finite', "str '-Infinity'", ('decimal',), lambda u: '-Infinity', D('-Infinity')),
        ('scale-beyond-int32', "str '1E+2147483649'", ('decimal',), lambda u: '1E+2147483649', D('1E+2147483649')),
        ('scale-beyond-int32', "str '1E-2147483648'", ('decimal',), lambda u: '1E-2147483648', D('1E-2147483648')),
        ('beyond-float32', 'int 2^128', ('float',), lambda u: 2 ** 128, 2.0 ** 128),
        ('beyond-float32', 'int -2^128', ('float',), lambda u: -2 ** 128, -2.0 ** 128),
    ]


CONTEXTS = ('top', 'list', 'tuple', 'map-value', 'vector')


def in_context(ctx_name, t, bad):
    I = ('int',)
    if ctx_name == 'top':
        return t, bad
    if ctx_name == 'list':
        return ('list', t), [bad]
    if ctx_name == 'tuple':
        return ('tuple', I, t), (1, bad)
    if ctx_name == 'map-value':
        from cassandra.util import OrderedMap
        return ('map', I, t), OrderedMap([(1, bad)])
    if ctx_name == 'vector':
        return ('vector', t, 1), [bad]
    raise ValueError(ctx_name)


def structural_cases():
    """(label, fingerprint kind, type, maker, protocol versions)."""
    I, T = ('int',), ('text',)
    allpv = PVS
    old = (1, 2)
    return [
        ('too-few-elements', 'vector', ('vector', I, 2), lambda u: [1], allpv),
        ('too-many-elements', 'vector', ('vector', I, 2), lambda u: [1, 2, 3], allpv),
        ('too-few-elements', 'vector', ('vector', T, 2), lambda u: ['a'], allpv),
        ('too-many-elements', 'vector', ('vector', T, 2), lambda u: ['a', 'b', 'c'], allpv),
        ('null-element', 'vector', ('vector', I, 2), lambda u: [1, None], allpv),
        ('null-element', 'vector', ('vector', T, 2), lambda u: ['a', None], allpv),
        ('too-many-fields', 'tuple', ('tuple', I, T), lambda u: (1, 'a', 2), allpv),
        ('v2-count-over-65535', 'list', ('list', ('tinyint',)), lambda u: [0] * 65536, old),
        ('v2-count-over-65535', 'set', ('set', I), lambda u: list(range(65536)), old),
        ('v2-count-over-65535', 'map', ('map', I, ('tinyint',)), lambda u: dict((i, 0) for i in range(65536)), old),
        ('v2-element-over-65535-bytes', 'list', ('list', ('blob',)), lambda u: [b'x' * 65536], old),
        ('v2-element-over-65535-bytes', 'map', ('map', I, ('blob',)), lambda u: {1: b'x' * 65536}, old),
        ('v2-element-over-65535-bytes', 'map', ('map', ('blob',), I), lambda u: {b'x' * 65536: 1}, old),
    ]


def run_ranges(only=None):
    from cassandra import util
    part = Part()
    idx = 0
    for kind, detail, t, maker in range_cases():
        for cname in CONTEXTS:
            for pv in PVS:
                idx += 1
                if only is not None and idx != only:
                    continue
                _probe(part, idx, 'C02/range/%s/%s' % (t[0], kind), detail, t, maker, cname, pv, util)
    for label, kind, t, maker, pvs in structural_cases():
        for pv in pvs:
            idx += 1
            if only is not None and idx != only:
                continue
            _probe(part, idx, 'C02/range/%s/%s' % (kind, label), label, t, maker, 'top', pv, util)
    for kind, detail, t, maker, ref in kind_range_cases():        # appended: earlier replay indices stay valid
        for cname in CONTEXTS:
            for pv in PVS:
                idx += 1
                if only is not None and idx != only:
                    continue
                _probe(part, idx, 'C02/range/%s/%s' % (t[0], kind), detail, t, maker, cname, pv, util)
    return part


def _probe(part, idx, fp, detail, t, maker, cname, pv, util):
    part.count('evaluations')
    part.count('range_probes')
    try:
        bad = maker(util)
        ct, cv = in_context(cname, t, bad)
        # the reference must agree that the value is out of range (guards the probe list itself)
        b = B.driver_type(ct).to_binary(cv, pv)
    except Exception as e:
        part.outcome(('range', t[0], 'raises', type(e).__name__))
        part.mark_nontrivial(hash(('range', idx)))
        return
    part.violation(fp, 'out-of-range %s value (%s, in context %s, pv=%d) was encoded as %s instead of raising' % (
        tstr(t), detail, cname, pv, b[:64].hex()), {'range_index': idx})
    part.outcome(('range', t[0], 'encoded'))


def _self_check_range_list():
    """Every scalar probe must be out of range for the reference as well."""
    class U(object):       # reference-domain stand-ins for util.Date/Time/Duration
        Date = staticmethod(lambda d: d)
        Time = staticmethod(lambda n: n)
        Duration = staticmethod(lambda m, d, n: (m, d, n))
    for kind, label, t, maker in range_cases():
        v = maker(U)
        if t[0] == 'timestamp' and isinstance(v, float):
            v = int(v)
        try:
            V.encode(t, v, 4)
        except V.RefRangeError:
            continue
        raise AssertionError('range probe %s/%s is accepted by the reference' % (t[0], label))
    for kind, label, t, maker, ref in kind_range_cases():
        try:
            V.encode(t, ref, 4)
        except V.RefRangeError:
            continue
        raise AssertionError('range probe %s/%s is accepted by the reference' % (t[0], label))


def type_space(quick):
    if quick:
        levels = G.value_type_trees(3, base_deeper=(('int',), ('text',)), thorough=False)
    else:
        lv = G.value_type_trees(3, base_deeper=G.SCALAR_TYPES, thorough=True)
        lv4 = G.value_type_trees(4, base_deeper=(('int',), ('text',), ('double',), ('blob',)), thorough=True)
        levels = lv + [lv4[3]]
    return [[t for t in lvl if t[0] != 'reversed'] for lvl in levels]


def run(ctx):
    V.selftest()
    _self_check_range_list()
    thorough = not ctx.quick
    import cassandra.cqltypes       # imported before the fork so that the workers share it
    levels = type_space(ctx.quick)
    types = ctx.rotate([t for lvl in levels for t in lvl])
    n = 4 if ctx.quick else ctx.nproc * 4      # the quick grid takes ~3 s on one core: a few workers beat 16 forks
    chunks = [(thorough, types[i::n], None) for i in range(n)]
    vtypes = ctx.rotate(vint_types())
    m = 6 if ctx.quick else ctx.nproc * 2
    vchunks = [('vint', thorough, vtypes[i::m], None) for i in range(m)]
    nk = 4 if ctx.quick else ctx.nproc
    kchunks = [('kinds', thorough, i, nk, None) for i in range(nk)]
    for part in ctx.pmap(run_chunk, [c for c in chunks if c[1]] + [c for c in vchunks if c[2]] + kchunks):
        ctx.merge(part)
    ctx.merge(run_ranges())
    ctx.merge(run_size_writer())
    ctx.cov['vint_layer'] = {
        'unsigned_edges_64bit': len(G.vint_edges(64)), 'durations': len(G.vint_durations()),
        'vector_types': len(G.vint_vector_types()), 'element_sizes': [s for s in G.vint_edges(32, 1, G.VINT_MAX_K) if s <= (1 << 22)],
        'size_writer_edges': len(size_writer_edges())}
    ctx.cov['input_kind_layer'] = {'cases_per_type_and_kind': kind_summary(thorough), 'contexts': list(KIND_CONTEXTS),
                                   'versions_inside_containers': list(KIND_INNER_PVS), 'utc_offsets_minutes': list(TZ_OFFSET_MINUTES),
                                   'days': len(G.kind_days(thorough)), 'times_of_day': len(G.kind_times_of_day(thorough)),
                                   'instants': len(G.kind_instants(thorough)), 'range_probes': len(kind_range_cases())}
    ctx.cov['type_trees_per_level'] = [len(l) for l in levels]
    ctx.cov['protocol_versions'] = list(PVS)
    ctx.cov['rule'] = ('every type tree of the grid (levels %s) x every generated value x 8 protocol versions: one encode comparison '
                       'per accepted input form + one decode comparison; %d scalar range probes x %d contexts x 8 versions + %d '
                       'structural probes; vint layer: %d durations (every zig-zag edge 2^(7k)/2^(7k-1) +-1, k=1..9, whole-byte edges, alone in each '
                       'component, same-sign pairs in adjacent components) x 8 versions, %d vector types (11 variable-width element kinds x '
                       'dimension 1..3) x every element size on an edge up to 2^21+1 x positions (sizes above the kind\'s threshold, 2^15 for most: alone and '
                       'last of two, versions 4 and 5 in the quick tier), %d direct size-writer/reader probes up to 2^31-1; non-trivial = '
                       'distinct (type, value, version) with a non-empty encoding other than the first (ordinary) value of the type, every vint-layer '
                       'case, every range probe that raised, every size-writer probe >= 128; input-kind layer: %d (scalar type, input kind, value) cases '
                       '(per type and kind in input_kind_layer) x (8 versions at top level + versions %s inside list, tuple, map value), each one non-trivial; '
                       '%d more range probes given as other input kinds x %d contexts x 8 versions' % (
                           [len(l) for l in levels], len(range_cases()), len(CONTEXTS), len(structural_cases()),
                           len(G.vint_durations()), len(G.vint_vector_types()), 2 * len(size_writer_edges()),
                           sum(sum(d.values()) for d in ctx.cov['input_kind_layer']['cases_per_type_and_kind'].values()), list(KIND_INNER_PVS),
                           len(kind_range_cases()), len(CONTEXTS)))
    ctx.cov['exhaustive'] = True
    ctx.assume('sets and maps are handed to the driver in the order Cassandra\'s comparator gives them (the server re-sorts bound '
               'collections; the driver writes its argument in iteration order) - ordering itself is not compared')
    ctx.assume('null elements of list/set/map have no encoding before protocol v3: not generated for v1/v2')
    ctx.assume('vector element widths not decided by the reference (tinyint, smallint, date, time elements) are skipped, counted in skipped_width_not_decided')
    ctx.assume('vector elements above 2^21+1 bytes are not materialised: for sizes up to 2^31-1 (element sizes are Java ints) the size '
               'writer/reader bound in cassandra.cqltypes (uvint_pack/uvint_unpack) is compared with the reference directly')
    ctx.assume('Cassandra never emits non-minimal vints or varints; such encodings are not generated for the decode direction')
    ctx.assume('validity rules that are not ranges are not probed: mixed-sign durations, UDT values with surplus fields, inet spellings accepted by inet_aton')
    ctx.assume('legacy zero-length ("empty") values of non-text types are not generated')
    ctx.assume('input kinds whose CQL value is not decided by the type are not generated: aware datetimes for a date (UTC day or wall-clock day), '
               'datetimes / floats with a fraction of a millisecond for a timestamp (Cassandra has no such value), integral floats for a decimal '
               '(scale 0 or 1), floats whose shortest repr is not their exact value for a decimal, ints that a float32 cannot hold for a float, '
               'bool for integer types, IPv4 spellings other than the dotted quad')
    ctx.assume('strings that are malformed rather than out of range are not probed (time strings with a seconds field of 60 below 23:59:60, more than '
               '9 fractional digits, dates without zero padding)')
    ctx.assume('a timestamp beyond datetime\'s years (given as int/float) is compared in the encode direction only')


def replay(ctx, data):
    if 'range_index' in data:
        part = run_ranges(only=data['range_index'])
    elif 'size_writer' in data:
        part = run_size_writer(only=data['size_writer'])
    elif data.get('layer') == 'kinds':
        part = run_kinds((bool(data['thorough']), data['index'], 1, data))
    elif data.get('layer') == 'vint':
        part = run_chunk(('vint', bool(data['thorough']), [tuplify(data['type'])], data))
    else:
        part = run_chunk((bool(data['thorough']), [tuplify(data['type'])], data))
    for fp, what, _ in part.violations:
        print(fp, '::', what)
    return bool(part.violations)
