"""C02 Value encodings are byte-exact with Cassandra's type serializers.

Engine N: for every (type tree, value, protocol version) of the C01 grid the driver's bytes are
compared with the independent reference codec (vt.spec.values), the reference bytes -- including
encodings only Cassandra produces: -1 length null elements, UDT values that stop before later-added
fields -- are decoded by the driver and compared with the value, and a list of out-of-range values
per type must raise instead of producing bytes.
"""
from vt.core import Part
from vt.spec import values as V
from vt.spec import valuegen as G
from vt import valbridge as B

META = {
    'level': 'exploration',
    'engine': 'N',
    'technique': 'bounded-exhaustive differential comparison of the driver codec with an independent reference codec, both directions, plus range probes',
    'text': 'Same finite grid as C01 (21 scalars with boundary values, every container shape over every scalar, deeper '
            'levels over int/text trees (thorough: all scalars, fourth level over int/text/double/blob), 8 protocol versions). Three oracles per case: driver bytes == reference bytes '
            '(BigInteger varints, scale+unscaled decimals, zig-zag vints, 2^31-offset dates, 16/32-bit collection '
            'framing with -1 for null, unsigned-vint sizes in variable-width vectors); reference bytes decode in the '
            'driver to the value; every out-of-range value (integer edges +-1, duration components beyond int32/int64, '
            'time outside a day, dates outside uint32, decimal scales beyond int32, floats beyond float32, non-ASCII '
            'ascii, wrong vector dimension, oversize tuples, >65535 elements or bytes in v1/v2 collections), alone and '
            'as an element of list/tuple/map/vector, must raise.',
    'note': 'The reference is cross-checked against the fixed vectors of tests/unit/test_marshalling.py and test_types.py '
            'and protocol-spec examples (vt.spec.values.selftest, run at the start of every run). Vector element widths '
            'are compared only where Cassandra 5\'s fixed length is unambiguous.',
    'design_ref': 'C02',
}

PVS = G.PROTOCOL_VERSIONS


def tuplify(x):
    return tuple(tuplify(i) for i in x) if isinstance(x, (list, tuple)) else x


def tstr(t):
    return V.cql_name(t)


def _bytes_differ(st, sv, spv):
    try:
        want = V.encode(st, sv, spv)
    except (V.RefUnknown, V.RefUnrepresentable):
        return False
    return B.driver_type(st).to_binary(B.to_driver(st, sv), spv) != want


def _encode_raises(st, sv, spv):
    try:
        B.driver_type(st).to_binary(B.to_driver(st, sv), spv)
        return False
    except Exception:
        return True


def _decode_raises(st, sv, spv):
    try:
        want = V.encode(st, sv, spv)
    except V.RefError:
        return False
    try:
        B.driver_type(st).from_binary(want, spv)
        return False
    except Exception:
        return True


def _direct_null(t, v):
    t = V.unwrap(t)
    if t[0] in ('list', 'set'):
        return any(x is None for x in v)
    if t[0] == 'map':
        return any(a is None or b is None for a, b in v)
    return False


def check_encode(part, t, T, vi, v, dv, pv, form, want, case):
    try:
        b = T.to_binary(dv, pv)
    except Exception as e:
        try:
            lt, lv, where = B.localise(t, v, pv, _encode_raises)
        except Exception:
            lt, lv, where = t, v, ()
        part.violation('C02/encode-raises/%s/%s' % (lt[0], type(e).__name__),
                       'to_binary(%s, pv=%d) of %s raised %r for a value Cassandra encodes as %s (smallest failing part: %s %s inside %s)' % (
                           B.short(dv), pv, tstr(t), e, want[:64].hex(), lt[0], B.short(lv, 120), '/'.join(where) or 'top level'), case)
        part.outcome((t[0], 'encode-raises'))
        return
    if b == want:
        part.outcome((t[0], 'bytes-equal'))
        return b
    try:
        lt, lv, where = B.localise(t, v, pv, _bytes_differ)
    except Exception:
        lt, lv, where = t, v, ()
    lt = V.unwrap(lt)
    if lt[0] in V.SCALARS:
        tail = '%s/value' % lt[0]
    elif _direct_null(lt, lv):
        tail = '%s/null-element-length' % lt[0]
    else:
        tail = '%s/framing' % lt[0]
    part.violation('C02/bytes/%s' % tail,
                   '%s value %s (given as %s, pv=%d): driver wrote %s, Cassandra writes %s (smallest differing part: %s %s inside %s)' % (
                       tstr(t), B.short(v), form, pv, b[:96].hex(), want[:96].hex(), tstr(lt), B.short(lv, 120), '/'.join(where) or 'top level'),
                   case)
    part.outcome((t[0], 'bytes-differ', tail))
    return b


def check_decode(part, t, T, v, pv, want_bytes, case, what='reference'):
    try:
        r = T.from_binary(want_bytes, pv)
    except Exception as e:
        try:
            lt, lv, where = B.localise(t, v, pv, _decode_raises)
        except Exception:
            lt, lv, where = t, v, ()
        part.violation('C02/decode-raises/%s/%s' % (lt[0], type(e).__name__),
                       'from_binary(%s, pv=%d) of %s raised %r; Cassandra means %s (smallest failing part: %s %s inside %s)' % (
                           want_bytes[:64].hex(), pv, tstr(t), e, B.short(v), lt[0], B.short(lv, 120), '/'.join(where) or 'top level'), case)
        part.outcome((t[0], 'decode-raises'))
        return
    d = B.diff(t, v, B.from_driver(t, r))
    if d is None:
        part.outcome((t[0], 'decode-equal'))
        return
    tail, text = B.describe(d)
    part.violation('C02/decode/%s' % tail,
                   '%s bytes %s (pv=%d) mean %s to Cassandra but decode to %s: %s' % (
                       tstr(t), want_bytes[:96].hex(), pv, B.short(v), B.short(r), text), case)
    part.outcome((t[0], 'decode-differs', tail))


def run_chunk(args):
    thorough, types, only = args
    import logging
    logging.disable(logging.CRITICAL)
    part = Part()
    for t in types:
        T = B.driver_type(t)
        vals = G.values(t, thorough)
        part.count('types')
        extra = []
        if t[0] == 'udt' and len(t[3]) > 1:
            extra = [vals[0][:-1]]              # written before the last field was added: decode only
        for vi, v in enumerate(vals + extra):
            if only is not None and vi != only['value_index']:
                continue
            decode_only = vi >= len(vals)
            dv = None if decode_only else B.to_driver(t, v)
            forms = [] if decode_only else [('canonical', dv)] + [f for f in B.alt_forms(t, v) if f[0] != 'python-set']
            for pv in PVS:
                if only is not None and pv != only['pv']:
                    continue
                case = {'type': t, 'value_index': vi, 'pv': pv, 'thorough': thorough, 'cql_type': tstr(t), 'value': B.short(v, 400)}
                try:
                    want = V.encode(t, v, pv)
                except V.RefUnknown:
                    part.count('skipped_width_not_decided')
                    continue
                except V.RefUnrepresentable:
                    part.count('skipped_null_element_before_v3')
                    continue
                b = None
                for form, fv in forms:
                    part.count('evaluations')
                    part.count('encode_comparisons')
                    b = check_encode(part, t, T, vi, v, fv, pv, form, want, dict(case, form=form))
                part.count('evaluations')
                part.count('decode_comparisons')
                check_decode(part, t, T, v, pv, want, dict(case, form='decode'))
                if len(want) > 0 and vi > 0:
                    part.mark_nontrivial(hash((t, vi, pv)))
                if vi == 4:
                    part.sample({'type': tstr(t), 'value': B.short(v, 120), 'pv': pv, 'reference_bytes': want[:48].hex(),
                                 'driver_bytes': None if b is None else b[:48].hex()}, limit=2)
    return part


# ------------------------------------------------------------------------------- range probes
def range_cases():
    """(failure kind, detail, scalar type, maker(util) -> the python object a user would pass)."""
    import decimal
    D = decimal.Decimal
    n = V.NANOS_PER_DAY
    cases = []

    def add(kind, detail, k, maker):
        cases.append((kind, detail, (k,), maker))

    for k, bits in (('tinyint', 8), ('smallint', 16), ('int', 32), ('bigint', 64), ('counter', 64)):
        add('out-of-range', 'max+1', k, lambda u, bits=bits: 2 ** (bits - 1))
        add('out-of-range', 'min-1', k, lambda u, bits=bits: -2 ** (bits - 1) - 1)
        add('out-of-range', '2^bits', k, lambda u, bits=bits: 2 ** bits)
    add('beyond-int64', 'int ms 2^63', 'timestamp', lambda u: 2 ** 63)
    add('beyond-int64', 'int ms -2^63-1', 'timestamp', lambda u: -2 ** 63 - 1)
    add('beyond-int64', 'float ms 1e19', 'timestamp', lambda u: 1e19)
    add('beyond-uint32', 'Date(2^31)', 'date', lambda u: u.Date(2 ** 31))
    add('beyond-uint32', 'Date(-2^31-1)', 'date', lambda u: u.Date(-2 ** 31 - 1))
    add('negative', 'Time(-1)', 'time', lambda u: u.Time(-1))
    add('negative', 'int -1', 'time', lambda u: -1)
    add('negative', 'Time(-2^63)', 'time', lambda u: u.Time(-2 ** 63))
    add('one-day-or-more', 'Time(86400e9)', 'time', lambda u: u.Time(n))
    add('one-day-or-more', 'int 86400e9', 'time', lambda u: n)
    add('months-or-days-beyond-int32', 'months 2^31', 'duration', lambda u: u.Duration(2 ** 31, 0, 0))
    add('months-or-days-beyond-int32', 'months -2^31-1', 'duration', lambda u: u.Duration(-2 ** 31 - 1, 0, 0))
    add('months-or-days-beyond-int32', 'days 2^31', 'duration', lambda u: u.Duration(0, 2 ** 31, 0))
    add('months-or-days-beyond-int32', 'days -2^31-1', 'duration', lambda u: u.Duration(0, -2 ** 31 - 1, 0))
    add('nanoseconds-beyond-int64', 'nanoseconds 2^63', 'duration', lambda u: u.Duration(0, 0, 2 ** 63))
    add('nanoseconds-beyond-int64', 'nanoseconds -2^63-1', 'duration', lambda u: u.Duration(0, 0, -2 ** 63 - 1))
    add('scale-beyond-int32', '1E+2147483649', 'decimal', lambda u: D('1E+2147483649'))
    add('scale-beyond-int32', '1E-2147483648', 'decimal', lambda u: D('1E-2147483648'))
    add('non-finite', 'NaN', 'decimal', lambda u: D('NaN'))
    add('non-finite', '-Infinity', 'decimal', lambda u: D('-Infinity'))
    add('beyond-float32', '1e39', 'float', lambda u: 1e39)
    add('beyond-float32', '-1e39', 'float', lambda u: -1e39)
    add('beyond-float32', 'double max', 'float', lambda u: 1.7976931348623157e308)
    add('non-ascii', 'e-acute', 'ascii', lambda u: u'\xe9')
    add('non-ascii', 'U+0080', 'ascii', lambda u: u'a\x80')
    add('lone-surrogate', 'U+D800', 'text', lambda u: u'\ud800')
    add('malformed', '256.1.1.1', 'inet', lambda u: '256.1.1.1')
    add('malformed', '1.2.3.4.5', 'inet', lambda u: '1.2.3.4.5')
    add('malformed', 'g::1', 'inet', lambda u: 'g::1')
    return cases


CONTEXTS = ('top', 'list', 'tuple', 'map-value', 'vector')


def in_context(ctx_name, t, bad):
    I = ('int',)
    if ctx_name == 'top':
        return t, bad
    if ctx_name == 'list':
        return ('list', t), [bad]
    if ctx_name == 'tuple':
        return ('tuple', I, t), (1, bad)
    if ctx_name == 'map-value':
        from cassandra.util import OrderedMap
        return ('map', I, t), OrderedMap([(1, bad)])
    if ctx_name == 'vector':
        return ('vector', t, 1), [bad]
    raise ValueError(ctx_name)


def structural_cases():
    """(label, fingerprint kind, type, maker, protocol versions)."""
    I, T = ('int',), ('text',)
    allpv = PVS
    old = (1, 2)
    return [
        ('too-few-elements', 'vector', ('vector', I, 2), lambda u: [1], allpv),
        ('too-many-elements', 'vector', ('vector', I, 2), lambda u: [1, 2, 3], allpv),
        ('too-few-elements', 'vector', ('vector', T, 2), lambda u: ['a'], allpv),
        ('too-many-elements', 'vector', ('vector', T, 2), lambda u: ['a', 'b', 'c'], allpv),
        ('null-element', 'vector', ('vector', I, 2), lambda u: [1, None], allpv),
        ('null-element', 'vector', ('vector', T, 2), lambda u: ['a', None], allpv),
        ('too-many-fields', 'tuple', ('tuple', I, T), lambda u: (1, 'a', 2), allpv),
        ('v2-count-over-65535', 'list', ('list', ('tinyint',)), lambda u: [0] * 65536, old),
        ('v2-count-over-65535', 'set', ('set', I), lambda u: list(range(65536)), old),
        ('v2-count-over-65535', 'map', ('map', I, ('tinyint',)), lambda u: dict((i, 0) for i in range(65536)), old),
        ('v2-element-over-65535-bytes', 'list', ('list', ('blob',)), lambda u: [b'x' * 65536], old),
        ('v2-element-over-65535-bytes', 'map', ('map', I, ('blob',)), lambda u: {1: b'x' * 65536}, old),
        ('v2-element-over-65535-bytes', 'map', ('map', ('blob',), I), lambda u: {b'x' * 65536: 1}, old),
    ]


def run_ranges(only=None):
    from cassandra import util
    part = Part()
    idx = 0
    for kind, detail, t, maker in range_cases():
        for cname in CONTEXTS:
            for pv in PVS:
                idx += 1
                if only is not None and idx != only:
                    continue
                _probe(part, idx, 'C02/range/%s/%s' % (t[0], kind), detail, t, maker, cname, pv, util)
    for label, kind, t, maker, pvs in structural_cases():
        for pv in pvs:
            idx += 1
            if only is not None and idx != only:
                continue
            _probe(part, idx, 'C02/range/%s/%s' % (kind, label), label, t, maker, 'top', pv, util)
    return part


def _probe(part, idx, fp, detail, t, maker, cname, pv, util):
    part.count('evaluations')
    part.count('range_probes')
    try:
        bad = maker(util)
        ct, cv = in_context(cname, t, bad)
        # the reference must agree that the value is out of range (guards the probe list itself)
        b = B.driver_type(ct).to_binary(cv, pv)
    except Exception as e:
        part.outcome(('range', t[0], 'raises', type(e).__name__))
        part.mark_nontrivial(hash(('range', idx)))
        return
    part.violation(fp, 'out-of-range %s value (%s, in context %s, pv=%d) was encoded as %s instead of raising' % (
        tstr(t), detail, cname, pv, b[:64].hex()), {'range_index': idx})
    part.outcome(('range', t[0], 'encoded'))


def _self_check_range_list():
    """Every scalar probe must be out of range for the reference as well."""
    class U(object):       # reference-domain stand-ins for util.Date/Time/Duration
        Date = staticmethod(lambda d: d)
        Time = staticmethod(lambda n: n)
        Duration = staticmethod(lambda m, d, n: (m, d, n))
    for kind, label, t, maker in range_cases():
        v = maker(U)
        if t[0] == 'timestamp' and isinstance(v, float):
            v = int(v)
        try:
            V.encode(t, v, 4)
        except V.RefRangeError:
            continue
        raise AssertionError('range probe %s/%s is accepted by the reference' % (t[0], label))


def type_space(quick):
    if quick:
        levels = G.value_type_trees(3, base_deeper=(('int',), ('text',)), thorough=False)
    else:
        lv = G.value_type_trees(3, base_deeper=G.SCALAR_TYPES, thorough=True)
        lv4 = G.value_type_trees(4, base_deeper=(('int',), ('text',), ('double',), ('blob',)), thorough=True)
        levels = lv + [lv4[3]]
    return [[t for t in lvl if t[0] != 'reversed'] for lvl in levels]


def run(ctx):
    V.selftest()
    _self_check_range_list()
    thorough = not ctx.quick
    import cassandra.cqltypes       # imported before the fork so that the workers share it
    levels = type_space(ctx.quick)
    types = ctx.rotate([t for lvl in levels for t in lvl])
    n = 4 if ctx.quick else ctx.nproc * 4      # the quick grid takes ~3 s on one core: a few workers beat 16 forks
    chunks = [(thorough, types[i::n], None) for i in range(n)]
    for part in ctx.pmap(run_chunk, [c for c in chunks if c[1]]):
        ctx.merge(part)
    ctx.merge(run_ranges())
    ctx.cov['type_trees_per_level'] = [len(l) for l in levels]
    ctx.cov['protocol_versions'] = list(PVS)
    ctx.cov['rule'] = ('every type tree of the grid (levels %s) x every generated value x 8 protocol versions: one encode comparison '
                       'per accepted input form + one decode comparison; %d scalar range probes x %d contexts x 8 versions + %d '
                       'structural probes; non-trivial = distinct (type, value, version) with a non-empty encoding other than the '
                       'first (ordinary) value of the type, and every range probe that raised' % (
                           [len(l) for l in levels], len(range_cases()), len(CONTEXTS), len(structural_cases())))
    ctx.cov['exhaustive'] = True
    ctx.assume('sets and maps are handed to the driver in the order Cassandra\'s comparator gives them (the server re-sorts bound '
               'collections; the driver writes its argument in iteration order) - ordering itself is not compared')
    ctx.assume('null elements of list/set/map have no encoding before protocol v3: not generated for v1/v2')
    ctx.assume('vector element widths not decided by the reference (tinyint, smallint, date, time elements) are skipped, counted in skipped_width_not_decided')
    ctx.assume('Cassandra never emits non-minimal vints or varints; such encodings are not generated for the decode direction')
    ctx.assume('validity rules that are not ranges are not probed: mixed-sign durations, UDT values with surplus fields, inet spellings accepted by inet_aton')
    ctx.assume('legacy zero-length ("empty") values of non-text types are not generated')


def replay(ctx, data):
    if 'range_index' in data:
        part = run_ranges(only=data['range_index'])
    else:
        part = run_chunk((bool(data['thorough']), [tuplify(data['type'])], data))
    for fp, what, _ in part.violations:
        print(fp, '::', what)
    return bool(part.violations)
