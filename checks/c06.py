"""C06 Protocol v5 segments are reassembled exactly and corruption is detected.

Connection setup: a v5 VConnection is taken through the handshakes READY, AUTHENTICATE + AUTH_SUCCESS
and AUTHENTICATE + AUTH_CHALLENGE + AUTH_SUCCESS, without and with lz4, one answer of the node at a
time and under every splitting of a stated family; the node reads what the driver sends with the
independent segment reader in the negotiated form.
Incoming: response streams are written by the independent segment writer of vt.world.wire (plain
form, lz4 form, "left uncompressed inside an lz4 connection" form; self-contained segments with
one or several frames alone and followed by further segments, frames spanning several segments,
frame sizes around the 128 KiB - 1 payload limit) and fed to the connection after each of those
handshakes under every splitting of a stated family.
Outgoing: requests of boundary sizes are encoded by the driver and read back by the independent
reader.  Corruption: every single-bit flip of small multi-segment streams x every one-cut split.
"""
import hashlib

from vt.core import Part, HarnessError
from vt import connlib

META = {
    'level': 'exploration',
    'engine': 'E',
    'technique': 'exhaustive enumeration of read splittings and single-bit faults of v5 segment streams on the real Connection',
    'text': 'A protocol-v5 connection (no compression / lz4 via the pure-Python lz4 block codec in /verif/stubs) is set up by each of '
            'the handshakes STARTUP->READY, STARTUP->AUTHENTICATE->AUTH_RESPONSE->AUTH_SUCCESS and the same with one AUTH_CHALLENGE '
            'round (PlainTextAuthenticator), the answers of the node fed one at a time under all splittings with <=2 cuts of one '
            'answer and one byte per read: everything the driver sends once framing is on must be readable by the independent '
            'segment reader of the node in the negotiated form (plain / lz4 header) with the SASL tokens intact, no intact answer '
            'may fail the connection, and each answer must have its effect exactly when its last byte has arrived.  After each '
            'handshake the connection '
            'receives segment streams written by an independent writer: small streams (one frame, two segments, two frames in '
            'one segment, a frame spread over two non-self-contained segments, segments with two or three coalesced frames '
            'followed by a one-frame segment / another coalesced segment / a multi-segment frame, also behind a multi-segment frame, '
            'compressed and left-uncompressed lz4 segments in both orders, with one and with two frames) under all splittings with '
            '<=2 cuts anywhere, <=3 cuts next to header/CRC/payload boundaries and one byte '
            'per read (after the two authenticating handshakes: <=1 cut anywhere, <=2 next to boundaries, one byte per read); '
            'frames of MAX-1, MAX, MAX+1, 2*MAX, 2*MAX+5 bytes (MAX = 131071) alone, next to a small frame and behind a '
            'two-frame segment under '
            'all 1- and 2-cut splittings with cuts next to every segment boundary.  After each read the frames delivered to the '
            'handlers registered by send_msg must be exactly those whose last segment has completely arrived (frames held back '
            'while the read ends inside a later segment are reported under C06/clean-withheld and followed to the end of the '
            'stream), and the '
            'connection must not fail.  The driver\'s own encoder is read back by the independent reader for request sizes '
            'around the segment limit.  Every single-bit flip of five small multi-segment streams (self-contained and not, coalesced, plain and both lz4 forms) x every 1-cut split must '
            'leave the connection defunct with CrcMismatchException and deliver only unaltered frames of earlier segments.',
    'note': 'Trusted: vt.world.wire segment writer/reader (CRC24/CRC32 per native_protocol_v5.spec) and the lz4 block codec stub '
            '(self-tested on hand-written vectors).  Small non-self-contained segments are legal on the wire but not produced by '
            'Cassandra for small frames; they stand in for the multi-segment path under complete split enumeration.',
    'design_ref': 'C06',
}

MAX = 128 * 1024 - 1
FIRST_STREAM = 2          # stream ids handed out after the two handshake requests
# connection setups that end in v5 framing: the requests the node must see, in order, what it answers, the
# SASL tokens a PlainTextAuthenticator('u', 'p') sends, and the first stream id handed out afterwards
HANDSHAKES = {
    'ready': {'authenticator': None, 'requests': ('OPTIONS', 'STARTUP'), 'tokens': (), 'first': 2},
    'auth': {'authenticator': 'org.apache.cassandra.auth.PasswordAuthenticator',
             'requests': ('OPTIONS', 'STARTUP', 'AUTH_RESPONSE'), 'tokens': (b'\x00u\x00p',), 'first': 3},
    # DSE: mechanism name first, the node challenges, then the credentials
    'auth-challenge': {'authenticator': 'com.datastax.bdp.cassandra.auth.DseAuthenticator',
                       'requests': ('OPTIONS', 'STARTUP', 'AUTH_RESPONSE', 'AUTH_RESPONSE'),
                       'tokens': (b'PLAIN', b'\x00u\x00p'), 'first': 4},
}


def noise(n, salt=b'x'):
    """incompressible deterministic bytes"""
    out = bytearray()
    i = 0
    while len(out) < n:
        out += hashlib.sha256(salt + i.to_bytes(4, 'big')).digest()
        i += 1
    return bytes(out[:n])


def frame_of(stream, body, flags=0):
    from vt.world import wire
    return wire.frame(5, stream, wire.OP_RESULT, body, flags=flags)


class Stream(object):
    """bytes of a segment stream + what must come out of it"""
    def __init__(self, name, lz4, first=FIRST_STREAM):
        self.name, self.lz4, self.first = name, lz4, first
        self.data = b''
        self.frames = []        # (stream id, flags, body)
        self.ready_at = []      # per frame: offset at which its last segment is complete
        self.segs = []          # (start, header_end, header_crc_end, payload_end, end, form)
        self.nframes = []       # per segment: number of frames that END in it (>= 2: coalesced responses)
        self._n = 0

    def next_sid(self):
        s = self.first + self._n
        self._n += 1
        return s

    def add_segment(self, payload, self_contained, form, strict=True):
        from vt.world import wire
        start = len(self.data)
        if not self.lz4:
            seg = wire.segment(payload, self_contained)
            hl = 3
        else:
            seg = wire.segment_lz4(payload, self_contained, connlib.lz4_block_compress if form == 'C' else None)
            hl = 5
            ulen = (int.from_bytes(seg[:5], 'little') >> 17) & 0x1ffff
            if (form == 'C') != (ulen > 0):
                if strict:
                    raise HarnessError('stream %s: payload did not take the intended form %s' % (self.name, form))
                form = 'C' if ulen > 0 else 'U'        # e.g. the short tail of a large compressible frame
        self.data += seg
        end = len(self.data)
        self.segs.append((start, start + hl, start + hl + 3, end - 4, end, form))
        return end

    def sc(self, bodies, form):
        """one self-contained segment carrying len(bodies) frames"""
        payload = b''
        new = []
        for body in bodies:
            sid = self.next_sid()
            flags = 0x02 if len(body) == 7 else 0
            payload += frame_of(sid, body, flags)
            new.append((sid, flags, body))
        end = self.add_segment(payload, True, form)
        self.nframes.append(len(new))
        for f in new:
            self.frames.append(f)
            self.ready_at.append(end)
        return self

    def multi(self, body, piece, form):
        """one frame spread over non-self-contained segments of `piece` payload bytes"""
        sid = self.next_sid()
        fb = frame_of(sid, body)
        end = None
        for i in range(0, len(fb), piece):
            end = self.add_segment(fb[i:i + piece], False, form, strict=False)
            self.nframes.append(0)
        self.nframes[-1] = 1
        self.frames.append((sid, 0, body))
        self.ready_at.append(end)
        return self

    def boundaries(self):
        out = set()
        for s in self.segs:
            out.update(s[:5])
        return sorted(out)

    def form_at(self, offset):
        """form of the segment being received when `offset` bytes have arrived"""
        for s in self.segs:
            if s[0] < offset <= s[4]:
                return s[5]
        return self.segs[-1][5]

    def trigger(self, read_ends):
        """input class of a splitting, by the first read boundary (in order) that is special:
        'short-header-read' = a read ends with fewer bytes of a segment buffered than its header + header CRC;
        'uncompressed-form-tail' = a read ends 1-2 bytes before the end of a segment written in the
        "left uncompressed inside an lz4 connection" form; otherwise 'coalesced-segment-then-more' = the
        stream has a segment carrying two or more frames that is followed by a further segment; 'other' = none
        of these."""
        for fed in read_ends:
            for s in self.segs:
                if s[0] < fed < s[4]:
                    if fed - s[0] < s[2] - s[0]:
                        return 'short-header-read'
                    if s[5] == 'U' and s[4] - fed <= 2:
                        return 'uncompressed-form-tail'
        if any(n >= 2 for n in self.nframes[:-1]):
            return 'coalesced-segment-then-more'
        return 'other'

    def seg_index_of_byte(self, i):
        for k, s in enumerate(self.segs):
            if s[0] <= i < s[4]:
                return k
        raise IndexError(i)


ZB = b'\x00' * 40        # compresses


def _pf(lz):
    return 'U' if lz else 'P'


SMALL = {
    # name: builder(lz4?, first stream id)
    'one-empty-frame': lambda lz, f: Stream('one-empty-frame', lz, f).sc([b''], _pf(lz)),
    'two-segments': lambda lz, f: Stream('two-segments', lz, f).sc([b'\x41'], _pf(lz)).sc([b'\x51\x52\x53\x54\x55\x56\x57'], _pf(lz)),
    'two-frames-one-segment': lambda lz, f: Stream('two-frames-one-segment', lz, f).sc([b'\x41', b''], _pf(lz)),
    'frame-over-two-segments': lambda lz, f: Stream('frame-over-two-segments', lz, f).multi(b'\x61\x62\x63\x64\x65', 8, _pf(lz)),
    'multi-then-single': lambda lz, f: Stream('multi-then-single', lz, f).multi(b'\x61\x62\x63', 7, _pf(lz)).sc([b'\x71'], _pf(lz)),
    # a node coalesces small responses into one self-contained segment; more segments follow
    'two-frames-then-segment': lambda lz, f: Stream('two-frames-then-segment', lz, f).sc([b'\x41', b'\x42\x43'], _pf(lz)).sc([b'\x51'], _pf(lz)),
    'three-frames-then-two-frames': lambda lz, f: Stream('three-frames-then-two-frames', lz, f).sc([b'\x41', b'', b'\x43\x44'], _pf(lz)).sc([b'\x51\x52\x53', b'\x54'], _pf(lz)),
    'two-frames-then-multi': lambda lz, f: Stream('two-frames-then-multi', lz, f).sc([b'', b'\x42'], _pf(lz)).multi(b'\x61\x62\x63', 7, _pf(lz)),
    'multi-then-two-frames-then-single': lambda lz, f: Stream('multi-then-two-frames-then-single', lz, f).multi(b'\x61', 6, _pf(lz)).sc([b'\x41', b''], _pf(lz)).sc([b'\x71'], _pf(lz)),
}
SMALL_LZ4_ONLY = {
    'compressed': lambda lz, f: Stream('compressed', True, f).sc([ZB], 'C'),
    'uncompressed-then-compressed': lambda lz, f: Stream('uncompressed-then-compressed', True, f).sc([b'\x41'], 'U').sc([ZB], 'C'),
    'compressed-then-uncompressed': lambda lz, f: Stream('compressed-then-uncompressed', True, f).sc([ZB], 'C').sc([b'\x41\x42'], 'U'),
    'compressed-two-frames': lambda lz, f: Stream('compressed-two-frames', True, f).sc([ZB, ZB + b'\x01'], 'C'),
    'compressed-two-frames-then-uncompressed': lambda lz, f: Stream('compressed-two-frames-then-uncompressed', True, f).sc([ZB, ZB + b'\x01'], 'C').sc([b'\x41'], 'U'),
    'uncompressed-two-frames-then-compressed': lambda lz, f: Stream('uncompressed-two-frames-then-compressed', True, f).sc([b'\x41', b''], 'U').sc([ZB], 'C'),
}
FLIP_STREAMS = ((False, 'two-segments'), (False, 'frame-over-two-segments'), (True, 'uncompressed-then-compressed'),
                (True, 'compressed-then-uncompressed'), (False, 'two-frames-then-segment'))
BIG_SIZES = {'MAX-1': MAX - 1, 'MAX': MAX, 'MAX+1': MAX + 1, '2MAX': 2 * MAX, '2MAX+5': 2 * MAX + 5}


def big_core(name):
    return name.replace('small+', '').replace('+small', '').replace('pair+', '')


def big_stream(name, lz4, form, first=FIRST_STREAM):
    """name = size key, optionally '+small' / 'small+' / 'pair+' (pair = two frames coalesced in one segment)"""
    size = BIG_SIZES[big_core(name)]
    st = Stream('%s/%s' % (name, form), lz4, first)
    if name.startswith('small+'):
        st.sc([b'\x41'], 'U' if lz4 else 'P')
    if name.startswith('pair+'):
        st.sc([b'\x41', b'\x42\x43'], 'U' if lz4 else 'P')
    body_len = size - 9
    body = noise(body_len) if form in ('P', 'U') else (b'0123456789abcdef' * (body_len // 16 + 1))[:body_len]
    if size <= MAX:
        st.sc([body], form)
    else:
        st.multi(body, MAX, form)
    if name.endswith('+small'):
        st.sc([b'\x71\x72'], 'U' if lz4 else 'P')
    return st


def get_stream(kind, name, lz4, form=None, hs='ready'):
    first = HANDSHAKES[hs]['first']
    if kind == 'small':
        b = SMALL.get(name) or SMALL_LZ4_ONLY[name]
        return b(lz4, first)
    return big_stream(name, lz4, form, first)


# ------------------------------------------------------------------ one execution
def open_connection(lz4, hs='ready', split=None):
    """A v5 VConnection taken through handshake `hs` one server answer at a time; split = {step: cuts} feeds
    the answer to request number `step` in pieces (default: one read per answer).
    -> (world, server, connection, problem); problem = None or (oracle clause, step, text).  The judgement is made
    on the wire only: the independent reader of the node must accept everything the driver pushes once framing is
    on, every intact answer must be taken without failing the connection, and must have its effect (the next
    request arrives / the connection reports itself connected) once its last byte has arrived."""
    from vt.world.vworld import World, VConnection
    from vt.world import wire
    from cassandra.auth import PlainTextAuthenticator
    from cassandra.connection import CrcMismatchException
    H = HANDSHAKES[hs]
    split = split or {}
    srv = connlib.make_seg_server(compression=['lz4'] if lz4 else [], authenticator=H['authenticator'])
    if hs == 'auth-challenge':
        challenged = []

        def on_request(server, conn, stream, req):
            if req['op'] == 'AUTH_RESPONSE' and not challenged:
                challenged.append(stream)
                return wire.OP_AUTH_CHALLENGE, wire.w_bytes(b'PLAIN-START')
            return None
        srv.on_request = on_request
    srv.hold = lambda c, r: True
    w = World(srv)
    w.__enter__()
    try:
        conn = VConnection(srv.hosts[0].address, protocol_version=5, compression=bool(lz4),
                           authenticator=PlainTextAuthenticator('u', 'p') if H['authenticator'] else None)
        st = conn.server_state
        problem = None
        tokens = []

        def state():
            return 'defunct=%r closed=%r last_error=%r' % (conn.is_defunct, conn.is_closed, conn.last_error)

        for step, op in enumerate(H['requests']):
            got = [p.req['op'] for p in srv.pending]
            if got != [op]:
                if step < 2:       # OPTIONS / STARTUP travel before any framing: not this property's business
                    raise HarnessError('v5 setup %s: node holds %r at step %d, expected %s; %s' % (hs, got, step, op, state()))
                if st.get('unreadable'):
                    problem = ('unreadable-by-server', step, 'the node cannot read what the driver sent after the answer to %s: %s' % (
                        H['requests'][step - 1], st['unreadable'][0]))
                elif conn.is_defunct or conn.is_closed:
                    crc = isinstance(conn.last_error, CrcMismatchException)
                    problem = ('clean', step, '%s on the intact answer to request %d (%s): %s' % (
                        'spurious checksum error' if crc else 'connection failed', step - 1, H['requests'][step - 1], state()))
                else:
                    problem = ('lost', step, 'the complete answer to request %d (%s) has arrived but the node sees %r instead of %s; %s' % (
                        step - 1, H['requests'][step - 1], got, op, state()))
                break
            p = srv.pending[0]
            if op == 'AUTH_RESPONSE':
                tokens.append(p.req.get('token'))
                if p.req.get('trailing') or tokens[-1] != H['tokens'][len(tokens) - 1]:
                    problem = ('auth-token-altered', step, 'AUTH_RESPONSE %d read by the node carries %r (+%r trailing bytes), the authenticator gave %r' % (
                        len(tokens), tokens[-1], p.req.get('trailing'), H['tokens'][len(tokens) - 1]))
                    break
            srv.answer(p)
            if step == 1 and (not st.get('framed') or bool(st.get('lz4')) != bool(lz4)):
                raise HarnessError('v5 setup %s: STARTUP options %r, wanted lz4=%r' % (hs, p.req.get('options'), lz4))
            if len(srv.outbox) != 1:
                raise HarnessError('v5 setup %s: %d answers queued at step %d' % (hs, len(srv.outbox), step))
            _, data = srv.outbox.popleft()
            st.setdefault('answer_lens', {})[step] = len(data)
            fed = 0
            for ch in connlib.chunks(data, tuple(split.get(step, ()))):
                early = len(srv.pending) or conn.connected_event.is_set()
                if fed and early and not (conn.is_defunct or conn.is_closed):
                    problem = ('early', step + 1, 'the answer to request %d (%s) had its effect after %d of its %d bytes' % (
                        step, op, fed, len(data)))
                    break
                try:
                    connlib.guarded_feed(conn, ch)
                except connlib.Livelock as e:
                    problem = ('livelock', step + 1, 'the read of bytes %d..%d of the %d-byte answer to request %d (%s) never returned: %s' % (
                        fed, fed + len(ch), len(data), step, op, e))
                    break
                fed += len(ch)
            if problem:
                break
        if problem is None:
            n = len(H['requests'])
            if srv.pending:
                raise HarnessError('v5 setup %s: unexpected further request %r' % (hs, [p.req['op'] for p in srv.pending]))
            if st.get('unreadable'):
                problem = ('unreadable-by-server', n, 'the node cannot read what the driver sent: %s' % st['unreadable'][0])
            elif conn.is_defunct or conn.is_closed:
                crc = isinstance(conn.last_error, CrcMismatchException)
                problem = ('clean', n, '%s on the intact answer to request %d (%s): %s' % (
                    'spurious checksum error' if crc else 'connection failed', n - 1, H['requests'][-1], state()))
            elif not conn.connected_event.is_set():
                problem = ('lost', n, 'the complete answer to the last request (%s) has arrived, the connection does not report itself connected; %s' % (
                    H['requests'][-1], state()))
        if problem and problem[1] < 2:
            raise HarnessError('v5 setup %s failed before framing: %r' % (hs, problem))
        srv.on_request = None
        return w, srv, conn, problem
    except BaseException:
        w.__exit__()
        raise


def codec_label(lz4, hs):
    return ('lz4' if lz4 else 'plain') + ('' if hs == 'ready' else '/after-' + hs)


def report_handshake(part, problem, lz4, hs, split=None):
    codec = 'lz4' if lz4 else 'plain'
    case = {'kind': 'handshake', 'codec': codec, 'handshake': hs, 'split': {str(k): list(v) for k, v in (split or {}).items()}}
    part.violation('C06/handshake/%s/%s/%s' % (problem[0], hs, codec),
                   'connection setup %s with %s framing, step %d: %s; case %r' % (hs, codec, problem[1], problem[2], case), case)


def connect(lz4, hs, part):
    """-> (world, server, connection) after a whole-answer handshake, or None when that already broke the
    property (reported under the handshake fingerprint)"""
    w, srv, conn, problem = open_connection(lz4, hs)
    if problem:
        w.__exit__()
        report_handshake(part, problem, lz4, hs)
        part.count('evaluations')
        part.count('executions')
        part.outcome(('lz4' if lz4 else 'plain', 'handshake-failed', hs))
        return None
    return w, srv, conn


def handshake_case(lz4, hs, split, part):
    """one handshake execution under a splitting of the node's answers"""
    w, srv, conn, problem = open_connection(lz4, hs, split)
    try:
        if problem:
            report_handshake(part, problem, lz4, hs, split)
        part.count('evaluations')
        part.count('executions')
        part.count('handshakes')
        part.outcome(('lz4' if lz4 else 'plain', 'handshake', hs, problem[0] if problem else 'connected'))
        return problem
    finally:
        w.__exit__()


def receive(st, cuts, part, flip=None, hs='ready'):
    """feed st.data (optionally with one bit flipped) split at cuts; judge."""
    from cassandra.protocol import OptionsMessage
    from cassandra.connection import CrcMismatchException
    if st.first != HANDSHAKES[hs]['first']:
        raise HarnessError('stream built for first id %d used after handshake %s' % (st.first, hs))
    opened = connect(st.lz4, hs, part)
    if opened is None:
        return ('handshake', '')
    w, srv, conn = opened
    try:
        srv.hold = lambda c, r: True
        log = []
        codec = codec_label(st.lz4, hs)
        case = {'codec': 'lz4' if st.lz4 else 'plain', 'handshake': hs, 'stream': st.name, 'cuts': list(cuts), 'flip': flip}
        for sid, _, _ in st.frames:
            with conn.lock:
                rid = conn.get_request_id()
            if rid != sid:
                raise HarnessError('stream id drift: got %d, stream built for %d' % (rid, sid))
            try:
                conn.send_msg(OptionsMessage(), rid, lambda r, rid=rid: log.append(
                    (rid,) + r.key() if isinstance(r, connlib.RawResponse) else (rid, 'exc', type(r).__name__)),
                    decoder=connlib.raw_decoder)
            except ValueError as e:       # raised by the independent reader inside push()
                bad = ('unreadable', 'the node cannot read the OPTIONS request sent on stream %d: %s' % (rid, e))
                part.violation('C06/encode/%s/%s' % (bad[0], codec), '%s; case %r' % (bad[1], case), case)
                part.count('evaluations')
                part.count('executions')
                return bad
        from vt.world import wire
        expect = [(sid, 5, sid, fl, wire.OP_RESULT, body) for sid, fl, body in st.frames]
        data = st.data
        if flip is not None:
            b = bytearray(data)
            b[flip >> 3] ^= 1 << (flip & 7)
            data = bytes(b)
        fed = 0
        bad = None
        withheld = None
        ends = []
        for ch in connlib.chunks(data, cuts):
            try:
                connlib.guarded_feed(conn, ch)
            except connlib.Livelock as e:
                ends.append(fed + len(ch))
                bad = ('livelock', 'after %d of %d bytes had been handed over, the next read of %d bytes never returned: %s' % (
                    fed, len(data), len(ch), e))
                break
            fed += len(ch)
            ends.append(fed)
            failed = conn.is_defunct or conn.is_closed
            real = [e for e in log if e[1] != 'exc']
            if flip is None:
                done = sum(1 for r in st.ready_at if r <= fed)
                if failed:
                    crc = isinstance(conn.last_error, CrcMismatchException)
                    bad = ('clean', '%s: connection failed after %d of %d bytes without any corruption: %r' % (
                        'spurious checksum error' if crc else 'failure', fed, len(data), conn.last_error))
                elif real != expect[:len(real)]:
                    i = next(j for j in range(len(real)) if real[j] != expect[j])
                    bad = ('clean-altered', 'delivery %d differs from what was sent (stream %r, %d-byte body)' % (
                        i, real[i][0], len(real[i][-1])))
                elif len(real) > done:
                    bad = ('clean-early', '%d frames delivered after %d bytes, only %d have completely arrived' % (len(real), fed, done))
                elif len(real) < done:
                    if any(s[0] < fed < s[4] for s in st.segs):
                        # the read ends inside a later segment: the frames may still come out when that segment is
                        # complete -- reported under its own fingerprint, and the execution goes on so that what
                        # happens to them afterwards is judged as well
                        if withheld is None:
                            k = max(i for i, s in enumerate(st.segs) if s[4] <= fed)
                            withheld = ('clean-withheld', '%d frames have completely arrived after %d bytes, only %d delivered: '
                                        'the rest is held back while the read ends %d byte(s) into the next segment' % (
                                            done, fed, len(real), fed - st.segs[k][4]),
                                        'coalesced-segment-then-partial-segment' if st.nframes[k] >= 2 else 'partial-segment-follows')
                    else:
                        bad = ('clean', 'lost: after %d bytes %d frames have completely arrived, %d delivered' % (fed, done, len(real)))
                if bad:
                    break
            else:
                k = st.seg_index_of_byte(flip >> 3)
                allowed = sum(1 for r in st.ready_at if r <= st.segs[k][0])      # frames complete before the damaged segment
                if real != expect[:len(real)]:
                    bad = ('flip-altered-delivered', 'a frame that differs from what was sent was delivered')
                    break
                if len(real) > allowed:
                    bad = ('flip-delivered-from-corrupt-segment',
                           '%d frames delivered, only %d precede the damaged segment' % (len(real), allowed))
                    break
                if failed:
                    break
        if flip is not None and bad is None:
            k = st.seg_index_of_byte(flip >> 3)
            if not (conn.is_defunct and isinstance(conn.last_error, CrcMismatchException)):
                where = [n for n, (a, b) in zip(('header', 'header-crc', 'payload', 'payload-crc'),
                                               zip(st.segs[k][:4], st.segs[k][1:5])) if a <= (flip >> 3) < b][0]
                bad = ('flip-undetected', 'bit %d (segment %d %s) flipped: defunct=%r last_error=%r' % (
                    flip, k, where, conn.is_defunct, conn.last_error))
        if withheld:
            part.violation('C06/%s/%s/%s' % (withheld[0], withheld[2], case['codec']), '%s; case %r' % (withheld[1], case), case)
        if bad:
            part.violation('C06/%s/%s/%s' % (bad[0], st.trigger(ends), codec), '%s; case %r' % (bad[1], case), case)
        bad = bad or withheld
        part.count('evaluations')
        part.count('executions')
        part.outcome(('lz4' if st.lz4 else 'plain', 'flip' if flip is not None else 'clean', len([e for e in log if e[1] != 'exc']), bool(conn.is_defunct)))
        return bad
    finally:
        w.__exit__()


def send_and_read_back(lz4, size, compressible, part, hs='ready'):
    """driver encoder -> independent reader"""
    from cassandra.protocol import QueryMessage
    opened = connect(lz4, hs, part)
    if opened is None:
        return ('handshake', '')
    w, srv, conn = opened
    codec = codec_label(lz4, hs)
    case = {'codec': 'lz4' if lz4 else 'plain', 'handshake': hs, 'frame_size': size, 'compressible': compressible}
    try:
        srv.hold = lambda c, r: True
        # QUERY frame = 9 header + 4 + len(query) + 2 consistency + 4 flags (v5)
        qlen = size - 9 - 4 - 2 - 4
        if compressible:
            q = ('SELECT * FROM t WHERE k=0 ' * (qlen // 26 + 1))[:qlen]
        else:
            q = noise(qlen).hex()[:qlen]
        seglog = conn.server_state['seglog']
        n0 = len(seglog.segments)
        with conn.lock:
            rid = conn.get_request_id()
        bad = None
        try:
            conn.send_msg(QueryMessage(q, 1), rid, lambda r: None)
        except ValueError as e:       # raised by the independent reader inside push()
            bad = ('unreadable', str(e))
        except Exception as e:        # the driver refused to encode a legal request
            bad = ('raised', '%s: %s' % (type(e).__name__, e))
        if bad is None:
            segs = seglog.segments[n0:]
            total = sum(len(s[3]) for s in segs)
            got = [r for r in srv.received if r[1] == rid and r[2]['op'] == 'QUERY']
            if len(got) != 1 or got[0][2].get('query') != q or got[0][2].get('trailing'):
                bad = ('message', 'server read %d QUERY frames on stream %d; text equal: %r' % (
                    len(got), rid, bool(got) and got[0][2].get('query') == q))
            elif total != size:
                bad = ('harness', 'frame size %d, wanted %d' % (total, size))
            elif any(len(s[3]) > MAX for s in segs):
                bad = ('oversize-segment', 'segment payload lengths %r' % [len(s[3]) for s in segs])
            elif (len(segs) == 1) != all(s[2] for s in segs) or (len(segs) > 1 and any(s[2] for s in segs)):
                bad = ('self-contained-flag', 'flags %r over %d segments' % ([s[2] for s in segs], len(segs)))
            elif (size <= MAX) != (len(segs) == 1):
                bad = ('segment-count', '%d-byte frame sent in %d segments' % (size, len(segs)))
            if bad and bad[0] == 'harness':
                raise HarnessError(bad[1])
            part.outcome(('lz4' if lz4 else 'plain', 'out', len(segs), tuple(bool(s[1]) for s in segs)))
            if lz4 and any(s[1] for s in segs):
                part.mark_nontrivial('out-compressed-%s' % size)
            if lz4 and any(not s[1] for s in segs):
                part.mark_nontrivial('out-left-uncompressed-%s' % size)
        if bad:
            part.violation('C06/encode/%s/%s' % (bad[0], codec), '%s; case %r' % (bad[1], case), dict(case, kind='out'))
        part.count('evaluations')
        part.count('executions')
        part.count('outgoing_messages')
        return bad
    finally:
        w.__exit__()


# ------------------------------------------------------------------ work items
def small_splittings(st, anywhere=2, nearb=3):
    L = len(st.data)
    seen = set(connlib.k_cut_splits(L, anywhere))
    seen.update(connlib.k_cut_splits(L, nearb, connlib.near(st.boundaries(), 1, L)))
    seen.add(connlib.all_ones(L))
    return sorted(seen, key=lambda c: (len(c), c))


def big_splittings(st, r1, r2):
    L = len(st.data)
    b = st.boundaries()
    seen = set(connlib.k_cut_splits(L, 1, connlib.near(b, r1, L)))
    seen.update(connlib.k_cut_splits(L, 2, connlib.near(b, r2, L)))
    return sorted(seen, key=lambda c: (len(c), c))


def handshake_splits(lz4, hs, kmax):
    """every splitting with <= kmax cuts of one answer of the node (from the STARTUP answer on, the others in one
    read each) + one byte per read for all those answers at once.  Answer lengths are measured on a whole-answer
    run; when that run already fails only the whole-answer case is left (and reports the failure)."""
    w, srv, conn, problem = open_connection(lz4, hs)
    try:
        lens = dict(conn.server_state['answer_lens'])
    finally:
        w.__exit__()
    lens.pop(0, None)
    out = [{}]
    if problem:
        return out, lens
    for step in sorted(lens):
        for cuts in connlib.k_cut_splits(lens[step], kmax):
            if cuts:
                out.append({step: cuts})
    out.append({step: connlib.all_ones(L) for step, L in lens.items()})
    return out, lens


def run_item(item):
    connlib.quiet_driver_logs()
    part = Part()
    kind = item[0]
    if connlib.too_many_livelocks():
        part.cap('work item %r skipped: several reads never returned in this worker (reported as C06/livelock)' % (item[:3],))
        return part
    if kind == 'handshake':
        _, hs, lz4, kmax, k, n = item
        splits, lens = handshake_splits(lz4, hs, kmax)
        for split in splits[k::n]:
            if connlib.too_many_livelocks():
                part.cap('stopped early: several reads never returned (reported as C06/livelock)')
                break
            handshake_case(lz4, hs, split, part)
            for step, cuts in split.items():
                part.mark_nontrivial('handshake/%s/%s/answer-%d/%d-cuts' % (hs, lz4, step, min(len(cuts), 3)))
    elif kind == 'small':
        _, name, lz4, anywhere, nearb, hs, k, n = item
        st = get_stream('small', name, lz4, hs=hs)
        for cuts in small_splittings(st, anywhere, nearb)[k::n]:
            if connlib.too_many_livelocks():
                part.cap('stopped early: several reads never returned (reported as C06/livelock)')
                break
            receive(st, cuts, part, hs=hs)
            part.mark_nontrivial('%s/%s/%d-cuts' % (st.name, codec_label(lz4, hs), min(len(cuts), 5)))
    elif kind == 'full':
        _, name, lz4, k, n = item
        st = get_stream('small', name, lz4)
        L = len(st.data)
        for m in range(k, 1 << (L - 1), n):
            if connlib.too_many_livelocks():
                part.cap('stopped early: several reads never returned (reported as C06/livelock)')
                break
            receive(st, connlib.cuts_of_mask(m, L), part)
        part.mark_nontrivial('%s/%s/all-compositions' % (st.name, lz4))
    elif kind == 'big':
        _, name, lz4, form, r1, r2, hs, k, n = item
        st = get_stream('big', name, lz4, form, hs=hs)
        for cuts in big_splittings(st, r1, r2)[k::n]:
            if connlib.too_many_livelocks():
                part.cap('stopped early: several reads never returned (reported as C06/livelock)')
                break
            receive(st, cuts, part, hs=hs)
            part.mark_nontrivial('%s/%s/%d-cuts' % (st.name, codec_label(lz4, hs), len(cuts)))
    elif kind == 'flip':
        _, name, lz4, kcuts, k, n = item
        st = get_stream('small', name, lz4)
        L = len(st.data)
        splits = list(connlib.k_cut_splits(L, kcuts))
        for bit in range(k, L * 8, n):
            if connlib.too_many_livelocks():
                part.cap('stopped early: several reads never returned (reported as C06/livelock)')
                break
            for cuts in splits:
                receive(st, cuts, part, flip=bit)
            part.mark_nontrivial('flip/%s/%s/%d' % (st.name, lz4, bit))
    elif kind == 'out':
        _, lz4, size, compressible, hs = item
        send_and_read_back(lz4, size, compressible, part, hs=hs)
    if kind == 'out' or item[-2] == 0:
        part.sample({'item': list(item)}, limit=1)
    return part


def selftest():
    import lz4.block
    import cassandra.connection as cc
    from vt.world import wire
    lz4.block.selftest()
    if 'lz4' not in cc.locally_supported_compressions or cc.segment_codec_lz4 is None:
        raise HarnessError('the lz4 stub was not picked up by cassandra.connection (import order)')
    # header layout vectors of /repo/tests/unit/test_segment.py: 17 bits length, self-contained flag, padding
    def bits(b):
        return ''.join('{:08b}'.format(x) for x in reversed(b))
    h3 = bits(wire.segment(b'b' * 50, True)[:3])
    if h3[7:24] + h3[6:7] + h3[:6] != '00000000000110010' + '1' + '000000':
        raise HarnessError('uncompressed segment header layout')
    h3 = bits(wire.segment(b'b' * MAX, False)[:3])
    if h3[7:24] + h3[6:7] + h3[:6] != '1' * 17 + '0' + '000000':
        raise HarnessError('uncompressed segment header layout (max, not self-contained)')
    h5 = bits(wire.segment_lz4(b'b' * 50, True, connlib.lz4_block_compress)[:5])
    clen = len(connlib.lz4_block_compress(b'b' * 50))
    if h5[23:40] + h5[6:23] + h5[5:6] + h5[:5] != '{:017b}'.format(clen) + '00000000000110010' + '1' + '00000':
        raise HarnessError('compressed segment header layout')
    s = wire.segment_lz4(b'\x00' * 40, True, connlib.lz4_block_compress)
    h = int.from_bytes(s[:5], 'little')
    if (h >> 17) & 0x1ffff != 40 or not (h >> 34) & 1 or (h & 0x1ffff) != len(s) - 12:
        raise HarnessError('lz4 segment header layout')
    r = wire.SegmentLog(True, connlib.lz4_block_decompress)
    if r.feed(s + wire.segment_lz4(b'abc', False, None)) != b'\x00' * 40 + b'abc' or \
            [x[:3] for x in r.segments] != [(len(s) - 12, 40, True), (3, 0, False)]:
        raise HarnessError('lz4 segment reader')


def run(ctx):
    connlib.quiet_driver_logs()
    selftest()
    items = []
    per = 2500
    auth_hs = [h for h in HANDSHAKES if h != 'ready']
    # connection setups, judged on their own
    hs_kmax = 2 if ctx.quick else 3
    for hs in HANDSHAKES:
        for lz4 in (False, True):
            splits, _ = handshake_splits(lz4, hs, hs_kmax)
            tot = len(splits)
            n = max(1, tot // per)
            items += [(tot // n, ('handshake', hs, lz4, hs_kmax, k, n)) for k in range(n)]
    # segment streams after each setup
    anywhere, nearb = (2, 3) if ctx.quick else (3, 4)
    auth_anywhere, auth_nearb = (1, 2) if ctx.quick else (2, 3)
    for hs in HANDSHAKES:
        for lz4 in (False, True):
            names = list(SMALL) + (list(SMALL_LZ4_ONLY) if lz4 else [])
            for name in names:
                st = get_stream('small', name, lz4, hs=hs)
                a, b = (anywhere, nearb) if hs == 'ready' else (auth_anywhere, auth_nearb)
                tot = len(small_splittings(st, a, b))
                n = max(1, tot // per)
                items += [(tot // n, ('small', name, lz4, a, b, hs, k, n)) for k in range(n)]
            if ctx.thorough and hs == 'ready':
                st = get_stream('small', 'one-empty-frame', lz4)
                tot = 1 << (len(st.data) - 1)
                n = max(1, tot // per)
                items += [(tot // n, ('full', 'one-empty-frame', lz4, k, n)) for k in range(n)]
    bigs = ['MAX-1', 'MAX', 'MAX+1', '2MAX', '2MAX+5', 'small+MAX', 'MAX+small', 'small+MAX+1', '2MAX+5+small', 'pair+MAX+1']
    r1, r2 = (8, 1) if ctx.quick else (8, 8)
    bigs_lz4 = bigs if ctx.thorough else ['MAX', 'MAX+1', '2MAX+5', 'small+MAX+1', 'pair+MAX+1']
    bigs_auth = ['small+MAX+1'] if ctx.thorough else []
    for hs in HANDSHAKES:
        for lz4, form in ((False, 'P'), (True, 'U'), (True, 'C')):
            for name in ((bigs if not lz4 else bigs_lz4) if hs == 'ready' else bigs_auth):
                # rough count for load balancing only
                nseg = {'MAX-1': 1, 'MAX': 1, 'MAX+1': 2, '2MAX': 2, '2MAX+5': 3}[big_core(name)] + ('small' in name) + ('pair' in name)
                npos = nseg * 5 * (2 * r2 + 1)
                tot = npos * npos // 2 * 6        # weight: big executions cost several small ones
                n = max(1, tot // per)
                items += [(tot // n, ('big', name, lz4, form, r1, r2, hs, k, n)) for k in range(n)]
    for lz4, name in FLIP_STREAMS:
        st = get_stream('small', name, lz4)
        kcuts = 1 if ctx.quick else 2
        tot = len(st.data) * 8 * len(list(connlib.k_cut_splits(len(st.data), kcuts)))
        n = max(1, min(len(st.data) * 8, tot // per))
        items += [(tot // n, ('flip', name, lz4, kcuts, k, n)) for k in range(n)]
    sizes = [40, 1000, MAX - 1, MAX, MAX + 1, 2 * MAX, 2 * MAX + 5] + ([3 * MAX + 1] if ctx.thorough else [])
    sizes_auth = [40, MAX + 1]
    for hs in HANDSHAKES:
        for lz4 in (False, True):
            for size in (sizes if hs == 'ready' else sizes_auth):
                for compressible in ((False, True) if lz4 else (False,)):
                    items.append((400, ('out', lz4, size, compressible, hs)))
    items = [it for _, it in sorted(ctx.rotate(items), key=lambda x: -x[0])]
    for part in ctx.pmap(run_item, items):
        ctx.merge(part)
    ctx.cov['rule'] = ('codecs {plain, lz4}; connection setups %s: every splitting with <= %d cuts of one answer of the node from the '
                       'STARTUP answer on U one byte per read; small streams %s (+ lz4 only: %s): after setup ready all splittings with '
                       '<=%d cuts anywhere U <=%d cuts within 1 byte of a segment start / header end / header-CRC end / payload end / '
                       'segment end U one byte per read%s, after setups %s the same with <=%d / <=%d cuts; big '
                       'streams %s in plain form and %s in lz4-left-uncompressed / lz4-compressed form (after setup ready%s): all 1-cut '
                       'splittings within %d bytes and '
                       'all 2-cut splittings within %d byte(s) of those boundaries; outgoing frame sizes %s (after setups %s: %s); bit flips: every bit of '
                       '%d multi-segment streams %s x every splitting with <= %d cuts; non-trivial = distinct (stream, codec and setup, number of cuts) '
                       'classes, (setup, codec, answer, number of cuts) classes, flipped bits, outgoing segment forms'
                       % (list(HANDSHAKES), hs_kmax, list(SMALL), list(SMALL_LZ4_ONLY), anywhere, nearb,
                          '' if ctx.quick else ' U every composition of the one-empty-frame streams', auth_hs, auth_anywhere, auth_nearb,
                          bigs, bigs_lz4, '; %s also after %s' % (bigs_auth, auth_hs) if bigs_auth else '', r1, r2, sizes, auth_hs, sizes_auth,
                          len(FLIP_STREAMS), [n for _, n in FLIP_STREAMS], kcuts))
    ctx.cov['exhaustive'] = not ctx.caps_hit      # caps are hit only when reads stopped returning (C06/livelock)
    ctx.assume('stream ids after the handshake are handed out in the order first, first+1, ... (first = number of handshake requests; '
               'checked at every execution)')
    ctx.assume('a node leaves a segment payload uncompressed exactly when compressing does not make it smaller')
    ctx.assume('small non-self-contained segments (legal, not produced by Cassandra for small frames) exercise the multi-segment '
               'path under dense split enumeration; real multi-segment frames (> 131071 bytes) are covered by the big streams')
    ctx.assume('a node switches to segment framing (in the form that matches the COMPRESSION option of STARTUP) right after its '
               'unframed READY / AUTHENTICATE answer (native_protocol_v5.spec section 2), so AUTH_RESPONSE / AUTH_CHALLENGE / '
               'AUTH_SUCCESS travel in segments')


def replay(ctx, data):
    connlib.quiet_driver_logs()
    part = Part()
    hs = data.get('handshake', 'ready')
    if data.get('kind') == 'handshake':
        bad = handshake_case(data['codec'] == 'lz4', hs, {int(k): tuple(v) for k, v in data.get('split', {}).items()}, part)
    elif data.get('kind') == 'out':
        bad = send_and_read_back(data['codec'] == 'lz4', data['frame_size'], data['compressible'], part, hs=hs)
    else:
        lz4 = data['codec'] == 'lz4'
        name = data['stream']
        if '/' in name:
            nm, form = name.rsplit('/', 1)
            st = get_stream('big', nm, lz4, form, hs=hs)
        else:
            st = get_stream('small', name, lz4, hs=hs)
        bad = receive(st, tuple(data['cuts']), part, flip=data.get('flip'), hs=hs)
    for fp, what, _ in part.violations:
        print(fp, '::', what[:400])
    return bad is not None
