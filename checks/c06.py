"""C06 Protocol v5 segments are reassembled exactly and corruption is detected.

Incoming: response streams are written by the independent segment writer of vt.world.wire (plain
form, lz4 form, "left uncompressed inside an lz4 connection" form; self-contained segments with
one or several frames, frames spanning several segments, frame sizes around the 128 KiB - 1
payload limit) and fed to a handshaken v5 VConnection under every splitting of a stated family.
Outgoing: requests of boundary sizes are encoded by the driver and read back by the independent
reader.  Corruption: every single-bit flip of small two-segment streams x every one-cut split.
"""
import hashlib

from vt.core import Part, HarnessError
from vt import connlib

META = {
    'level': 'exploration',
    'engine': 'E',
    'technique': 'exhaustive enumeration of read splittings and single-bit faults of v5 segment streams on the real Connection',
    'text': 'A handshaken protocol-v5 connection (no compression / lz4 via the pure-Python lz4 block codec in /verif/stubs) '
            'receives segment streams written by an independent writer: small streams (one frame, two segments, two frames in '
            'one segment, a frame spread over two non-self-contained segments, compressed and left-uncompressed lz4 segments in '
            'both orders) under all splittings with <=2 cuts anywhere, <=3 cuts next to header/CRC/payload boundaries and one byte '
            'per read; frames of MAX-1, MAX, MAX+1, 2*MAX, 2*MAX+5 bytes (MAX = 131071) alone and next to a small frame under '
            'all 1- and 2-cut splittings with cuts next to every segment boundary.  After each read the frames delivered to the '
            'handlers registered by send_msg must be exactly those whose last segment has completely arrived, and the '
            'connection must not fail.  The driver\'s own encoder is read back by the independent reader for request sizes '
            'around the segment limit.  Every single-bit flip of four small two-segment streams (self-contained and not, plain and both lz4 forms) x every 1-cut split must '
            'leave the connection defunct with CrcMismatchException and deliver only unaltered frames of earlier segments.',
    'note': 'Trusted: vt.world.wire segment writer/reader (CRC24/CRC32 per native_protocol_v5.spec) and the lz4 block codec stub '
            '(self-tested on hand-written vectors).  Small non-self-contained segments are legal on the wire but not produced by '
            'Cassandra for small frames; they stand in for the multi-segment path under complete split enumeration.',
    'design_ref': 'C06',
}

MAX = 128 * 1024 - 1
FIRST_STREAM = 2          # stream ids handed out after the two handshake requests


def noise(n, salt=b'x'):
    """incompressible deterministic bytes"""
    out = bytearray()
    i = 0
    while len(out) < n:
        out += hashlib.sha256(salt + i.to_bytes(4, 'big')).digest()
        i += 1
    return bytes(out[:n])


def frame_of(stream, body, flags=0):
    from vt.world import wire
    return wire.frame(5, stream, wire.OP_RESULT, body, flags=flags)


class Stream(object):
    """bytes of a segment stream + what must come out of it"""
    def __init__(self, name, lz4):
        self.name, self.lz4 = name, lz4
        self.data = b''
        self.frames = []        # (stream id, flags, body)
        self.ready_at = []      # per frame: offset at which its last segment is complete
        self.segs = []          # (start, header_end, header_crc_end, payload_end, end, form)
        self._n = 0

    def next_sid(self):
        s = FIRST_STREAM + self._n
        self._n += 1
        return s

    def add_segment(self, payload, self_contained, form, strict=True):
        from vt.world import wire
        start = len(self.data)
        if not self.lz4:
            seg = wire.segment(payload, self_contained)
            hl = 3
        else:
            seg = wire.segment_lz4(payload, self_contained, connlib.lz4_block_compress if form == 'C' else None)
            hl = 5
            ulen = (int.from_bytes(seg[:5], 'little') >> 17) & 0x1ffff
            if (form == 'C') != (ulen > 0):
                if strict:
                    raise HarnessError('stream %s: payload did not take the intended form %s' % (self.name, form))
                form = 'C' if ulen > 0 else 'U'        # e.g. the short tail of a large compressible frame
        self.data += seg
        end = len(self.data)
        self.segs.append((start, start + hl, start + hl + 3, end - 4, end, form))
        return end

    def sc(self, bodies, form):
        """one self-contained segment carrying len(bodies) frames"""
        payload = b''
        new = []
        for body in bodies:
            sid = self.next_sid()
            flags = 0x02 if len(body) == 7 else 0
            payload += frame_of(sid, body, flags)
            new.append((sid, flags, body))
        end = self.add_segment(payload, True, form)
        for f in new:
            self.frames.append(f)
            self.ready_at.append(end)
        return self

    def multi(self, body, piece, form):
        """one frame spread over non-self-contained segments of `piece` payload bytes"""
        sid = self.next_sid()
        fb = frame_of(sid, body)
        end = None
        for i in range(0, len(fb), piece):
            end = self.add_segment(fb[i:i + piece], False, form, strict=False)
        self.frames.append((sid, 0, body))
        self.ready_at.append(end)
        return self

    def boundaries(self):
        out = set()
        for s in self.segs:
            out.update(s[:5])
        return sorted(out)

    def form_at(self, offset):
        """form of the segment being received when `offset` bytes have arrived"""
        for s in self.segs:
            if s[0] < offset <= s[4]:
                return s[5]
        return self.segs[-1][5]

    def trigger(self, read_ends):
        """input class of a splitting, by the first read boundary (in order) that is special:
        'short-header-read' = a read ends with fewer bytes of a segment buffered than its header + header CRC;
        'uncompressed-form-tail' = a read ends 1-2 bytes before the end of a segment written in the
        "left uncompressed inside an lz4 connection" form; 'other' = neither."""
        for fed in read_ends:
            for s in self.segs:
                if s[0] < fed < s[4]:
                    if fed - s[0] < s[2] - s[0]:
                        return 'short-header-read'
                    if s[5] == 'U' and s[4] - fed <= 2:
                        return 'uncompressed-form-tail'
        return 'other'

    def seg_index_of_byte(self, i):
        for k, s in enumerate(self.segs):
            if s[0] <= i < s[4]:
                return k
        raise IndexError(i)


ZB = b'\x00' * 40        # compresses
SMALL = {
    # name: (lz4?, builder)
    'one-empty-frame': lambda lz: Stream('one-empty-frame', lz).sc([b''], 'U' if lz else 'P'),
    'two-segments': lambda lz: Stream('two-segments', lz).sc([b'\x41'], 'U' if lz else 'P').sc([b'\x51\x52\x53\x54\x55\x56\x57'], 'U' if lz else 'P'),
    'two-frames-one-segment': lambda lz: Stream('two-frames-one-segment', lz).sc([b'\x41', b''], 'U' if lz else 'P'),
    'frame-over-two-segments': lambda lz: Stream('frame-over-two-segments', lz).multi(b'\x61\x62\x63\x64\x65', 8, 'U' if lz else 'P'),
    'multi-then-single': lambda lz: Stream('multi-then-single', lz).multi(b'\x61\x62\x63', 7, 'U' if lz else 'P').sc([b'\x71'], 'U' if lz else 'P'),
}
SMALL_LZ4_ONLY = {
    'compressed': lambda lz: Stream('compressed', True).sc([ZB], 'C'),
    'uncompressed-then-compressed': lambda lz: Stream('uncompressed-then-compressed', True).sc([b'\x41'], 'U').sc([ZB], 'C'),
    'compressed-then-uncompressed': lambda lz: Stream('compressed-then-uncompressed', True).sc([ZB], 'C').sc([b'\x41\x42'], 'U'),
    'compressed-two-frames': lambda lz: Stream('compressed-two-frames', True).sc([ZB, ZB + b'\x01'], 'C'),
}
FLIP_STREAMS = ((False, 'two-segments'), (False, 'frame-over-two-segments'), (True, 'uncompressed-then-compressed'),
                (True, 'compressed-then-uncompressed'))
BIG_SIZES = {'MAX-1': MAX - 1, 'MAX': MAX, 'MAX+1': MAX + 1, '2MAX': 2 * MAX, '2MAX+5': 2 * MAX + 5}


def big_stream(name, lz4, form):
    """name = size key, optionally '+small' / 'small+'"""
    core = name.replace('small+', '').replace('+small', '')
    size = BIG_SIZES[core]
    st = Stream('%s/%s' % (name, form), lz4)
    if name.startswith('small+'):
        st.sc([b'\x41'], 'U' if lz4 else 'P')
    body_len = size - 9
    body = noise(body_len) if form in ('P', 'U') else (b'0123456789abcdef' * (body_len // 16 + 1))[:body_len]
    if size <= MAX:
        st.sc([body], form)
    else:
        st.multi(body, MAX, form)
    if name.endswith('+small'):
        st.sc([b'\x71\x72'], 'U' if lz4 else 'P')
    return st


def get_stream(kind, name, lz4, form=None):
    if kind == 'small':
        b = SMALL.get(name) or SMALL_LZ4_ONLY[name]
        return b(lz4)
    return big_stream(name, lz4, form)


# ------------------------------------------------------------------ one execution
def connect(lz4):
    from vt.world.vworld import World
    srv = connlib.make_seg_server(compression=['lz4'] if lz4 else [])
    w = World(srv)
    w.__enter__()
    try:
        conn = connlib.bare_connection(w, 5, compression=bool(lz4))
        if not conn._is_checksumming_enabled or bool(conn.compressor) != bool(lz4):
            raise HarnessError('v5 setup: checksumming %r compressor %r' % (conn._is_checksumming_enabled, conn.compressor))
        return w, srv, conn
    except BaseException:
        w.__exit__()
        raise


def receive(st, cuts, part, flip=None):
    """feed st.data (optionally with one bit flipped) split at cuts; judge."""
    from cassandra.protocol import OptionsMessage
    from cassandra.connection import CrcMismatchException
    w, srv, conn = connect(st.lz4)
    try:
        srv.hold = lambda c, r: True
        log = []
        for sid, _, _ in st.frames:
            with conn.lock:
                rid = conn.get_request_id()
            if rid != sid:
                raise HarnessError('stream id drift: got %d, stream built for %d' % (rid, sid))
            conn.send_msg(OptionsMessage(), rid, lambda r, rid=rid: log.append(
                (rid,) + r.key() if isinstance(r, connlib.RawResponse) else (rid, 'exc', type(r).__name__)),
                decoder=connlib.raw_decoder)
        from vt.world import wire
        expect = [(sid, 5, sid, fl, wire.OP_RESULT, body) for sid, fl, body in st.frames]
        data = st.data
        if flip is not None:
            b = bytearray(data)
            b[flip >> 3] ^= 1 << (flip & 7)
            data = bytes(b)
        codec = 'lz4' if st.lz4 else 'plain'
        case = {'codec': codec, 'stream': st.name, 'cuts': list(cuts), 'flip': flip}
        fed = 0
        bad = None
        ends = []
        for ch in connlib.chunks(data, cuts):
            try:
                connlib.guarded_feed(conn, ch)
            except connlib.Livelock as e:
                ends.append(fed + len(ch))
                bad = ('livelock', 'after %d of %d bytes had been handed over, the next read of %d bytes never returned: %s' % (
                    fed, len(data), len(ch), e))
                break
            fed += len(ch)
            ends.append(fed)
            failed = conn.is_defunct or conn.is_closed
            real = [e for e in log if e[1] != 'exc']
            if flip is None:
                done = sum(1 for r in st.ready_at if r <= fed)
                if failed:
                    crc = isinstance(conn.last_error, CrcMismatchException)
                    bad = ('clean', '%s: connection failed after %d of %d bytes without any corruption: %r' % (
                        'spurious checksum error' if crc else 'failure', fed, len(data), conn.last_error))
                elif real != expect[:len(real)]:
                    i = next(j for j in range(len(real)) if real[j] != expect[j])
                    bad = ('clean-altered', 'delivery %d differs from what was sent (stream %r, %d-byte body)' % (
                        i, real[i][0], len(real[i][-1])))
                elif len(real) > done:
                    bad = ('clean-early', '%d frames delivered after %d bytes, only %d have completely arrived' % (len(real), fed, done))
                elif len(real) < done:
                    bad = ('clean', 'lost: after %d bytes %d frames have completely arrived, %d delivered' % (fed, done, len(real)))
                if bad:
                    break
            else:
                k = st.seg_index_of_byte(flip >> 3)
                allowed = sum(1 for r in st.ready_at if r <= st.segs[k][0])      # frames complete before the damaged segment
                if real != expect[:len(real)]:
                    bad = ('flip-altered-delivered', 'a frame that differs from what was sent was delivered')
                    break
                if len(real) > allowed:
                    bad = ('flip-delivered-from-corrupt-segment',
                           '%d frames delivered, only %d precede the damaged segment' % (len(real), allowed))
                    break
                if failed:
                    break
        if flip is not None and bad is None:
            k = st.seg_index_of_byte(flip >> 3)
            if not (conn.is_defunct and isinstance(conn.last_error, CrcMismatchException)):
                where = [n for n, (a, b) in zip(('header', 'header-crc', 'payload', 'payload-crc'),
                                               zip(st.segs[k][:4], st.segs[k][1:5])) if a <= (flip >> 3) < b][0]
                bad = ('flip-undetected', 'bit %d (segment %d %s) flipped: defunct=%r last_error=%r' % (
                    flip, k, where, conn.is_defunct, conn.last_error))
        if bad:
            part.violation('C06/%s/%s/%s' % (bad[0], st.trigger(ends), codec), '%s; case %r' % (bad[1], case), case)
        part.count('evaluations')
        part.count('executions')
        part.outcome((codec, 'flip' if flip is not None else 'clean', len([e for e in log if e[1] != 'exc']), bool(conn.is_defunct)))
        return bad
    finally:
        w.__exit__()


def send_and_read_back(lz4, size, compressible, part):
    """driver encoder -> independent reader"""
    from cassandra.protocol import QueryMessage
    w, srv, conn = connect(lz4)
    codec = 'lz4' if lz4 else 'plain'
    case = {'codec': codec, 'frame_size': size, 'compressible': compressible}
    try:
        srv.hold = lambda c, r: True
        # QUERY frame = 9 header + 4 + len(query) + 2 consistency + 4 flags (v5)
        qlen = size - 9 - 4 - 2 - 4
        if compressible:
            q = ('SELECT * FROM t WHERE k=0 ' * (qlen // 26 + 1))[:qlen]
        else:
            q = noise(qlen).hex()[:qlen]
        seglog = conn.server_state['seglog']
        n0 = len(seglog.segments)
        with conn.lock:
            rid = conn.get_request_id()
        bad = None
        try:
            conn.send_msg(QueryMessage(q, 1), rid, lambda r: None)
        except ValueError as e:       # raised by the independent reader inside push()
            bad = ('unreadable', str(e))
        except Exception as e:        # the driver refused to encode a legal request
            bad = ('raised', '%s: %s' % (type(e).__name__, e))
        if bad is None:
            segs = seglog.segments[n0:]
            total = sum(len(s[3]) for s in segs)
            got = [r for r in srv.received if r[1] == rid and r[2]['op'] == 'QUERY']
            if len(got) != 1 or got[0][2].get('query') != q or got[0][2].get('trailing'):
                bad = ('message', 'server read %d QUERY frames on stream %d; text equal: %r' % (
                    len(got), rid, bool(got) and got[0][2].get('query') == q))
            elif total != size:
                bad = ('harness', 'frame size %d, wanted %d' % (total, size))
            elif any(len(s[3]) > MAX for s in segs):
                bad = ('oversize-segment', 'segment payload lengths %r' % [len(s[3]) for s in segs])
            elif (len(segs) == 1) != all(s[2] for s in segs) or (len(segs) > 1 and any(s[2] for s in segs)):
                bad = ('self-contained-flag', 'flags %r over %d segments' % ([s[2] for s in segs], len(segs)))
            elif (size <= MAX) != (len(segs) == 1):
                bad = ('segment-count', '%d-byte frame sent in %d segments' % (size, len(segs)))
            if bad and bad[0] == 'harness':
                raise HarnessError(bad[1])
            part.outcome((codec, 'out', len(segs), tuple(bool(s[1]) for s in segs)))
            if lz4 and any(s[1] for s in segs):
                part.mark_nontrivial('out-compressed-%s' % size)
            if lz4 and any(not s[1] for s in segs):
                part.mark_nontrivial('out-left-uncompressed-%s' % size)
        if bad:
            part.violation('C06/encode/%s/%s' % (bad[0], codec), '%s; case %r' % (bad[1], case), dict(case, kind='out'))
        part.count('evaluations')
        part.count('executions')
        part.count('outgoing_messages')
        return bad
    finally:
        w.__exit__()


# ------------------------------------------------------------------ work items
def small_splittings(st, anywhere=2, nearb=3):
    L = len(st.data)
    seen = set(connlib.k_cut_splits(L, anywhere))
    seen.update(connlib.k_cut_splits(L, nearb, connlib.near(st.boundaries(), 1, L)))
    seen.add(connlib.all_ones(L))
    return sorted(seen, key=lambda c: (len(c), c))


def big_splittings(st, r1, r2):
    L = len(st.data)
    b = st.boundaries()
    seen = set(connlib.k_cut_splits(L, 1, connlib.near(b, r1, L)))
    seen.update(connlib.k_cut_splits(L, 2, connlib.near(b, r2, L)))
    return sorted(seen, key=lambda c: (len(c), c))


def run_item(item):
    connlib.quiet_driver_logs()
    part = Part()
    kind = item[0]
    if connlib.too_many_livelocks():
        part.cap('work item %r skipped: several reads never returned in this worker (reported as C06/livelock)' % (item[:3],))
        return part
    if kind == 'small':
        _, name, lz4, anywhere, nearb, k, n = item
        st = get_stream('small', name, lz4)
        for cuts in small_splittings(st, anywhere, nearb)[k::n]:
            if connlib.too_many_livelocks():
                part.cap('stopped early: several reads never returned (reported as C06/livelock)')
                break
            receive(st, cuts, part)
            part.mark_nontrivial('%s/%s/%d-cuts' % (st.name, lz4, min(len(cuts), 5)))
    elif kind == 'full':
        _, name, lz4, k, n = item
        st = get_stream('small', name, lz4)
        L = len(st.data)
        for m in range(k, 1 << (L - 1), n):
            if connlib.too_many_livelocks():
                part.cap('stopped early: several reads never returned (reported as C06/livelock)')
                break
            receive(st, connlib.cuts_of_mask(m, L), part)
        part.mark_nontrivial('%s/%s/all-compositions' % (st.name, lz4))
    elif kind == 'big':
        _, name, lz4, form, r1, r2, k, n = item
        st = get_stream('big', name, lz4, form)
        for cuts in big_splittings(st, r1, r2)[k::n]:
            if connlib.too_many_livelocks():
                part.cap('stopped early: several reads never returned (reported as C06/livelock)')
                break
            receive(st, cuts, part)
            part.mark_nontrivial('%s/%s/%d-cuts' % (st.name, lz4, len(cuts)))
    elif kind == 'flip':
        _, name, lz4, kcuts, k, n = item
        st = get_stream('small', name, lz4)
        L = len(st.data)
        splits = list(connlib.k_cut_splits(L, kcuts))
        for bit in range(k, L * 8, n):
            if connlib.too_many_livelocks():
                part.cap('stopped early: several reads never returned (reported as C06/livelock)')
                break
            for cuts in splits:
                receive(st, cuts, part, flip=bit)
            part.mark_nontrivial('flip/%s/%s/%d' % (st.name, lz4, bit))
    elif kind == 'out':
        _, lz4, size, compressible = item
        send_and_read_back(lz4, size, compressible, part)
    if kind == 'out' or item[-2] == 0:
        part.sample({'item': list(item)}, limit=1)
    return part


def selftest():
    import lz4.block
    import cassandra.connection as cc
    from vt.world import wire
    lz4.block.selftest()
    if 'lz4' not in cc.locally_supported_compressions or cc.segment_codec_lz4 is None:
        raise HarnessError('the lz4 stub was not picked up by cassandra.connection (import order)')
    # header layout vectors of /repo/tests/unit/test_segment.py: 17 bits length, self-contained flag, padding
    def bits(b):
        return ''.join('{:08b}'.format(x) for x in reversed(b))
    h3 = bits(wire.segment(b'b' * 50, True)[:3])
    if h3[7:24] + h3[6:7] + h3[:6] != '00000000000110010' + '1' + '000000':
        raise HarnessError('uncompressed segment header layout')
    h3 = bits(wire.segment(b'b' * MAX, False)[:3])
    if h3[7:24] + h3[6:7] + h3[:6] != '1' * 17 + '0' + '000000':
        raise HarnessError('uncompressed segment header layout (max, not self-contained)')
    h5 = bits(wire.segment_lz4(b'b' * 50, True, connlib.lz4_block_compress)[:5])
    clen = len(connlib.lz4_block_compress(b'b' * 50))
    if h5[23:40] + h5[6:23] + h5[5:6] + h5[:5] != '{:017b}'.format(clen) + '00000000000110010' + '1' + '00000':
        raise HarnessError('compressed segment header layout')
    s = wire.segment_lz4(b'\x00' * 40, True, connlib.lz4_block_compress)
    h = int.from_bytes(s[:5], 'little')
    if (h >> 17) & 0x1ffff != 40 or not (h >> 34) & 1 or (h & 0x1ffff) != len(s) - 12:
        raise HarnessError('lz4 segment header layout')
    r = wire.SegmentLog(True, connlib.lz4_block_decompress)
    if r.feed(s + wire.segment_lz4(b'abc', False, None)) != b'\x00' * 40 + b'abc' or \
            [x[:3] for x in r.segments] != [(len(s) - 12, 40, True), (3, 0, False)]:
        raise HarnessError('lz4 segment reader')


def run(ctx):
    connlib.quiet_driver_logs()
    selftest()
    items = []
    per = 2500
    for lz4 in (False, True):
        names = list(SMALL) + (list(SMALL_LZ4_ONLY) if lz4 else [])
        for name in names:
            st = get_stream('small', name, lz4)
            anywhere, nearb = (2, 3) if ctx.quick else (3, 4)
            tot = len(small_splittings(st, anywhere, nearb))
            n = max(1, tot // per)
            items += [(tot // n, ('small', name, lz4, anywhere, nearb, k, n)) for k in range(n)]
        if ctx.thorough:
            st = get_stream('small', 'one-empty-frame', lz4)
            tot = 1 << (len(st.data) - 1)
            n = max(1, tot // per)
            items += [(tot // n, ('full', 'one-empty-frame', lz4, k, n)) for k in range(n)]
    bigs = ['MAX-1', 'MAX', 'MAX+1', '2MAX', '2MAX+5', 'small+MAX', 'MAX+small', 'small+MAX+1', '2MAX+5+small']
    r1, r2 = (8, 1) if ctx.quick else (8, 8)
    bigs_lz4 = bigs if ctx.thorough else ['MAX', 'MAX+1', '2MAX+5', 'small+MAX+1']
    for lz4, form in ((False, 'P'), (True, 'U'), (True, 'C')):
        for name in (bigs if not lz4 else bigs_lz4):
            # rough count for load balancing only
            nseg = {'MAX-1': 1, 'MAX': 1, 'MAX+1': 2, '2MAX': 2, '2MAX+5': 3}[name.replace('small+', '').replace('+small', '')] + ('small' in name)
            npos = nseg * 5 * (2 * r2 + 1)
            tot = npos * npos // 2 * 6        # weight: big executions cost several small ones
            n = max(1, tot // per)
            items += [(tot // n, ('big', name, lz4, form, r1, r2, k, n)) for k in range(n)]
    for lz4, name in FLIP_STREAMS:
        st = get_stream('small', name, lz4)
        kcuts = 1 if ctx.quick else 2
        tot = len(st.data) * 8 * len(list(connlib.k_cut_splits(len(st.data), kcuts)))
        n = max(1, min(len(st.data) * 8, tot // per))
        items += [(tot // n, ('flip', name, lz4, kcuts, k, n)) for k in range(n)]
    sizes = [40, 1000, MAX - 1, MAX, MAX + 1, 2 * MAX, 2 * MAX + 5] + ([3 * MAX + 1] if ctx.thorough else [])
    for lz4 in (False, True):
        for size in sizes:
            for compressible in ((False, True) if lz4 else (False,)):
                items.append((400, ('out', lz4, size, compressible)))
    items = [it for _, it in sorted(ctx.rotate(items), key=lambda x: -x[0])]
    for part in ctx.pmap(run_item, items):
        ctx.merge(part)
    ctx.cov['rule'] = ('codecs {plain, lz4}; small streams %s (+ lz4 only: %s): all splittings with <=%d cuts anywhere U <=%d cuts within 1 '
                       'byte of a segment start / header end / header-CRC end / payload end / segment end U one byte per read%s; big '
                       'streams %s in plain form and %s in lz4-left-uncompressed / lz4-compressed form: all 1-cut splittings within %d bytes and '
                       'all 2-cut splittings within %d byte(s) of those boundaries; outgoing frame sizes %s; bit flips: every bit of '
                       '%d two-segment streams %s x every splitting with <= %d cuts; non-trivial = distinct (stream, codec, number of cuts) '
                       'classes, flipped bits, outgoing segment forms'
                       % (list(SMALL), list(SMALL_LZ4_ONLY), anywhere, nearb, '' if ctx.quick else ' U every composition of the one-empty-frame streams', bigs, bigs_lz4, r1, r2, sizes, len(FLIP_STREAMS), [n for _, n in FLIP_STREAMS], kcuts))
    ctx.cov['exhaustive'] = True
    ctx.assume('stream ids after the handshake are handed out in the order 2, 3, ... (checked at every execution)')
    ctx.assume('a node leaves a segment payload uncompressed exactly when compressing does not make it smaller')
    ctx.assume('small non-self-contained segments (legal, not produced by Cassandra for small frames) exercise the multi-segment '
               'path under dense split enumeration; real multi-segment frames (> 131071 bytes) are covered by the big streams')


def replay(ctx, data):
    connlib.quiet_driver_logs()
    part = Part()
    if data.get('kind') == 'out':
        bad = send_and_read_back(data['codec'] == 'lz4', data['frame_size'], data['compressible'], part)
    else:
        lz4 = data['codec'] == 'lz4'
        name = data['stream']
        if '/' in name:
            nm, form = name.rsplit('/', 1)
            st = get_stream('big', nm, lz4, form)
        else:
            st = get_stream('small', name, lz4)
        bad = receive(st, tuple(data['cuts']), part, flip=data.get('flip'))
    for fp, what, _ in part.violations:
        print(fp, '::', what[:400])
    return bad is not None
