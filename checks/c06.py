"""C06 Protocol v5 segments are reassembled exactly and corruption is detected.

Connection setup: a v5 VConnection is taken through the handshakes READY, AUTHENTICATE + AUTH_SUCCESS
and AUTHENTICATE + AUTH_CHALLENGE + AUTH_SUCCESS, without and with lz4, one answer of the node at a
time and under every splitting of a stated family; the node reads what the driver sends with the
independent segment reader in the negotiated form.
Incoming: response streams are written by the independent segment writer of vt.world.wire (plain
form, lz4 form, "left uncompressed inside an lz4 connection" form; self-contained segments with
one or several frames alone and followed by further segments, frames spanning several segments,
frame sizes around the 128 KiB - 1 payload limit) and fed to the connection after each of those
handshakes under every splitting of a stated family.
Outgoing: requests of boundary sizes are encoded by the driver and read back by the independent
reader.  Corruption: every single-bit flip of small multi-segment streams x every one-cut split.
Send-side schedules (engine S): two application threads in the real send_msg on one connection, messages of
one and of several segments, every schedule with a bounded number of preemptions (between source lines of
send_msg, lock operations and push() calls); the node's independent reader must reassemble exactly the
messages that were sent.
"""
import functools
import hashlib

from vt.core import Part, HarnessError
from vt import connlib
from vt import sched
from vt.vthreading import RT

META = {
    'level': 'exploration',
    'engine': 'E+S',
    'technique': 'exhaustive enumeration of read splittings and single-bit faults of v5 segment streams on the real Connection; '
                 'exhaustive enumeration of thread schedules (bounded preemptions) of concurrent send_msg calls',
    'text': 'A protocol-v5 connection (no compression / lz4 via the pure-Python lz4 block codec in /verif/stubs) is set up by each of '
            'the handshakes STARTUP->READY, STARTUP->AUTHENTICATE->AUTH_RESPONSE->AUTH_SUCCESS and the same with one AUTH_CHALLENGE '
            'round (PlainTextAuthenticator), the answers of the node fed one at a time under all splittings with <=2 cuts of one '
            'answer and one byte per read: everything the driver sends once framing is on must be readable by the independent '
            'segment reader of the node in the negotiated form (plain / lz4 header) with the SASL tokens intact, no intact answer '
            'may fail the connection, and each answer must have its effect exactly when its last byte has arrived.  After each '
            'handshake the connection '
            'receives segment streams written by an independent writer: small streams (one frame, two segments, two frames in '
            'one segment, a frame spread over two non-self-contained segments, segments with two or three coalesced frames '
            'followed by a one-frame segment / another coalesced segment / a multi-segment frame, also behind a multi-segment frame, '
            'compressed and left-uncompressed lz4 segments in both orders, with one and with two frames) under all splittings with '
            '<=2 cuts anywhere, <=3 cuts next to header/CRC/payload boundaries and one byte '
            'per read (after the two authenticating handshakes: <=1 cut anywhere, <=2 next to boundaries, one byte per read); '
            'frames of MAX-1, MAX, MAX+1, 2*MAX, 2*MAX+5 bytes (MAX = 131071) alone, next to a small frame and behind a '
            'two-frame segment under '
            'all 1- and 2-cut splittings with cuts next to every segment boundary.  After each read the frames delivered to the '
            'handlers registered by send_msg must be exactly those whose last segment has completely arrived (frames held back '
            'while the read ends inside a later segment are reported under C06/clean-withheld and followed to the end of the '
            'stream), and the '
            'connection must not fail.  The driver\'s own encoder is read back by the independent reader for request sizes '
            'around the segment limit.  Every single-bit flip of five small multi-segment streams (self-contained and not, coalesced, plain and both lz4 forms) x every 1-cut split must '
            'leave the connection defunct with CrcMismatchException and deliver only unaltered frames of earlier segments.  '
            'SEND-SIDE SCHEDULES (engine S): two application threads (thorough: also three) each call the real Connection.send_msg '
            'once on the same v5 connection, with QUERY frames of 1000, MAX, MAX+1, 3*MAX/2, 2*MAX+5 bytes in 10 size pairs '
            '(one-segment with one-segment, one- with multi-segment, multi- with multi-segment; plain, and 4 pairs with lz4); every '
            'schedule with <= 1 (thorough 2) preemptions is run, scheduling points being every source line of send_msg, every '
            'operation on the (virtual) connection lock and every push() call wherever it is made.  The node sees the pushes in the '
            'order they were made (one push is a unit) and reads them with the independent segment reader and frame parser: every '
            'message it reassembles must be one of those sent (stream id and query text equal, nothing trailing), each exactly '
            'once, none lost, no bytes left over, no segment payload over MAX, the connection intact.',
    'note': 'Trusted: vt.world.wire segment writer/reader (CRC24/CRC32 per native_protocol_v5.spec) and the lz4 block codec stub '
            '(self-tested on hand-written vectors).  Small non-self-contained segments are legal on the wire but not produced by '
            'Cassandra for small frames; they stand in for the multi-segment path under complete split enumeration.',
    'design_ref': 'C06',
}

MAX = 128 * 1024 - 1
FIRST_STREAM = 2          # stream ids handed out after the two handshake requests
# connection setups that end in v5 framing: the requests the node must see, in order, what it answers, the
# SASL tokens a PlainTextAuthenticator('u', 'p') sends, and the first stream id handed out afterwards
HANDSHAKES = {
    'ready': {'authenticator': None, 'requests': ('OPTIONS', 'STARTUP'), 'tokens': (), 'first': 2},
    'auth': {'authenticator': 'org.apache.cassandra.auth.PasswordAuthenticator',
             'requests': ('OPTIONS', 'STARTUP', 'AUTH_RESPONSE'), 'tokens': (b'\x00u\x00p',), 'first': 3},
    # DSE: mechanism name first, the node challenges, then the credentials
    'auth-challenge': {'authenticator': 'com.datastax.bdp.cassandra.auth.DseAuthenticator',
                       'requests': ('OPTIONS', 'STARTUP', 'AUTH_RESPONSE', 'AUTH_RESPONSE'),
                       'tokens': (b'PLAIN', b'\x00u\x00p'), 'first': 4},
}


def noise(n, salt=b'x'):
    """incompressible deterministic bytes"""
    out = bytearray()
    i = 0
    while len(out) < n:
        out += hashlib.sha256(salt + i.to_bytes(4, 'big')).digest()
        i += 1
    return bytes(out[:n])


def frame_of(stream, body, flags=0):
    from vt.world import wire
    return wire.frame(5, stream, wire.OP_RESULT, body, flags=flags)


class Stream(object):
    """bytes of a segment stream + what must come out of it"""
    def __init__(self, name, lz4, first=FIRST_STREAM):
        self.name, self.lz4, self.first = name, lz4, first
        self.data = b''
        self.frames = []        # (stream id, flags, body)
        self.ready_at = []      # per frame: offset at which its last segment is complete
        self.segs = []          # (start, header_end, header_crc_end, payload_end, end, form)
        self.nframes = []       # per segment: number of frames that END in it (>= 2: coalesced responses)
        self._n = 0

    def next_sid(self):
        s = self.first + self._n
        self._n += 1
        return s

    def add_segment(self, payload, self_contained, form, strict=True):
        from vt.world import wire
        start = len(self.data)
        if not self.lz4:
            seg = wire.segment(payload, self_contained)
            hl = 3
        else:
            seg = wire.segment_lz4(payload, self_contained, connlib.lz4_block_compress if form == 'C' else None)
            hl = 5
            ulen = (int.from_bytes(seg[:5], 'little') >> 17) & 0x1ffff
            if (form == 'C') != (ulen > 0):
                if strict:
                    raise HarnessError('stream %s: payload did not take the intended form %s' % (self.name, form))
                form = 'C' if ulen > 0 else 'U'        # e.g. the short tail of a large compressible frame
        self.data += seg
        end = len(self.data)
        self.segs.append((start, start + hl, start + hl + 3, end - 4, end, form))
        return end

    def sc(self, bodies, form):
        """one self-contained segment carrying len(bodies) frames"""
        payload = b''
        new = []
        for body in bodies:
            sid = self.next_sid()
            flags = 0x02 if len(body) == 7 else 0
            payload += frame_of(sid, body, flags)
            new.append((sid, flags, body))
        end = self.add_segment(payload, True, form)
        self.nframes.append(len(new))
        for f in new:
            self.frames.append(f)
            self.ready_at.append(end)
        return self

    def multi(self, body, piece, form):
        """one frame spread over non-self-contained segments of `piece` payload bytes"""
        sid = self.next_sid()
        fb = frame_of(sid, body)
        end = None
        for i in range(0, len(fb), piece):
            end = self.add_segment(fb[i:i + piece], False, form, strict=False)
            self.nframes.append(0)
        self.nframes[-1] = 1
        self.frames.append((sid, 0, body))
        self.ready_at.append(end)
        return self

    def boundaries(self):
        out = set()
        for s in self.segs:
            out.update(s[:5])
        return sorted(out)

    def form_at(self, offset):
        """form of the segment being received when `offset` bytes have arrived"""
        for s in self.segs:
            if s[0] < offset <= s[4]:
                return s[5]
        return self.segs[-1][5]

    def trigger(self, read_ends):
        """input class of a splitting, by the first read boundary (in order) that is special:
        'short-header-read' = a read ends with fewer bytes of a segment buffered than its header + header CRC;
        'uncompressed-form-tail' = a read ends 1-2 bytes before the end of a segment written in the
        "left uncompressed inside an lz4 connection" form; otherwise 'coalesced-segment-then-more' = the
        stream has a segment carrying two or more frames that is followed by a further segment; 'other' = none
        of these."""
        for fed in read_ends:
            for s in self.segs:
                if s[0] < fed < s[4]:
                    if fed - s[0] < s[2] - s[0]:
                        return 'short-header-read'
                    if s[5] == 'U' and s[4] - fed <= 2:
                        return 'uncompressed-form-tail'
        if any(n >= 2 for n in self.nframes[:-1]):
            return 'coalesced-segment-then-more'
        return 'other'

    def seg_index_of_byte(self, i):
        for k, s in enumerate(self.segs):
            if s[0] <= i < s[4]:
                return k
        raise IndexError(i)


ZB = b'\x00' * 40        # compresses


def _pf(lz):
    return 'U' if lz else 'P'


SMALL = {
    # name: builder(lz4?, first stream id)
    'one-empty-frame': lambda lz, f: Stream('one-empty-frame', lz, f).sc([b''], _pf(lz)),
    'two-segments': lambda lz, f: Stream('two-segments', lz, f).sc([b'\x41'], _pf(lz)).sc([b'\x51\x52\x53\x54\x55\x56\x57'], _pf(lz)),
    'two-frames-one-segment': lambda lz, f: Stream('two-frames-one-segment', lz, f).sc([b'\x41', b''], _pf(lz)),
    'frame-over-two-segments': lambda lz, f: Stream('frame-over-two-segments', lz, f).multi(b'\x61\x62\x63\x64\x65', 8, _pf(lz)),
    'multi-then-single': lambda lz, f: Stream('multi-then-single', lz, f).multi(b'\x61\x62\x63', 7, _pf(lz)).sc([b'\x71'], _pf(lz)),
    # a node coalesces small responses into one self-contained segment; more segments follow
    'two-frames-then-segment': lambda lz, f: Stream('two-frames-then-segment', lz, f).sc([b'\x41', b'\x42\x43'], _pf(lz)).sc([b'\x51'], _pf(lz)),
    'three-frames-then-two-frames': lambda lz, f: Stream('three-frames-then-two-frames', lz, f).sc([b'\x41', b'', b'\x43\x44'], _pf(lz)).sc([b'\x51\x52\x53', b'\x54'], _pf(lz)),
    'two-frames-then-multi': lambda lz, f: Stream('two-frames-then-multi', lz, f).sc([b'', b'\x42'], _pf(lz)).multi(b'\x61\x62\x63', 7, _pf(lz)),
    'multi-then-two-frames-then-single': lambda lz, f: Stream('multi-then-two-frames-then-single', lz, f).multi(b'\x61', 6, _pf(lz)).sc([b'\x41', b''], _pf(lz)).sc([b'\x71'], _pf(lz)),
}
SMALL_LZ4_ONLY = {
    'compressed': lambda lz, f: Stream('compressed', True, f).sc([ZB], 'C'),
    'uncompressed-then-compressed': lambda lz, f: Stream('uncompressed-then-compressed', True, f).sc([b'\x41'], 'U').sc([ZB], 'C'),
    'compressed-then-uncompressed': lambda lz, f: Stream('compressed-then-uncompressed', True, f).sc([ZB], 'C').sc([b'\x41\x42'], 'U'),
    'compressed-two-frames': lambda lz, f: Stream('compressed-two-frames', True, f).sc([ZB, ZB + b'\x01'], 'C'),
    'compressed-two-frames-then-uncompressed': lambda lz, f: Stream('compressed-two-frames-then-uncompressed', True, f).sc([ZB, ZB + b'\x01'], 'C').sc([b'\x41'], 'U'),
    'uncompressed-two-frames-then-compressed': lambda lz, f: Stream('uncompressed-two-frames-then-compressed', True, f).sc([b'\x41', b''], 'U').sc([ZB], 'C'),
}
FLIP_STREAMS = ((False, 'two-segments'), (False, 'frame-over-two-segments'), (True, 'uncompressed-then-compressed'),
                (True, 'compressed-then-uncompressed'), (False, 'two-frames-then-segment'))
BIG_SIZES = {'MAX-1': MAX - 1, 'MAX': MAX, 'MAX+1': MAX + 1, '2MAX': 2 * MAX, '2MAX+5': 2 * MAX + 5}


def big_core(name):
    return name.replace('small+', '').replace('+small', '').replace('pair+', '')


def big_stream(name, lz4, form, first=FIRST_STREAM):
    """name = size key, optionally '+small' / 'small+' / 'pair+' (pair = two frames coalesced in one segment)"""
    size = BIG_SIZES[big_core(name)]
    st = Stream('%s/%s' % (name, form), lz4, first)
    if name.startswith('small+'):
        st.sc([b'\x41'], 'U' if lz4 else 'P')
    if name.startswith('pair+'):
        st.sc([b'\x41', b'\x42\x43'], 'U' if lz4 else 'P')
    body_len = size - 9
    body = noise(body_len) if form in ('P', 'U') else (b'0123456789abcdef' * (body_len // 16 + 1))[:body_len]
    if size <= MAX:
        st.sc([body], form)
    else:
        st.multi(body, MAX, form)
    if name.endswith('+small'):
        st.sc([b'\x71\x72'], 'U' if lz4 else 'P')
    return st


def get_stream(kind, name, lz4, form=None, hs='ready'):
    first = HANDSHAKES[hs]['first']
    if kind == 'small':
        b = SMALL.get(name) or SMALL_LZ4_ONLY[name]
        return b(lz4, first)
    return big_stream(name, lz4, form, first)


# ------------------------------------------------------------------ one execution
def open_connection(lz4, hs='ready', split=None, conn_cls=None):
    """A v5 VConnection taken through handshake `hs` one server answer at a time; split = {step: cuts} feeds
    the answer to request number `step` in pieces (default: one read per answer).
    -> (world, server, connection, problem); problem = None or (oracle clause, step, text).  The judgement is made
    on the wire only: the independent reader of the node must accept everything the driver pushes once framing is
    on, every intact answer must be taken without failing the connection, and must have its effect (the next
    request arrives / the connection reports itself connected) once its last byte has arrived."""
    from vt.world.vworld import World, VConnection
    from vt.world import wire
    from cassandra.auth import PlainTextAuthenticator
    from cassandra.connection import CrcMismatchException
    H = HANDSHAKES[hs]
    split = split or {}
    srv = connlib.make_seg_server(compression=['lz4'] if lz4 else [], authenticator=H['authenticator'])
    if hs == 'auth-challenge':
        challenged = []

        def on_request(server, conn, stream, req):
            if req['op'] == 'AUTH_RESPONSE' and not challenged:
                challenged.append(stream)
                return wire.OP_AUTH_CHALLENGE, wire.w_bytes(b'PLAIN-START')
            return None
        srv.on_request = on_request
    srv.hold = lambda c, r: True
    w = World(srv)
    w.__enter__()
    try:
        conn = (conn_cls or VConnection)(srv.hosts[0].address, protocol_version=5, compression=bool(lz4),
                                         authenticator=PlainTextAuthenticator('u', 'p') if H['authenticator'] else None)
        st = conn.server_state
        problem = None
        tokens = []

        def state():
            return 'defunct=%r closed=%r last_error=%r' % (conn.is_defunct, conn.is_closed, conn.last_error)

        for step, op in enumerate(H['requests']):
            got = [p.req['op'] for p in srv.pending]
            if got != [op]:
                if step < 2:       # OPTIONS / STARTUP travel before any framing: not this property's business
                    raise HarnessError('v5 setup %s: node holds %r at step %d, expected %s; %s' % (hs, got, step, op, state()))
                if st.get('unreadable'):
                    problem = ('unreadable-by-server', step, 'the node cannot read what the driver sent after the answer to %s: %s' % (
                        H['requests'][step - 1], st['unreadable'][0]))
                elif conn.is_defunct or conn.is_closed:
                    crc = isinstance(conn.last_error, CrcMismatchException)
                    problem = ('clean', step, '%s on the intact answer to request %d (%s): %s' % (
                        'spurious checksum error' if crc else 'connection failed', step - 1, H['requests'][step - 1], state()))
                else:
                    problem = ('lost', step, 'the complete answer to request %d (%s) has arrived but the node sees %r instead of %s; %s' % (
                        step - 1, H['requests'][step - 1], got, op, state()))
                break
            p = srv.pending[0]
            if op == 'AUTH_RESPONSE':
                tokens.append(p.req.get('token'))
                if p.req.get('trailing') or tokens[-1] != H['tokens'][len(tokens) - 1]:
                    problem = ('auth-token-altered', step, 'AUTH_RESPONSE %d read by the node carries %r (+%r trailing bytes), the authenticator gave %r' % (
                        len(tokens), tokens[-1], p.req.get('trailing'), H['tokens'][len(tokens) - 1]))
                    break
            srv.answer(p)
            if step == 1 and (not st.get('framed') or bool(st.get('lz4')) != bool(lz4)):
                raise HarnessError('v5 setup %s: STARTUP options %r, wanted lz4=%r' % (hs, p.req.get('options'), lz4))
            if len(srv.outbox) != 1:
                raise HarnessError('v5 setup %s: %d answers queued at step %d' % (hs, len(srv.outbox), step))
            _, data = srv.outbox.popleft()
            st.setdefault('answer_lens', {})[step] = len(data)
            fed = 0
            for ch in connlib.chunks(data, tuple(split.get(step, ()))):
                early = len(srv.pending) or conn.connected_event.is_set()
                if fed and early and not (conn.is_defunct or conn.is_closed):
                    problem = ('early', step + 1, 'the answer to request %d (%s) had its effect after %d of its %d bytes' % (
                        step, op, fed, len(data)))
                    break
                try:
                    connlib.guarded_feed(conn, ch)
                except connlib.Livelock as e:
                    problem = ('livelock', step + 1, 'the read of bytes %d..%d of the %d-byte answer to request %d (%s) never returned: %s' % (
                        fed, fed + len(ch), len(data), step, op, e))
                    break
                fed += len(ch)
            if problem:
                break
        if problem is None:
            n = len(H['requests'])
            if srv.pending:
                raise HarnessError('v5 setup %s: unexpected further request %r' % (hs, [p.req['op'] for p in srv.pending]))
            if st.get('unreadable'):
                problem = ('unreadable-by-server', n, 'the node cannot read what the driver sent: %s' % st['unreadable'][0])
            elif conn.is_defunct or conn.is_closed:
                crc = isinstance(conn.last_error, CrcMismatchException)
                problem = ('clean', n, '%s on the intact answer to request %d (%s): %s' % (
                    'spurious checksum error' if crc else 'connection failed', n - 1, H['requests'][-1], state()))
            elif not conn.connected_event.is_set():
                problem = ('lost', n, 'the complete answer to the last request (%s) has arrived, the connection does not report itself connected; %s' % (
                    H['requests'][-1], state()))
        if problem and problem[1] < 2:
            raise HarnessError('v5 setup %s failed before framing: %r' % (hs, problem))
        srv.on_request = None
        return w, srv, conn, problem
    except BaseException:
        w.__exit__()
        raise


def codec_label(lz4, hs):
    return ('lz4' if lz4 else 'plain') + ('' if hs == 'ready' else '/after-' + hs)


def report_handshake(part, problem, lz4, hs, split=None):
    codec = 'lz4' if lz4 else 'plain'
    case = {'kind': 'handshake', 'codec': codec, 'handshake': hs, 'split': {str(k): list(v) for k, v in (split or {}).items()}}
    part.violation('C06/handshake/%s/%s/%s' % (problem[0], hs, codec),
                   'connection setup %s with %s framing, step %d: %s; case %r' % (hs, codec, problem[1], problem[2], case), case)


def connect(lz4, hs, part, conn_cls=None):
    """-> (world, server, connection) after a whole-answer handshake, or None when that already broke the
    property (reported under the handshake fingerprint)"""
    w, srv, conn, problem = open_connection(lz4, hs, conn_cls=conn_cls)
    if problem:
        w.__exit__()
        report_handshake(part, problem, lz4, hs)
        part.count('evaluations')
        part.count('executions')
        part.outcome(('lz4' if lz4 else 'plain', 'handshake-failed', hs))
        return None
    return w, srv, conn


def handshake_case(lz4, hs, split, part):
    """one handshake execution under a splitting of the node's answers"""
    w, srv, conn, problem = open_connection(lz4, hs, split)
    try:
        if problem:
            report_handshake(part, problem, lz4, hs, split)
        part.count('evaluations')
        part.count('executions')
        part.count('handshakes')
        part.outcome(('lz4' if lz4 else 'plain', 'handshake', hs, problem[0] if problem else 'connected'))
        return problem
    finally:
        w.__exit__()


def receive(st, cuts, part, flip=None, hs='ready'):
    """feed st.data (optionally with one bit flipped) split at cuts; judge."""
    from cassandra.protocol import OptionsMessage
    from cassandra.connection import CrcMismatchException
    if st.first != HANDSHAKES[hs]['first']:
        raise HarnessError('stream built for first id %d used after handshake %s' % (st.first, hs))
    opened = connect(st.lz4, hs, part)
    if opened is None:
        return ('handshake', '')
    w, srv, conn = opened
    try:
        srv.hold = lambda c, r: True
        log = []
        codec = codec_label(st.lz4, hs)
        case = {'codec': 'lz4' if st.lz4 else 'plain', 'handshake': hs, 'stream': st.name, 'cuts': list(cuts), 'flip': flip}
        for sid, _, _ in st.frames:
            with conn.lock:
                rid = conn.get_request_id()
            if rid != sid:
                raise HarnessError('stream id drift: got %d, stream built for %d' % (rid, sid))
            try:
                conn.send_msg(OptionsMessage(), rid, lambda r, rid=rid: log.append(
                    (rid,) + r.key() if isinstance(r, connlib.RawResponse) else (rid, 'exc', type(r).__name__)),
                    decoder=connlib.raw_decoder)
            except ValueError as e:       # raised by the independent reader inside push()
                bad = ('unreadable', 'the node cannot read the OPTIONS request sent on stream %d: %s' % (rid, e))
                part.violation('C06/encode/%s/%s' % (bad[0], codec), '%s; case %r' % (bad[1], case), case)
                part.count('evaluations')
                part.count('executions')
                return bad
        from vt.world import wire
        expect = [(sid, 5, sid, fl, wire.OP_RESULT, body) for sid, fl, body in st.frames]
        data = st.data
        if flip is not None:
            b = bytearray(data)
            b[flip >> 3] ^= 1 << (flip & 7)
            data = bytes(b)
        fed = 0
        bad = None
        withheld = None
        ends = []
        for ch in connlib.chunks(data, cuts):
            try:
                connlib.guarded_feed(conn, ch)
            except connlib.Livelock as e:
                ends.append(fed + len(ch))
                bad = ('livelock', 'after %d of %d bytes had been handed over, the next read of %d bytes never returned: %s' % (
                    fed, len(data), len(ch), e))
                break
            fed += len(ch)
            ends.append(fed)
            failed = conn.is_defunct or conn.is_closed
            real = [e for e in log if e[1] != 'exc']
            if flip is None:
                done = sum(1 for r in st.ready_at if r <= fed)
                if failed:
                    crc = isinstance(conn.last_error, CrcMismatchException)
                    bad = ('clean', '%s: connection failed after %d of %d bytes without any corruption: %r' % (
                        'spurious checksum error' if crc else 'failure', fed, len(data), conn.last_error))
                elif real != expect[:len(real)]:
                    i = next(j for j in range(len(real)) if real[j] != expect[j])
                    bad = ('clean-altered', 'delivery %d differs from what was sent (stream %r, %d-byte body)' % (
                        i, real[i][0], len(real[i][-1])))
                elif len(real) > done:
                    bad = ('clean-early', '%d frames delivered after %d bytes, only %d have completely arrived' % (len(real), fed, done))
                elif len(real) < done:
                    if any(s[0] < fed < s[4] for s in st.segs):
                        # the read ends inside a later segment: the frames may still come out when that segment is
                        # complete -- reported under its own fingerprint, and the execution goes on so that what
                        # happens to them afterwards is judged as well
                        if withheld is None:
                            k = max(i for i, s in enumerate(st.segs) if s[4] <= fed)
                            withheld = ('clean-withheld', '%d frames have completely arrived after %d bytes, only %d delivered: '
                                        'the rest is held back while the read ends %d byte(s) into the next segment' % (
                                            done, fed, len(real), fed - st.segs[k][4]),
                                        'coalesced-segment-then-partial-segment' if st.nframes[k] >= 2 else 'partial-segment-follows')
                    else:
                        bad = ('clean', 'lost: after %d bytes %d frames have completely arrived, %d delivered' % (fed, done, len(real)))
                if bad:
                    break
            else:
                k = st.seg_index_of_byte(flip >> 3)
                allowed = sum(1 for r in st.ready_at if r <= st.segs[k][0])      # frames complete before the damaged segment
                if real != expect[:len(real)]:
                    bad = ('flip-altered-delivered', 'a frame that differs from what was sent was delivered')
                    break
                if len(real) > allowed:
                    bad = ('flip-delivered-from-corrupt-segment',
                           '%d frames delivered, only %d precede the damaged segment' % (len(real), allowed))
                    break
                if failed:
                    break
        if flip is not None and bad is None:
            k = st.seg_index_of_byte(flip >> 3)
            if not (conn.is_defunct and isinstance(conn.last_error, CrcMismatchException)):
                where = [n for n, (a, b) in zip(('header', 'header-crc', 'payload', 'payload-crc'),
                                               zip(st.segs[k][:4], st.segs[k][1:5])) if a <= (flip >> 3) < b][0]
                bad = ('flip-undetected', 'bit %d (segment %d %s) flipped: defunct=%r last_error=%r' % (
                    flip, k, where, conn.is_defunct, conn.last_error))
        if withheld:
            part.violation('C06/%s/%s/%s' % (withheld[0], withheld[2], case['codec']), '%s; case %r' % (withheld[1], case), case)
        if bad:
            part.violation('C06/%s/%s/%s' % (bad[0], st.trigger(ends), codec), '%s; case %r' % (bad[1], case), case)
        bad = bad or withheld
        part.count('evaluations')
        part.count('executions')
        part.outcome(('lz4' if st.lz4 else 'plain', 'flip' if flip is not None else 'clean', len([e for e in log if e[1] != 'exc']), bool(conn.is_defunct)))
        return bad
    finally:
        w.__exit__()


def send_and_read_back(lz4, size, compressible, part, hs='ready'):
    """driver encoder -> independent reader"""
    from cassandra.protocol import QueryMessage
    opened = connect(lz4, hs, part)
    if opened is None:
        return ('handshake', '')
    w, srv, conn = opened
    codec = codec_label(lz4, hs)
    case = {'codec': 'lz4' if lz4 else 'plain', 'handshake': hs, 'frame_size': size, 'compressible': compressible}
    try:
        srv.hold = lambda c, r: True
        # QUERY frame = 9 header + 4 + len(query) + 2 consistency + 4 flags (v5)
        qlen = size - 9 - 4 - 2 - 4
        if compressible:
            q = ('SELECT * FROM t WHERE k=0 ' * (qlen // 26 + 1))[:qlen]
        else:
            q = noise(qlen).hex()[:qlen]
        seglog = conn.server_state['seglog']
        n0 = len(seglog.segments)
        with conn.lock:
            rid = conn.get_request_id()
        bad = None
        try:
            conn.send_msg(QueryMessage(q, 1), rid, lambda r: None)
        except ValueError as e:       # raised by the independent reader inside push()
            bad = ('unreadable', str(e))
        except Exception as e:        # the driver refused to encode a legal request
            bad = ('raised', '%s: %s' % (type(e).__name__, e))
        if bad is None:
            segs = seglog.segments[n0:]
            total = sum(len(s[3]) for s in segs)
            got = [r for r in srv.received if r[1] == rid and r[2]['op'] == 'QUERY']
            if len(got) != 1 or got[0][2].get('query') != q or got[0][2].get('trailing'):
                bad = ('message', 'server read %d QUERY frames on stream %d; text equal: %r' % (
                    len(got), rid, bool(got) and got[0][2].get('query') == q))
            elif total != size:
                bad = ('harness', 'frame size %d, wanted %d' % (total, size))
            elif any(len(s[3]) > MAX for s in segs):
                bad = ('oversize-segment', 'segment payload lengths %r' % [len(s[3]) for s in segs])
            elif (len(segs) == 1) != all(s[2] for s in segs) or (len(segs) > 1 and any(s[2] for s in segs)):
                bad = ('self-contained-flag', 'flags %r over %d segments' % ([s[2] for s in segs], len(segs)))
            elif (size <= MAX) != (len(segs) == 1):
                bad = ('segment-count', '%d-byte frame sent in %d segments' % (size, len(segs)))
            if bad and bad[0] == 'harness':
                raise HarnessError(bad[1])
            part.outcome(('lz4' if lz4 else 'plain', 'out', len(segs), tuple(bool(s[1]) for s in segs)))
            if lz4 and any(s[1] for s in segs):
                part.mark_nontrivial('out-compressed-%s' % size)
            if lz4 and any(not s[1] for s in segs):
                part.mark_nontrivial('out-left-uncompressed-%s' % size)
        if bad:
            part.violation('C06/encode/%s/%s' % (bad[0], codec), '%s; case %r' % (bad[1], case), dict(case, kind='out'))
        part.count('evaluations')
        part.count('executions')
        part.count('outgoing_messages')
        return bad
    finally:
        w.__exit__()


# ------------------------------------------------------------------ send-side schedules (engine S)
# Application threads call send_msg() on one connection at the same time.  What a reactor promises is that one push()
# is written to the socket as a unit; the bytes of two push() calls may be written in either order.  So the node
# sees the pushes in the order the schedule produced them, and must still reassemble exactly the messages sent.
from vt.world.vworld import VConnection as _VConnection       # noqa: E402  (vworld is loaded by connlib above)


class SendConn(_VConnection):
    """VConnection whose push() is a scheduling point of its own (wherever it is called from) and remembers which
    virtual thread pushed what."""
    def push(self, data):
        s = RT.sched
        if s is not None:
            s.point('push', len(data))
            me = s.current
            self.__dict__.setdefault('push_log', []).append((me.name if me is not None else '-', len(data)))
        _VConnection.push(self, data)


def _code(f):
    return getattr(f, '__wrapped__', f).__code__


@functools.lru_cache(maxsize=64)
def query_text(size, who, compressible):
    """query text that makes a QUERY frame of exactly `size` bytes (9 header + 4 + len + 2 consistency + 4 flags in
    v5); different for every sender"""
    qlen = size - 9 - 4 - 2 - 4
    if compressible:
        unit = 'SELECT * FROM t%d WHERE k=0 ' % who
        return (unit * (qlen // len(unit) + 1))[:qlen]
    return noise(qlen // 2 + 1, salt=b'sender%d' % who).hex()[:qlen]


def send_params(lz4, sizes, compressible=False):
    return {'codec': 'lz4' if lz4 else 'plain', 'sizes': list(sizes), 'compressible': bool(compressible)}


@sched.gc_quiet
def s_send(params, prefix, part):
    """One schedule of len(sizes) application threads, each sending one QUERY of the given frame size with the real
    send_msg on one v5 connection; every source line of Connection.send_msg, every virtual lock operation and every
    push() is a scheduling point.  Judged on the wire by the node's independent segment reader and frame parser."""
    from cassandra.protocol import QueryMessage
    from cassandra.connection import Connection
    lz4, sizes, compressible = params['codec'] == 'lz4', list(params['sizes']), params['compressible']
    opened = connect(lz4, 'ready', part, conn_cls=SendConn)
    if opened is None:
        raise HarnessError('send-schedule layer: the whole-answer handshake failed (reported under C06/handshake)')
    w, srv, conn = opened
    codec = codec_label(lz4, 'ready')
    try:
        srv.hold = lambda c, r: True
        st = conn.server_state
        seglog = st['seglog']
        nseg0, nrecv0 = len(seglog.segments), len(srv.received)
        sent = {}
        jobs = []
        for i, size in enumerate(sizes):
            with conn.lock:
                rid = conn.get_request_id()
            q = query_text(size, i, compressible)
            sent[rid] = q
            jobs.append((rid, q))
        s = sched.Scheduler(prefix, focus=[_code(Connection.send_msg)], horizon=20000, clock=w.clock)
        errs = []

        def sender(rid, q):
            def body():
                try:
                    conn.send_msg(QueryMessage(q, 1), rid, lambda r: None)
                except Exception as e:        # ValueError: raised by the node's reader inside push()
                    errs.append((rid, e))
            return body
        for i, (rid, q) in enumerate(jobs):
            s.spawn(sender(rid, q), 'sender%d' % i)
        s.run()
        for t in s.threads:
            if t.exc is not None:
                raise HarnessError('send-schedule layer: %r raised %r in schedule %r of %r\n%s'
                                   % (t, t.exc, s.choices(), params, getattr(t, 'exc_tb', '')))
        case = dict(params, kind='send-schedule', prefix=s.choices())
        pushes = list(conn.__dict__.get('push_log', ()))
        segs = seglog.segments[nseg0:]
        new = [(r[1], r[2]) for r in srv.received[nrecv0:] if r[0] == conn.vid]
        bad = None
        if s.failure:
            bad = ('lost', 'the senders did not finish: %s %s' % s.failure)
        for rid, e in errs:
            if bad is None and isinstance(e, ValueError) and 'segment' not in str(e):
                # every segment passed its checksums, and the frame put together from them cannot be parsed
                bad = ('altered', 'the node reassembled, without any checksum error, a frame that was never sent: its frame parser '
                       'failed (%s) inside the push() of stream %d' % (e, rid))
            elif bad is None:
                bad = ('unreadable' if isinstance(e, ValueError) else 'raised',
                       'send_msg on stream %d ended with %s: %s' % (rid, type(e).__name__, e))
        seen = []
        for stream, req in new:
            if bad:
                break
            q = req.get('query')
            if req['op'] != 'QUERY' or stream not in sent or q != sent[stream] or req.get('trailing'):
                same = [r for r, text in sent.items() if q == text]
                if req['op'] == 'QUERY' and stream in sent and q is not None and len(q) == len(sent[stream]):
                    diff = next((j for j in range(len(q)) if q[j] != sent[stream][j]), len(q))
                    how = '%d-character query that differs from the one sent on that stream from offset %d on' % (len(q), diff)
                else:
                    how = '%s-character query equal to %s' % (len(q) if q is not None else 'no', 'the one sent on stream %d' % same[0] if same else 'none of those sent')
                bad = ('altered', 'the node reassembled a message that was never sent, without any checksum error: %s on stream %r, %s, '
                       '%d trailing bytes' % (req['op'], stream, how, len(req.get('trailing') or b'')))
            elif stream in seen:
                bad = ('twice', 'the message on stream %d reached the node twice' % stream)
            seen.append(stream)
        if bad is None and st.get('unreadable'):
            bad = ('unreadable', 'the node cannot read what the driver sent: %s' % st['unreadable'][0])
        if bad is None and sorted(seen) != sorted(sent):
            bad = ('lost', 'messages sent on streams %r, the node has read complete messages on %r; %d bytes of an incomplete frame and '
                   '%d bytes of an incomplete segment are left' % (sorted(sent), sorted(seen), len(st['buf']), len(seglog.buf)))
        if bad is None and (st['buf'] or seglog.buf):
            bad = ('altered', 'all messages read, but %d bytes of a further frame / %d of a further segment are left at the node'
                   % (len(st['buf']), len(seglog.buf)))
        if bad is None and (conn.is_defunct or conn.is_closed):
            bad = ('clean', 'connection failed while sending: %r' % (conn.last_error,))
        if bad is None and any(len(x[3]) > MAX for x in segs):
            bad = ('oversize-segment', 'segment payload lengths %r' % [len(x[3]) for x in segs])
        if bad is None and sum(len(x[3]) for x in segs) != sum(sizes):
            raise HarnessError('send-schedule layer: %d payload bytes on the wire, frames of %r sent' % (sum(len(x[3]) for x in segs), sizes))
        order = ''.join(chr(ord('A') + int(name[6:])) for name, _ in pushes)
        if bad:
            part.violation('C06/send-schedule/%s/%s/%s' % (bad[0], 'multi-segment-message' if max(sizes) > MAX else 'one-segment-messages', codec),
                           '%s; pushes in wire order (sender, bytes): %r; case %r' % (bad[1], pushes, case), case)
        switched = any(p.chosen for p in s.trace if p.kind != 'start')
        part.count('evaluations')
        part.count('send_schedules')
        part.count('outgoing_messages', len(sizes))
        if switched:
            part.count('send_schedules_with_a_switch_inside_send_msg')
            part.mark_nontrivial('send-schedule/%s/%r/%r/%r' % (codec, sizes, compressible, s.choices()))
        part.outcome((params['codec'], 'send-schedule', order if len(order) <= 8 else order[:8] + '...'))
        s.verdict = bad
        return s
    finally:
        w.__exit__()


def explore_send_schedules(params, bound, part):
    """every schedule of s_send(params) with at most `bound` preemptions (iterative context bounding, vt.sched.children)"""
    frontier = [[]]
    n = 0
    while frontier:
        prefix = frontier.pop(0)
        s = s_send(params, prefix, part)
        n += 1
        part.count('executions')
        part.count('send_schedule_steps', s.steps)
        frontier.extend(k for k, _ in sched.children(s.trace, len(prefix), bound))
    return n


# ------------------------------------------------------------------ work items
def small_splittings(st, anywhere=2, nearb=3):
    L = len(st.data)
    seen = set(connlib.k_cut_splits(L, anywhere))
    seen.update(connlib.k_cut_splits(L, nearb, connlib.near(st.boundaries(), 1, L)))
    seen.add(connlib.all_ones(L))
    return sorted(seen, key=lambda c: (len(c), c))


def big_splittings(st, r1, r2):
    L = len(st.data)
    b = st.boundaries()
    seen = set(connlib.k_cut_splits(L, 1, connlib.near(b, r1, L)))
    seen.update(connlib.k_cut_splits(L, 2, connlib.near(b, r2, L)))
    return sorted(seen, key=lambda c: (len(c), c))


def handshake_splits(lz4, hs, kmax):
    """every splitting with <= kmax cuts of one answer of the node (from the STARTUP answer on, the others in one
    read each) + one byte per read for all those answers at once.  Answer lengths are measured on a whole-answer
    run; when that run already fails only the whole-answer case is left (and reports the failure)."""
    w, srv, conn, problem = open_connection(lz4, hs)
    try:
        lens = dict(conn.server_state['answer_lens'])
    finally:
        w.__exit__()
    lens.pop(0, None)
    out = [{}]
    if problem:
        return out, lens
    for step in sorted(lens):
        for cuts in connlib.k_cut_splits(lens[step], kmax):
            if cuts:
                out.append({step: cuts})
    out.append({step: connlib.all_ones(L) for step, L in lens.items()})
    return out, lens


def run_item(item):
    connlib.quiet_driver_logs()
    part = Part()
    kind = item[0]
    if connlib.too_many_livelocks():
        part.cap('work item %r skipped: several reads never returned in this worker (reported as C06/livelock)' % (item[:3],))
        return part
    if kind == 'handshake':
        _, hs, lz4, kmax, k, n = item
        splits, lens = handshake_splits(lz4, hs, kmax)
        for split in splits[k::n]:
            if connlib.too_many_livelocks():
                part.cap('stopped early: several reads never returned (reported as C06/livelock)')
                break
            handshake_case(lz4, hs, split, part)
            for step, cuts in split.items():
                part.mark_nontrivial('handshake/%s/%s/answer-%d/%d-cuts' % (hs, lz4, step, min(len(cuts), 3)))
    elif kind == 'small':
        _, name, lz4, anywhere, nearb, hs, k, n = item
        st = get_stream('small', name, lz4, hs=hs)
        for cuts in small_splittings(st, anywhere, nearb)[k::n]:
            if connlib.too_many_livelocks():
                part.cap('stopped early: several reads never returned (reported as C06/livelock)')
                break
            receive(st, cuts, part, hs=hs)
            part.mark_nontrivial('%s/%s/%d-cuts' % (st.name, codec_label(lz4, hs), min(len(cuts), 5)))
    elif kind == 'full':
        _, name, lz4, k, n = item
        st = get_stream('small', name, lz4)
        L = len(st.data)
        for m in range(k, 1 << (L - 1), n):
            if connlib.too_many_livelocks():
                part.cap('stopped early: several reads never returned (reported as C06/livelock)')
                break
            receive(st, connlib.cuts_of_mask(m, L), part)
        part.mark_nontrivial('%s/%s/all-compositions' % (st.name, lz4))
    elif kind == 'big':
        _, name, lz4, form, r1, r2, hs, k, n = item
        st = get_stream('big', name, lz4, form, hs=hs)
        for cuts in big_splittings(st, r1, r2)[k::n]:
            if connlib.too_many_livelocks():
                part.cap('stopped early: several reads never returned (reported as C06/livelock)')
                break
            receive(st, cuts, part, hs=hs)
            part.mark_nontrivial('%s/%s/%d-cuts' % (st.name, codec_label(lz4, hs), len(cuts)))
    elif kind == 'flip':
        _, name, lz4, kcuts, k, n = item
        st = get_stream('small', name, lz4)
        L = len(st.data)
        splits = list(connlib.k_cut_splits(L, kcuts))
        for bit in range(k, L * 8, n):
            if connlib.too_many_livelocks():
                part.cap('stopped early: several reads never returned (reported as C06/livelock)')
                break
            for cuts in splits:
                receive(st, cuts, part, flip=bit)
            part.mark_nontrivial('flip/%s/%s/%d' % (st.name, lz4, bit))
    elif kind == 'out':
        _, lz4, size, compressible, hs = item
        send_and_read_back(lz4, size, compressible, part, hs=hs)
    elif kind == 'sched':
        _, lz4, sizes, compressible, bound = item
        n = explore_send_schedules(send_params(lz4, sizes, compressible), bound, part)
        part.sample({'item': list(item), 'schedules': n}, limit=1)
        return part
    if kind == 'out' or item[-2] == 0:
        part.sample({'item': list(item)}, limit=1)
    return part


def selftest():
    import lz4.block
    import cassandra.connection as cc
    from vt.world import wire
    lz4.block.selftest()
    if 'lz4' not in cc.locally_supported_compressions or cc.segment_codec_lz4 is None:
        raise HarnessError('the lz4 stub was not picked up by cassandra.connection (import order)')
    # header layout vectors of /repo/tests/unit/test_segment.py: 17 bits length, self-contained flag, padding
    def bits(b):
        return ''.join('{:08b}'.format(x) for x in reversed(b))
    h3 = bits(wire.segment(b'b' * 50, True)[:3])
    if h3[7:24] + h3[6:7] + h3[:6] != '00000000000110010' + '1' + '000000':
        raise HarnessError('uncompressed segment header layout')
    h3 = bits(wire.segment(b'b' * MAX, False)[:3])
    if h3[7:24] + h3[6:7] + h3[:6] != '1' * 17 + '0' + '000000':
        raise HarnessError('uncompressed segment header layout (max, not self-contained)')
    h5 = bits(wire.segment_lz4(b'b' * 50, True, connlib.lz4_block_compress)[:5])
    clen = len(connlib.lz4_block_compress(b'b' * 50))
    if h5[23:40] + h5[6:23] + h5[5:6] + h5[:5] != '{:017b}'.format(clen) + '00000000000110010' + '1' + '00000':
        raise HarnessError('compressed segment header layout')
    s = wire.segment_lz4(b'\x00' * 40, True, connlib.lz4_block_compress)
    h = int.from_bytes(s[:5], 'little')
    if (h >> 17) & 0x1ffff != 40 or not (h >> 34) & 1 or (h & 0x1ffff) != len(s) - 12:
        raise HarnessError('lz4 segment header layout')
    r = wire.SegmentLog(True, connlib.lz4_block_decompress)
    if r.feed(s + wire.segment_lz4(b'abc', False, None)) != b'\x00' * 40 + b'abc' or \
            [x[:3] for x in r.segments] != [(len(s) - 12, 40, True), (3, 0, False)]:
        raise HarnessError('lz4 segment reader')


def run(ctx):
    connlib.quiet_driver_logs()
    selftest()
    items = []
    per = 2500
    auth_hs = [h for h in HANDSHAKES if h != 'ready']
    # connection setups, judged on their own
    hs_kmax = 2 if ctx.quick else 3
    for hs in HANDSHAKES:
        for lz4 in (False, True):
            splits, _ = handshake_splits(lz4, hs, hs_kmax)
            tot = len(splits)
            n = max(1, tot // per)
            items += [(tot // n, ('handshake', hs, lz4, hs_kmax, k, n)) for k in range(n)]
    # segment streams after each setup
    anywhere, nearb = (2, 3) if ctx.quick else (3, 4)
    auth_anywhere, auth_nearb = (1, 2) if ctx.quick else (2, 3)
    for hs in HANDSHAKES:
        for lz4 in (False, True):
            names = list(SMALL) + (list(SMALL_LZ4_ONLY) if lz4 else [])
            for name in names:
                st = get_stream('small', name, lz4, hs=hs)
                a, b = (anywhere, nearb) if hs == 'ready' else (auth_anywhere, auth_nearb)
                tot = len(small_splittings(st, a, b))
                n = max(1, tot // per)
                items += [(tot // n, ('small', name, lz4, a, b, hs, k, n)) for k in range(n)]
            if ctx.thorough and hs == 'ready':
                st = get_stream('small', 'one-empty-frame', lz4)
                tot = 1 << (len(st.data) - 1)
                n = max(1, tot // per)
                items += [(tot // n, ('full', 'one-empty-frame', lz4, k, n)) for k in range(n)]
    bigs = ['MAX-1', 'MAX', 'MAX+1', '2MAX', '2MAX+5', 'small+MAX', 'MAX+small', 'small+MAX+1', '2MAX+5+small', 'pair+MAX+1']
    r1, r2 = (8, 1) if ctx.quick else (8, 8)
    bigs_lz4 = bigs if ctx.thorough else ['MAX', 'MAX+1', '2MAX+5', 'small+MAX+1', 'pair+MAX+1']
    bigs_auth = ['small+MAX+1'] if ctx.thorough else []
    for hs in HANDSHAKES:
        for lz4, form in ((False, 'P'), (True, 'U'), (True, 'C')):
            for name in ((bigs if not lz4 else bigs_lz4) if hs == 'ready' else bigs_auth):
                # rough count for load balancing only
                nseg = {'MAX-1': 1, 'MAX': 1, 'MAX+1': 2, '2MAX': 2, '2MAX+5': 3}[big_core(name)] + ('small' in name) + ('pair' in name)
                npos = nseg * 5 * (2 * r2 + 1)
                tot = npos * npos // 2 * 6        # weight: big executions cost several small ones
                n = max(1, tot // per)
                items += [(tot // n, ('big', name, lz4, form, r1, r2, hs, k, n)) for k in range(n)]
    for lz4, name in FLIP_STREAMS:
        st = get_stream('small', name, lz4)
        kcuts = 1 if ctx.quick else 2
        tot = len(st.data) * 8 * len(list(connlib.k_cut_splits(len(st.data), kcuts)))
        n = max(1, min(len(st.data) * 8, tot // per))
        items += [(tot // n, ('flip', name, lz4, kcuts, k, n)) for k in range(n)]
    sizes = [40, 1000, MAX - 1, MAX, MAX + 1, 2 * MAX, 2 * MAX + 5] + ([3 * MAX + 1] if ctx.thorough else [])
    sizes_auth = [40, MAX + 1]
    for hs in HANDSHAKES:
        for lz4 in (False, True):
            for size in (sizes if hs == 'ready' else sizes_auth):
                for compressible in ((False, True) if lz4 else (False,)):
                    items.append((400, ('out', lz4, size, compressible, hs)))
    # send-side schedules: application threads in send_msg on one connection at the same time
    sched_bound = 1 if ctx.quick else 2
    H = 3 * MAX // 2
    sched_plain = [(1000, 1000), (1000, MAX), (MAX, MAX), (1000, MAX + 1), (MAX, MAX + 1), (MAX + 1, MAX + 1), (1000, 2 * MAX + 5),
                   (MAX + 1, 2 * MAX + 5), (H, H), (2 * MAX + 5, 2 * MAX + 5)]
    sched_lz4 = [(1000, MAX + 1), (MAX + 1, MAX + 1), (MAX + 1, 2 * MAX + 5), (H, H)]
    sched_cfgs = [(False, sz, False, sched_bound) for sz in sched_plain] + [(True, sz, True, sched_bound) for sz in sched_lz4]
    if ctx.thorough:
        # three senders; a payload lz4 does not shrink much (slow in the pure-Python codec)
        sched_cfgs += [(False, (1000, MAX + 1, MAX + 1), False, 1), (False, (MAX + 1, MAX + 1, 2 * MAX + 5), False, 1),
                       (True, (1000, MAX + 1), False, 1)]
    for lz4, sz, compressible, bound in sched_cfgs:
        items.append((600 if bound == 1 else 6000, ('sched', lz4, sz, compressible, bound)))
    items = [it for _, it in sorted(ctx.rotate(items), key=lambda x: -x[0])]
    for part in ctx.pmap(run_item, items):
        ctx.merge(part)
    ctx.cov['harnesses'] = {'c06-S-send': {
        'configs (codec, frame sizes per sender, compressible text, preemption bound)': [
            ['lz4' if l else 'plain', list(sz), c, b] for l, sz, c, b in sched_cfgs],
        'executions': ctx.counters.get('send_schedules', 0),
        'executions_with_a_switch_inside_send_msg': ctx.counters.get('send_schedules_with_a_switch_inside_send_msg', 0),
        'scheduling_points_passed': ctx.counters.get('send_schedule_steps', 0), 'complete': True}}
    ctx.cov['rule'] = ('codecs {plain, lz4}; connection setups %s: every splitting with <= %d cuts of one answer of the node from the '
                       'STARTUP answer on U one byte per read; small streams %s (+ lz4 only: %s): after setup ready all splittings with '
                       '<=%d cuts anywhere U <=%d cuts within 1 byte of a segment start / header end / header-CRC end / payload end / '
                       'segment end U one byte per read%s, after setups %s the same with <=%d / <=%d cuts; big '
                       'streams %s in plain form and %s in lz4-left-uncompressed / lz4-compressed form (after setup ready%s): all 1-cut '
                       'splittings within %d bytes and '
                       'all 2-cut splittings within %d byte(s) of those boundaries; outgoing frame sizes %s (after setups %s: %s); bit flips: every bit of '
                       '%d multi-segment streams %s x every splitting with <= %d cuts; SEND-SIDE SCHEDULES (engine S, vt.sched): for each of '
                       'the %d configurations (codec, frame sizes of the senders) %s every schedule with <= %d preemptions%s of that many '
                       'threads calling the real send_msg once each on one connection (scheduling points: every source line of '
                       'Connection.send_msg, every virtual lock operation, every push()), the pushes reaching the node in the order the '
                       'schedule made them; non-trivial = distinct (stream, codec and setup, number of cuts) '
                       'classes, (setup, codec, answer, number of cuts) classes, flipped bits, outgoing segment forms, send schedules with a '
                       'thread switch while a send_msg was in progress'
                       % (list(HANDSHAKES), hs_kmax, list(SMALL), list(SMALL_LZ4_ONLY), anywhere, nearb,
                          '' if ctx.quick else ' U every composition of the one-empty-frame streams', auth_hs, auth_anywhere, auth_nearb,
                          bigs, bigs_lz4, '; %s also after %s' % (bigs_auth, auth_hs) if bigs_auth else '', r1, r2, sizes, auth_hs, sizes_auth,
                          len(FLIP_STREAMS), [n for _, n in FLIP_STREAMS], kcuts, len(sched_cfgs),
                          [('lz4' if l else 'plain',) + tuple(sz) for l, sz, c, b in sched_cfgs], sched_bound,
                          '' if ctx.quick else ' (1 for the three-sender and the incompressible-lz4 configurations)'))
    ctx.cov['exhaustive'] = not ctx.caps_hit      # caps are hit only when reads stopped returning (C06/livelock)
    ctx.assume('send-side schedules: a reactor writes the bytes of one push() call to the socket as a unit and in the order of the calls '
               '(that is C11\'s property); what the node reads is the concatenation of the pushes in the order they were made; it puts a '
               'frame together from the payloads of consecutive segments as they arrive (native_protocol_v5.spec section 2.2)')
    ctx.assume('stream ids after the handshake are handed out in the order first, first+1, ... (first = number of handshake requests; '
               'checked at every execution)')
    ctx.assume('a node leaves a segment payload uncompressed exactly when compressing does not make it smaller')
    ctx.assume('small non-self-contained segments (legal, not produced by Cassandra for small frames) exercise the multi-segment '
               'path under dense split enumeration; real multi-segment frames (> 131071 bytes) are covered by the big streams')
    ctx.assume('a node switches to segment framing (in the form that matches the COMPRESSION option of STARTUP) right after its '
               'unframed READY / AUTHENTICATE answer (native_protocol_v5.spec section 2), so AUTH_RESPONSE / AUTH_CHALLENGE / '
               'AUTH_SUCCESS travel in segments')


def replay(ctx, data):
    connlib.quiet_driver_logs()
    part = Part()
    hs = data.get('handshake', 'ready')
    if data.get('kind') == 'handshake':
        bad = handshake_case(data['codec'] == 'lz4', hs, {int(k): tuple(v) for k, v in data.get('split', {}).items()}, part)
    elif data.get('kind') == 'send-schedule':
        sch = s_send({'codec': data['codec'], 'sizes': list(data['sizes']), 'compressible': data['compressible']},
                     list(data['prefix']), part)
        bad = sch.verdict
    elif data.get('kind') == 'out':
        bad = send_and_read_back(data['codec'] == 'lz4', data['frame_size'], data['compressible'], part, hs=hs)
    else:
        lz4 = data['codec'] == 'lz4'
        name = data['stream']
        if '/' in name:
            nm, form = name.rsplit('/', 1)
            st = get_stream('big', nm, lz4, form, hs=hs)
        else:
            st = get_stream('small', name, lz4, hs=hs)
        bad = receive(st, tuple(data['cuts']), part, flip=data.get('flip'), hs=hs)
    for fp, what, _ in part.violations:
        print(fp, '::', what[:400])
    return bad is not None
