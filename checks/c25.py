"""C25 Host state changes keep a single reconnector and notify listeners once.

Engine E: breadth-first search over histories of {a pool's connection dies and the pool reports it,
the node starts refusing / accepting / rejecting the authentication of new connections, STATUS_CHANGE
UP / DOWN and TOPOLOGY_CHANGE NEW_NODE / REMOVED_NODE events arrive on the control connection, the
node leaves / re-enters the peers table, the application asks for a node-list refresh, the next
(or second-next) executor task runs, the executor runs dry, the earliest scheduled task fires}.
Every transition runs the real Cluster / Session / ControlConnection / HostConnection /
_HostReconnectionHandler code over the virtual server, executor and scheduler.  Two configurations
connect TWO sessions to the cluster (a host is added / a down host is reconnected, every session is
asked for a pool, the node may refuse exactly one connection attempt, the pool creations finish in
either order, either session's pool connection may die); an up host must have a pool in every session.

Engine S: two or three executor workers start with on_up / on_down / a due reconnection attempt /
remove_host for the same host, or with the two sessions' pool creations of a host addition / of on_up, or
(two sessions) with on_up() / the reconnection attempt that calls it / the node-list refresh that calls on_add()
on one worker while the other worker takes the pool creations as they are queued
(SCENARIOS), and then drain the executor; every source line of the
state-change handlers is a scheduling point; all executions within the preemption bound are judged
by the same oracle once everything has run.
"""
import gc

from vt import explore, sched
from vt import c25lib          # noqa: F401  imported here so that forked workers inherit the loaded driver
from vt.core import HarnessError, Part

META = {
    'level': 'model_checking',
    'engine': 'E+S',
    'technique': 'explicit-state BFS over host-event histories on the real Cluster/Session/ControlConnection with canonical-state '
                 'dedup, plus preemption-bounded schedule enumeration of on_up / on_down / remove_host racing for one host',
    'text': 'History layer: all histories up to the depth and environment-event bounds, for 2-3 hosts, one session (two sessions '
            'in the configurations sessions-add, where the target host is not yet known to the driver and is added, and '
            'sessions-up, where it starts down with its reconnector, and liveness-distance, where the policy reports the '
            'target IGNORED exactly while the last thing it was told about it is on_down, as DCAwareRoundRobinPolicy does '
            'with a remote-DC host, and the target starts down), one '
            'registered listener and one recording load-balancing policy, of: a pool connection (of either session) dies and the '
            'pool reports it; the node refuses / accepts / rejects the credentials of new connections, or (two-session '
            'configurations) refuses exactly the next connection attempt, so that the pool creations that on_add() / on_up() '
            'queue for the sessions succeed or fail independently and complete in either order; STATUS_CHANGE UP / DOWN; the node leaves '
            'or (re)joins the ring with or without its TOPOLOGY_CHANGE event, repeated events; application node-list refresh; '
            'run the next executor task (window 1-2) / run the executor dry; fire the earliest scheduled task.  Whenever the '
            'executor is idle: a member host that is down and not ignored has exactly one un-cancelled scheduled reconnection '
            'handler and it is Host._reconnection_handler; a Host instance that left the metadata has none and no open pool; '
            'an up host has none and has a live pool in every session; what the listener and the policy were told never '
            'repeats (up,up / down,down / add,add / same instance removed twice / up or add after remove) and agrees with '
            'Host.is_up and metadata membership.  Schedule layer: 2-3 executor workers start with on_up / on_down / a due '
            'reconnection attempt / remove_host for the same host, or (two sessions) with the two pool creations that on_add() / '
            'on_up() queued, none or exactly one of them refused, or (two sessions, scenarios *-2s-body*) with the BODY of '
            'on_up() (called for a STATUS UP event, or by the reconnection attempt that got through) / of on_add() (called by '
            'the node-list refresh that found the new node) on one worker while an idle second worker takes the pool '
            'creations as that body queues them, so that a session\'s pool creation can complete between any two lines of '
            'the loop that asks the sessions for their pools; no attempt, exactly the first or exactly the second connection '
            'attempt refused; and then drain the executor; every source line of the '
            'state-change handlers is a scheduling point; all executions within the preemption bound are judged by the same '
            'oracle after the executor ran dry.',
    'note': 'Handlers are atomic in the history layer; intra-handler preemption only in the schedule layer (line granularity, '
            'instantaneous network).  Host 10.0.0.1 carries the control connection and is never a target.  A reconnection series '
            'ended by AuthenticationFailed (documented stop condition) is not counted as a missing reconnector.  The virtual '
            'scheduler keeps the uniqueness rule of cluster._Scheduler; the real _Scheduler thread is not run.  With two sessions '
            'Cluster.sessions (a WeakSet) is replaced by an insertion-ordered WeakSet so that rebuilt worlds agree on which '
            'session is asked first; which pool creation completes first is enumerated.  A host that is neither up nor down '
            '(is_up None: its addition has not completed) is not judged by the pool / reconnector clauses.  In the configuration '
            'liveness-distance the target counts as ignored (no reconnector, no pool demanded) exactly while the policy\'s last '
            'status notification for it is on_down.',
    'design_ref': 'C25',
}

gc.freeze()             # everything imported so far is permanent: keeps the per-execution gc.collect() cheap

ENV_COST = 1
_GC = [0]
T = '10.0.0.2'          # the host the schedule layer races on


class H(explore.Harness):
    name = 'c25'

    # ------------------------------------------------------------------ world
    def init(self):
        from vt.c25lib import HostWorld
        gc.disable()            # Session.__del__ -> shutdown() of a dead world must not run inside a live one
        st = HostWorld(self.params)
        pre = self.params.get('pre')
        if pre:
            # the configuration's start state: a fixed prefix in the same alphabet, not counted in the bounds
            try:
                for ev in pre:
                    self.apply(st, tuple(ev))
                for k in st.stats:      # (the notification logs are kept: the observers heard the prefix too)
                    st.stats[k] = 0
            except BaseException:
                st.close()
                raise
        return st

    def cleanup(self, st):
        st.close()
        _GC[0] += 1
        if _GC[0] % 40 == 0:
            gc.collect()

    # ------------------------------------------------------------------ alphabet
    def events(self, st):
        p = self.params
        evs = []
        kinds = p['kinds']
        for a in p['targets']:
            if 'fail' in kinds:
                # the connection of one session's pool dies (every session has its own pool per host)
                for si in range(len(st.sessions)):
                    if st.can_fail(a, si):
                        evs.append((('fail', a) if si == 0 else ('fail', a, si), ENV_COST))
            for m in p.get('modes', ()):
                # 'once': the node refuses exactly the next connection attempt (whichever session or reconnector makes it)
                if m != st.mode[a] and (m != 'once' or st.mode[a] == 'up'):
                    evs.append((('mode', a, m), ENV_COST))
            if 'status' in kinds:
                evs.append((('status', a, 'UP'), ENV_COST))
                evs.append((('status', a, 'DOWN'), ENV_COST))
            if 'topo' in kinds:
                # topology events are truthful about the peers table at the moment they are sent:
                # leave = the node leaves the ring and REMOVED_NODE is pushed; join = it (re)joins and NEW_NODE is
                # pushed; 'topo' = the same event once more (servers do send superfluous NEW_NODE events)
                if a in st.gone:
                    evs.append((('join', a), ENV_COST))
                    evs.append((('topo', a, 'REMOVED_NODE'), ENV_COST))
                else:
                    evs.append((('leave', a), ENV_COST))
                    evs.append((('topo', a, 'NEW_NODE'), ENV_COST))
            if 'member' in kinds:
                # the same membership change with the event lost (found by a later refresh)
                evs.append((('member', a, 0 if a not in st.gone else 1), ENV_COST))
        if 'refresh' in kinds:
            evs.append((('refresh',), ENV_COST))
        n = len(st.w.tasks)
        for i in range(min(n, p.get('task_window', 2))):
            evs.append((('task', i), 0))
        if n:
            evs.append((('drain',), 0))
        if st.w.sched_tasks:
            evs.append((('fire',), 0))
        return evs

    def apply(self, st, ev):
        before = self.snapshot(st)
        k = ev[0]
        if k == 'fail':
            st.fail_pool_connection(ev[1], ev[2] if len(ev) > 2 else 0)
        elif k == 'mode':
            st.set_mode(ev[1], ev[2])
        elif k == 'status':
            st.push_status(ev[1], ev[2])
        elif k == 'topo':
            st.push_topology(ev[1], ev[2])
        elif k == 'leave':
            st.gone.add(ev[1])
            st.push_topology(ev[1], 'REMOVED_NODE')
        elif k == 'join':
            st.gone.discard(ev[1])
            st.push_topology(ev[1], 'NEW_NODE')
        elif k == 'member':
            if ev[2]:
                st.gone.discard(ev[1])
            else:
                st.gone.add(ev[1])
        elif k == 'refresh':
            st.cluster.refresh_nodes()
        elif k == 'task':
            st.run_task(ev[1])
        elif k == 'drain':
            st.drain()
        elif k == 'fire':
            st.fire_next_scheduled()
        st.w.deliver_outbox()
        st.refresh_hosts()
        after = self.snapshot(st)
        for a in st.addrs:
            (m0, u0), (m1, u1) = before[a], after[a]
            if m0 and not m1:
                st.stats['removed'] += 1
                if u0 is False:
                    st.stats['removed_while_down'] += 1
            if m1 and not m0:
                st.stats['added'] += 1
            if m0 and m1 and u0 is False and u1 is True:
                st.stats['came_up'] = st.stats.get('came_up', 0) + 1
            if m0 and m1 and u0 is True and u1 is False:
                st.stats['went_down'] = st.stats.get('went_down', 0) + 1

    @staticmethod
    def snapshot(st):
        out = {}
        for a in st.addrs:
            m = st.in_metadata(a)
            h = st.host(a)
            out[a] = (m, h.is_up if h is not None else None)
        return out

    # ------------------------------------------------------------------ canonical state
    def canon(self, st):
        from vt.c25lib import views
        hosts = []
        lv = views(st.llog, st.initial_members, st.addrs)
        pv = views(st.plog, st.initial_members, st.addrs)
        for a in st.addrs:
            h = st.host(a)
            if h is None:
                # an address the driver has not heard of yet (not in the peers table when it connected)
                hosts.append((a, None, st.mode[a], a in st.gone))
                continue
            member = st.in_metadata(a)
            rh = h._reconnection_handler
            pcs = []
            for si in range(len(st.sessions)):
                pool = st.pool(a, si)
                pc = None
                if pool is not None:
                    c = pool._connection
                    pc = (pool.is_shutdown, pool._is_replacing, pool.shutdown_on_error,
                          None if c is None else (c.is_closed, c.is_defunct, c.signaled_error))
                pcs.append(pc)
            pc = pcs[0] if len(pcs) == 1 else tuple(pcs)
            hosts.append((a, member, h.is_up, h._currently_handling_node_up,
                          None if rh is None else (rh._cancelled, rh.is_host_addition,
                                                   any(x is rh for x, _ in st.handlers())),
                          pc, st.mode[a], a in st.gone,
                          (lv[a].member, lv[a].status, tuple(lv[a].dups), len(lv[a].removed), st.oid(h) in lv[a].removed),
                          (pv[a].member, pv[a].status, tuple(pv[a].dups), len(pv[a].removed), st.oid(h) in pv[a].removed),
                          h in st.lbp._live,
                          # instances of this address that are no longer (or not) the one in the metadata: queued work
                          # may still refer to them
                          tuple((o.is_up, o._currently_handling_node_up,
                                 None if o._reconnection_handler is None else o._reconnection_handler._cancelled)
                                for o in st.oid.objs if o is not h and o.endpoint == h.endpoint)))
        cc = st.cluster.control_connection
        now = st.w.clock.now
        est = tuple(sorted((k, round(v - now, 4) if v >= now else -1) for k, v in cc._event_schedule_times.items()))
        ccc = cc._connection
        return (tuple(hosts), st.sched_canon(), st.tasks_canon(), est,
                None if ccc is None else (ccc.endpoint.address, ccc.is_closed, ccc.is_defunct))

    # ------------------------------------------------------------------ oracle
    def check(self, st, part, hist):
        data = {'params': self.params, 'history': hist}
        nlive_down = judge(st, self.params, part, data, 'after %d events' % len(hist))
        stats = st.stats
        idle = not st.w.tasks
        # evidence
        if nlive_down:
            part.count('states_down_host_with_live_reconnector')
        if stats['reconnect_ok'] and stats.get('came_up'):
            part.count('histories_with_successful_reconnection')
        if stats['removed_while_down']:
            part.count('histories_with_removal_while_down')
        if stats['reconnect_fail']:
            part.count('histories_with_failed_reconnection_attempt')
        if stats['reconnect_auth']:
            part.count('histories_with_auth_failed_reconnection_attempt')
        if stats['added']:
            part.count('histories_with_host_added')
        part.outcome((idle, nlive_down, min(stats['reconnect_ok'], 2), min(stats['reconnect_fail'], 1),
                      min(stats['reconnect_auth'], 1), min(stats['removed'], 1), min(stats['removed_while_down'], 1),
                      min(stats['added'], 1), min(stats.get('came_up', 0), 2), min(stats.get('went_down', 0), 2)))
        if len(hist) >= 3 and (stats.get('went_down') or stats['removed'] or stats['added']):
            part.mark_nontrivial(repr(self.canon(st)))


def judge(st, params, part, data, when, fp='C25/'):
    """The C25 oracle.  Judged only when the executor is idle (the statement is about the state after each
    change has been processed, not about the inside of a handler).  Returns the number of down hosts that
    have exactly one live reconnector (evidence)."""
    from vt.c25lib import views
    ignored = set(params.get('ignored', ()))
    for a in params.get('ignore_while_down', ()):
        # a host whose distance depends on its liveness is ignored exactly while the policy believes it down
        hh = st.host(a)
        if hh is not None and hh in st.lbp._told_down:
            ignored.add(a)
    # the executor must be idle: the statement is about the state after each change was processed
    idle = not st.w.tasks
    nlive_down = 0
    if idle:
        part.count('idle_states_judged')
        lv = views(st.llog, st.initial_members, st.addrs)
        pv = views(st.plog, st.initial_members, st.addrs)
        many = len(st.sessions) > 1
        for a in st.addrs:
            member = st.in_metadata(a)
            h = st.host(a)
            if h is None:
                continue            # the driver has never heard of this address
            live = st.live_handlers(a)
            mine = [(x, wh) for x, wh in live if x.host is h and member]
            stale = [(x, wh) for x, wh in live if not (x.host is h and member)]
            where = 'host %s %s' % (a, when)
            # findings about a Host instance that was added during the history are filed separately
            sfx = '/added-host' if st.added_later(h) else ''
            if stale:
                part.violation(fp + 'reconnector/removed-host-still-reconnecting' + sfx,
                               '%s: %d un-cancelled reconnection handler(s) for a Host that is no longer in the '
                               'metadata' % (where, len(stale)), data)
            if member and h.is_up is False and a not in ignored:
                rh = h._reconnection_handler
                if len(mine) == 0 and rh is not None and not rh._cancelled and any(x is rh for x in st.auth_stopped):
                    # documented stop condition (see ctx.assume): the server rejected the credentials
                    part.count('idle_states_series_ended_by_auth_failure')
                elif len(mine) == 0:
                    why = 'no handler' if rh is None else \
                        ('Host._reconnection_handler is set (cancelled=%s) but nothing is scheduled' % rh._cancelled)
                    part.violation(fp + 'reconnector/down-host-without-reconnector' + sfx,
                                   '%s: is_up=False, not ignored, and no un-cancelled reconnection attempt is '
                                   'scheduled (%s)' % (where, why), data)
                elif len(mine) > 1:
                    part.violation(fp + 'reconnector/two-for-down-host' + sfx,
                                   '%s: %d un-cancelled reconnection handlers are scheduled' % (where, len(mine)), data)
                else:
                    nlive_down += 1
                    if h._reconnection_handler is not mine[0][0]:
                        part.violation(fp + 'reconnector/current-handler-is-not-the-scheduled-one' + sfx,
                                       '%s: the scheduled un-cancelled handler is not Host._reconnection_handler (%r), '
                                       'so a later on_up/on_remove cannot cancel it' % (where, h._reconnection_handler), data)
            if not member:
                for si, session in enumerate(st.sessions):
                    pool = session._pools.get(h)
                    if pool is not None and not pool.is_shutdown:
                        part.violation(fp + 'pool/removed-host-has-pool' + sfx,
                                       '%s: the host left the metadata, the executor is idle and the session%s still has '
                                       'an open pool for it (is_up=%r)' % (where, ' #%d' % si if many else '', h.is_up), data)
            if member and h.is_up is True:
                if mine:
                    part.violation(fp + 'reconnector/live-for-up-host' + sfx,
                                   '%s: is_up=True but %d un-cancelled reconnection handler(s) still scheduled'
                                   % (where, len(mine)), data)
                if a not in ignored:
                    # ... in every session
                    pools = [session._pools.get(h) for session in st.sessions]
                    missing = [si for si, pool in enumerate(pools) if pool is None or pool.is_shutdown]
                    # a host that is up for the cluster while some, but not all, sessions lack the pool is filed apart
                    clause = 'pool/up-host-without-pool' if len(missing) == len(pools) else 'pool/up-host-pool-missing-in-some-session'
                    for si in missing:
                        part.violation(fp + clause + sfx,
                                       '%s: is_up=True, not ignored, executor idle, and the session%s has %s'
                                       % (where, ' #%d (of %d)' % (si, len(pools)) if many else '',
                                          'no pool' if pools[si] is None else 'only a shut-down pool'), data)
                    if many:
                        part.count('idle_states_up_host_judged_in_every_session')
            for who, vs in (('listener', lv), ('policy', pv)):
                v = vs[a]
                for d in v.dups:
                    part.violation(fp + 'notify/%s/%s' % (who, d) + sfx,
                                   '%s: %s notifications show %s (log of (kind, is_up, Host instance): %r)'
                                   % (where, who, d, [(e[0], e[2], 'obj%s' % e[3]) for e in (st.llog if who == 'listener' else st.plog) if e[1] == a]), data)
                if member and h.is_up is True and v.status == 'down':
                    part.violation(fp + 'notify/%s/up-not-notified' % who + sfx,
                                   '%s: is_up=True but the last thing the %s heard is on_down' % (where, who), data)
                if member and h.is_up is False and v.status == 'up':
                    # (unknown -> down with nobody told is tolerated: the observer never heard it was up)
                    part.violation(fp + 'notify/%s/down-not-notified' % who + sfx,
                                   '%s: is_up=False but the last thing the %s heard is that it is up'
                                   % (where, who), data)
                if not member and v.member:
                    part.violation(fp + 'notify/%s/remove-not-notified' % who + sfx,
                                   '%s: host left the metadata but the %s was not told on_remove' % (where, who), data)
                if member and h.is_up is True and not v.member:
                    part.violation(fp + 'notify/%s/add-not-notified' % who + sfx,
                                   '%s: host is in the metadata and up but the %s was never told on_add' % (where, who), data)
    return nlive_down


# ---------------------------------------------------------------------------------------------- engine S
def _focus():
    import cassandra.cluster as cl
    import cassandra.pool as pl
    C = cl.Cluster
    fns = [C.on_up, C._on_up_future_completed, C.on_down.__wrapped__, C._start_reconnector,
           C._cleanup_failed_on_up_handling, C.on_remove, C.remove_host, C.signal_connection_failure,
           pl.Host.get_and_set_reconnection_handler, pl.Host.set_up, pl.Host.set_down, pl.Host.is_currently_reconnecting,
           pl._ReconnectionHandler.start, pl._ReconnectionHandler.run, pl._ReconnectionHandler.cancel,
           pl._HostReconnectionHandler.on_reconnection]
    if hasattr(C, '_is_current_host'):
        fns.append(C._is_current_host)
    codes = [f.__code__ for f in fns]
    # the host-addition path (what the two-session scenarios race on): on_add with its completion callback, _finalize_add
    codes += [C.on_add.__code__, C._finalize_add.__code__]
    codes += [c for c in C.on_add.__code__.co_consts if isinstance(c, type(C.on_add.__code__))]
    return codes


# start of the two-session on_up scenarios: the node refuses, both sessions' pool connections die, on_down ran
_DOWN2 = [('mode', T, 'down'), ('fail', T), ('fail', T, 1), ('drain',)]

SCENARIOS = {
    # name: (setup history in the history-layer alphabet, racing calls)
    # the host is up; its connection failed (on_down) while a STATUS UP event's on_up runs
    'down-vs-up': ([('fail', T)], ['task', 'on_up']),
    # the host is down with a due reconnection attempt; a STATUS UP event's on_up runs beside it
    'reconnect-vs-up': ([('fail', T), ('drain',), ('fire',)], ['task', 'on_up']),
    # the host is down, the due reconnection attempt runs while a pool-creation failure reports it down again
    'reconnect-vs-down': ([('fail', T), ('drain',), ('fire',)], ['task', 'on_down_expected']),
    # the host is down, the due reconnection attempt runs while a STATUS DOWN event's on_down runs
    'reconnect-vs-statusdown': ([('fail', T), ('drain',), ('fire',)], ['task', 'on_down']),
    # the host is down, a reconnection attempt got through and on_up() queued the pool creation, then the node
    # refuses again: the failing pool creation (its report to on_down, the clean-up of on_up) runs on one worker
    # while a second worker takes whatever gets queued (the on_down it submits)
    'failed-up-vs-down': ([('fail', T), ('drain',), ('fire',), ('task', 0), ('mode', T, 'down')], ['task', 'worker']),
    # the host is down with a due reconnection attempt while it is removed from the ring
    'reconnect-vs-remove': ([('fail', T), ('drain',), ('fire',)], ['task', 'remove']),
    # the host is up and fails while it is removed from the ring
    'down-vs-remove': ([('fail', T)], ['task', 'remove']),
    # three-way: failure, UP event, failure report of a pool creation
    'down-up-down': ([('fail', T)], ['task', 'on_up', 'on_down_expected']),
    # ---- two sessions (third element: world parameters of the scenario).  Two workers each run one session's pool
    # creation, so the two completion callbacks (and what they queue) race.
    # a host is being added: on_add() asked both sessions for a pool; both connection attempts succeed
    'add-2s': ([('join', T), ('fire',), ('task', 0)], ['task', 'task'], dict(sessions=2, initial_gone=[T])),
    # ... the node refuses exactly one of the two attempts (whichever comes first)
    'add-2s-one-refused': ([('join', T), ('fire',), ('task', 0), ('mode', T, 'once')], ['task', 'task'],
                           dict(sessions=2, initial_gone=[T])),
    # the host is down, its reconnection attempt got through and on_up() asked both sessions for a pool
    'up-2s': ([('mode', T, 'down'), ('fail', T), ('fail', T, 1), ('drain',), ('mode', T, 'up'), ('fire',), ('task', 0)],
              ['task', 'task'], dict(sessions=2)),
    'up-2s-one-refused': ([('mode', T, 'down'), ('fail', T), ('fail', T, 1), ('drain',), ('mode', T, 'up'), ('fire',), ('task', 0),
                           ('mode', T, 'once')], ['task', 'task'], dict(sessions=2)),
    # ---- two sessions, the BODY of on_up() / on_add() on one executor worker while a second worker takes the pool
    # creations as they are queued: a session's pool creation can complete (and its completion callback run) between
    # any two lines of the loop that asks the sessions for their pools, in particular after the first session's future
    # was registered and before the second session was asked.
    # the host is down; a STATUS UP event's on_up() runs on one worker
    'up-2s-body': (_DOWN2 + [('mode', T, 'up')], ['on_up', 'worker'], dict(sessions=2)),
    # ... the node refuses exactly the first / exactly the second of the two connection attempts
    'up-2s-body-first-refused': (_DOWN2 + [('mode', T, 'once')], ['on_up', 'worker'], dict(sessions=2)),
    'up-2s-body-second-refused': (_DOWN2 + [('mode', T, 'second')], ['on_up', 'worker'], dict(sessions=2)),
    # the host is down; its due reconnection attempt gets through and calls on_up() on the worker that ran it
    'up-2s-body-reconnect': (_DOWN2 + [('mode', T, 'up'), ('fire',)], ['task', 'worker'], dict(sessions=2)),
    # a node joined: the node-list refresh finds it and calls on_add() on the worker that ran the refresh
    'add-2s-body': ([('join', T), ('fire',)], ['task', 'worker'], dict(sessions=2, initial_gone=[T])),
    'add-2s-body-first-refused': ([('join', T), ('fire',), ('mode', T, 'once')], ['task', 'worker'],
                                  dict(sessions=2, initial_gone=[T])),
    'add-2s-body-second-refused': ([('join', T), ('fire',), ('mode', T, 'second')], ['task', 'worker'],
                                   dict(sessions=2, initial_gone=[T])),
}


def _group(clause):
    """coarse class of an oracle clause, for the fingerprints of the schedule layer"""
    clause = clause.replace('/added-host', '')
    if clause == 'reconnector/down-host-without-reconnector':
        return 'host-stays-down'
    if clause in ('reconnector/removed-host-still-reconnecting', 'pool/removed-host-has-pool') or clause.endswith('-after-remove'):
        return 'removed-host-revived'
    if clause.startswith('reconnector/'):
        return 'extra-reconnector'
    if clause.startswith('notify/'):
        return 'notifications'
    return clause.replace('/', '-')


class _InlineOutbox(object):
    def append(self, item):
        conn, data = item
        conn.feed(data)

    def __len__(self):
        return 0


@sched.gc_quiet
def s_harness(params, prefix, part):
    """Two or three executor workers each start with one state-change call for the same host and then
    keep taking queued tasks until the queue is empty; the server's answers arrive instantly.
    Judged with the same oracle as the history layer once everything has run."""
    import cassandra.cluster as cl
    # the scenario is the first (free) data choice of the execution, so that one exploration - one worker pool -
    # covers a whole group of scenarios
    group = params['scenarios']
    k = prefix[0] if prefix and len(group) > 1 else 0
    if not 0 <= k < len(group):
        raise HarnessError('scenario choice %r out of range' % (k,))
    scenario, gone = group[k]
    setup, calls = SCENARIOS[scenario][:2]
    if len(SCENARIOS[scenario]) > 2:
        params = dict(params, **SCENARIOS[scenario][2])
    h = H(params)
    st = h.init()
    try:
        for ev in setup:
            h.apply(st, tuple(ev))
        if gone:
            st.gone.add(T)
        w, cluster, host = st.w, st.cluster, st.host(T)
        # the network is instantaneous in this layer: the server's answer is fed back inside push(), so a
        # handshake or a control-connection query never blocks (no reactor thread, no free switches at waits)
        st.server.outbox = _InlineOutbox()
        s = sched.Scheduler(prefix, focus=_focus(), horizon=20000, clock=w.clock)
        if s.choose(len(group), 'scenario') != k:
            raise HarnessError('scenario choice is not the first choice point')
        done = {'n': 0}
        # every 'task' worker starts with one of the tasks that are queued after the setup, in queue order
        firsts = []
        for kind in calls:
            if kind == 'task' and w.tasks:
                firsts.append(w.tasks[0])
                del w.tasks[0]
        if len(firsts) != calls.count('task'):
            raise HarnessError('scenario %s: %d task(s) queued after the setup, %d wanted' % (scenario, len(firsts), calls.count('task')))

        def call(kind, first=None):
            if kind == 'on_up':
                cluster.on_up(host)
            elif kind == 'on_down':
                cl.Cluster.on_down.__wrapped__(cluster, host, False)
            elif kind == 'on_down_expected':
                cl.Cluster.on_down.__wrapped__(cluster, host, False, expect_host_to_be_down=True)
            elif kind == 'remove':
                cluster.remove_host(host)
            elif kind == 'worker':
                pass
            elif kind == 'task':
                fut, fn, args, kwargs, label, ex = first
                if st._handler_of(fn) is not None:
                    st.stats['reconnect_ok'] += 1
                try:                                  # what an executor worker does with a task
                    r = fn(*args, **kwargs)
                except Exception as e:
                    fut.set_exception(e)
                else:
                    fut.set_result(r)

        def worker(kind):
            first = firsts.pop(0) if kind == 'task' else None

            def body():
                try:
                    if kind == 'worker':
                        s.block(lambda: bool(w.tasks) or done['n'] >= len(calls) - 1, None, 'idle worker')
                    call(kind, first)
                    while w.tasks:
                        w.run_task(0)
                finally:
                    done['n'] += 1
            return body

        for i, kind in enumerate(calls):
            s.spawn(worker(kind), 'w%d:%s' % (i, kind))
        s.run()
        data = {'engine': 'S', 'params': params, 'prefix': s.choices()}
        cls = scenario + ('-gone' if gone else '')
        if s.failure:
            part.violation('C25/race/%s/%s' % (cls, s.failure[0]), s.failure[1], data)
            return s
        for t in s.threads:
            if t.exc is not None:
                part.violation('C25/race/%s/thread-exception/%s' % (cls, type(t.exc).__name__),
                               '%r in %s\n%s' % (t.exc, t.name, getattr(t, 'exc_tb', '')), data)
                return s
        # whatever is left (nothing should be) runs now, single-threaded
        st.drain()
        st.refresh_hosts()
        p2 = Part()
        nlive = judge(st, params, p2, data, 'after the race %s' % cls, fp='')
        for k, v in p2.counters.items():
            if k != 'violating_cases':
                part.count(k, v)
        for fp, what, d in p2.violations:
            part.violation('C25/race/%s/%s' % (cls, _group(fp)), '[%s] %s' % (fp, what), data)
        hh = st.host(T)
        part.outcome((cls, st.in_metadata(T), hh.is_up, nlive, len(st.llog), len(st.plog)))
        if any(p.chosen for p in s.trace if not p.kind.startswith('data')):
            part.mark_nontrivial(cls + repr(s.choices()))
        part.sample({'scenario': cls, 'choices': s.choices(), 'is_up': hh.is_up, 'listener': [e[0] for e in st.llog],
                     'policy': [e[0] for e in st.plog]}, limit=1)
        return s
    finally:
        h.cleanup(st)


def configs(ctx):
    t2, t3 = '10.0.0.2', '10.0.0.3'
    q = [
        # one target host: failures, server up/down, status events; deep
        ('status', dict(hosts=2, targets=[t2], kinds=['fail', 'status'], modes=['up', 'down'], task_window=2), 8, 4),
        # topology: removal / re-adding of the target while it is up or down
        ('topology', dict(hosts=3, targets=[t3], kinds=['fail', 'topo', 'member', 'refresh'], modes=['up', 'down'],
                          task_window=2), 8, 4),
        # everything on one target, fewer environment events
        ('mixed', dict(hosts=2, targets=[t2], kinds=['fail', 'status', 'topo', 'member'], modes=['up', 'down'],
                       task_window=1), 7, 3),
        # authentication failures stop a reconnection series (documented); what happens around it
        ('auth', dict(hosts=2, targets=[t2], kinds=['fail', 'status'], modes=['up', 'auth'], task_window=1), 8, 4),
        # an ignored host: no pools, no reconnector
        ('ignored', dict(hosts=3, targets=[t3], ignored=[t3], kinds=['status', 'topo', 'member'], modes=[], task_window=1), 6, 4),
        # two targets
        ('two', dict(hosts=3, targets=[t2, t3], kinds=['fail', 'status'], modes=['down'], task_window=1), 6, 3),
        # two sessions, a host is added (it is not in the peers table when the driver connects): on_add() asks every
        # session for a pool; the node may refuse one session's connection and accept the other's, and the two pool
        # creations finish in either order
        ('sessions-add', dict(hosts=2, sessions=2, targets=[t2], initial_gone=[t2], kinds=['fail', 'topo', 'member', 'refresh'],
                              modes=['up', 'down', 'once'], task_window=2), 8, 3),
        # two sessions, the host starts down with its reconnector (prefix: the node refuses, both pools' connections
        # die): the reconnection gets through and on_up() asks every session for a pool, likewise
        ('sessions-up', dict(hosts=2, sessions=2, targets=[t2], kinds=['fail', 'status'], modes=['up', 'down', 'once'], task_window=2,
                             pre=[('mode', t2, 'down'), ('fail', t2), ('fail', t2, 1), ('drain',)]), 8, 3),
        # a host whose distance depends on its liveness (what a remote-DC host is under DCAwareRoundRobinPolicy with
        # used_hosts_per_remote_dc >= 1): the policy reports it IGNORED while the last thing it was told about it is
        # on_down (so a down host has no reconnector and comes back through STATUS UP only) and not ignored once told
        # on_up.  Two sessions; it starts down (same prefix as sessions-up)
        ('liveness-distance', dict(hosts=3, sessions=2, targets=[t3], ignore_while_down=[t3], kinds=['fail', 'status'],
                                   modes=['up', 'down'], task_window=1,
                                   pre=[('mode', t3, 'down'), ('fail', t3), ('fail', t3, 1), ('drain',)]), 7, 3),
    ]
    if ctx.thorough:
        q = [(n, p, d + 2, e + 1) for n, p, d, e in q]
    return q


def run(ctx):
    import os
    only = os.environ.get('C25_ONLY')        # development aid: run a subset of the configurations
    if only:
        ctx.cap('C25_ONLY=%s: only a subset of the configurations was run' % only)
    for name, params, depth, dev in configs(ctx):
        if only and name not in only.split(','):
            continue
        explore.bfs(ctx, H, params, max_depth=depth, dev_bound=dev * ENV_COST, label='c25-' + name,
                    max_states=600000 if ctx.thorough else 40000)
    # schedule layer.  quick: 2 preemptions for the two races whose lost-update interleavings need two (the completion
    # of on_up against a second on_up / against a STATUS DOWN), 1 for the others; thorough: 3 for down-vs-up, 2 for the
    # others.  One exploration per bound (the scenario is the first data choice).
    deep = ('down-vs-up',) if ctx.thorough else ('reconnect-vs-statusdown', 'reconnect-vs-up')
    hi, lo = (3, 2) if ctx.thorough else (2, 1)
    variants = [(name, gone) for name in sorted(SCENARIOS) for gone in ((False, True) if 'remove' in name else (False,))]
    if only:
        sel = only.split(',')
        variants = [v for v in variants if 'S' in sel or ('S:' + v[0]) in sel]
    for label, bound, group in (('deep', hi, [v for v in variants if v[0] in deep]),
                                ('wide', lo, [v for v in variants if v[0] not in deep and '-2s' not in v[0]]),
                                ('sessions', lo, [v for v in variants if '-2s' in v[0]])):
        if group:
            sched.explore(ctx, 'c25-S-%s' % label, s_harness,
                          dict(hosts=2, targets=[T], scenarios=group, kinds=[], modes=[]), bound,
                          max_executions=600000 if ctx.thorough else 60000)
            ctx.cov['harnesses']['c25-S-%s' % label]['scenarios'] = ['%s%s' % (n, '-gone' if g else '') for n, g in group]
    ctx.cov['rule'] = ('history layer: state = event history replayed on a fresh real Cluster+Session; invariants judged in every state '
                       'whose executor queue is empty; non-trivial = distinct canonical state at depth >= 3 in which a host went '
                       'down, was removed or was added; outcomes = (idle?, #down hosts with one live reconnector, reconnect ok/'
                       'failed/auth-failed seen, removed, removed while down, added, came up, went down); counter '
                       'idle_states_up_host_judged_in_every_session = idle states of the two-session configurations in which an up '
                       'host was judged to have a pool in both sessions.  Schedule layer: execution '
                       '= one schedule within the preemption bound; non-trivial = at least one non-default scheduling choice; '
                       'outcomes = (scenario, member?, is_up, #live reconnectors, #listener calls, #policy calls)')
    ctx.assume('handlers are atomic with respect to each other in the history layer (single-threaded histories)')
    ctx.assume('the control-connection host 10.0.0.1 never fails and is never removed')
    ctx.assume('two-session configurations: Cluster.sessions iterates in creation order (insertion-ordered stand-in for the WeakSet, '
               'whose order is the address order of the Session objects); both completion orders of the queued pool creations '
               'are enumerated by the explorer')
    ctx.assume('scheduled tasks fire in deadline order (what cluster._Scheduler does); executor tasks may overtake by one position')
    ctx.assume('topology events are truthful about the peers table at the moment they are sent (REMOVED_NODE only for a node '
               'that is not in it, NEW_NODE only for one that is); STATUS events may be stale')
    ctx.assume('a reconnection series that ended because the server rejected the credentials (AuthenticationFailed, the documented '
               'stop condition of _ReconnectionHandler.on_exception) is not counted as a missing reconnector')
    ctx.assume('unknown -> down (Host.is_up None -> False) without a notification is tolerated when the observer was never told '
               'the host is up; on_remove for a Host whose on_add had not been delivered yet is tolerated')
    ctx.assume('the recording policy belongs to exactly one execution profile (the driver\'s default graph profiles wrap the default '
               'profile\'s policy and would forward every notification to it once more each, by design)')
    ctx.assume('schedule layer, *-2s-body* scenarios: the executor has two workers (the driver\'s default executor_threads=2); one runs '
               'on_up()/on_add(), the other is idle and takes tasks as soon as they are queued')
    ctx.assume('schedule layer: the server answers instantly (no reactor thread); line-level atomicity of CPython statements')


def replay(ctx, data):
    if data.get('engine') == 'S':
        part = Part()
        s_harness(data['params'], data['prefix'], part)
        for fp, what, _ in part.violations:
            print(fp, '::', what)
        return bool(part.violations)
    part = explore.replay(H, data['params'], [tuple(e) for e in data['history']])
    for fp, what, _ in part.violations:
        print(fp, '::', what)
    return bool(part.violations)
