"""C25 Host state changes keep a single reconnector and notify listeners once.

Engine E: breadth-first search over histories of {a pool's connection dies and the pool reports it,
the node starts refusing / accepting / rejecting the authentication of new connections, STATUS_CHANGE
UP / DOWN and TOPOLOGY_CHANGE NEW_NODE / REMOVED_NODE events arrive on the control connection, the
node leaves / re-enters the peers table, the application asks for a node-list refresh, the next
(or second-next) executor task runs, the executor runs dry, the earliest scheduled task fires}.
Every transition runs the real Cluster / Session / ControlConnection / HostConnection /
_HostReconnectionHandler code over the virtual server, executor and scheduler.

Engine S: Cluster.on_up racing Cluster.on_down (and a second on_up) for the same host on separate
virtual threads, every source line of the state-change handlers a scheduling point.
"""
import gc

from vt import explore, sched
from vt import c25lib          # noqa: F401  imported here so that forked workers inherit the loaded driver
from vt.core import Part

META = {
    'level': 'model_checking',
    'engine': 'E+S',
    'technique': 'explicit-state BFS over host-event histories on the real Cluster/Session/ControlConnection with canonical-state '
                 'dedup, plus preemption-bounded schedule enumeration of on_up racing on_down',
    'text': 'All histories up to the depth bound, for 2-3 hosts, one session, one registered listener and one recording '
            'load-balancing policy, of: pool connection failure, node refusing/accepting/auth-rejecting new connections, '
            'STATUS UP/DOWN and TOPOLOGY NEW_NODE/REMOVED_NODE events, peers-table membership change, node-list refresh, '
            'run next executor task (window 2) / run executor dry, fire earliest scheduled task.  Whenever the executor is '
            'idle: a member host that is down and not ignored has exactly one un-cancelled scheduled reconnection handler and '
            'it is Host._reconnection_handler; a removed host has none; an up host has none and has a live pool in the '
            'session; the notifications seen by the listener and by the policy never repeat (up,up / down,down / add,add / '
            'remove,remove) and agree with Host.is_up and metadata membership.  Schedule layer: all executions with at most '
            'the stated number of preemptions of on_up || on_down (|| on_up) for one host, judged after the executor ran dry.',
    'note': 'Handlers are atomic in the history layer; intra-handler preemption only in the schedule layer (line '
            'granularity).  Host 10.0.0.1 carries the control connection and is never a target.  Virtual scheduler keeps '
            'the uniqueness rule of cluster._Scheduler; the real _Scheduler thread is not run.',
    'design_ref': 'C25',
}

gc.freeze()             # everything imported so far is permanent: keeps the per-execution gc.collect() cheap

ENV_COST = 1
_GC = [0]
T = '10.0.0.2'          # the host the schedule layer races on


class H(explore.Harness):
    name = 'c25'

    # ------------------------------------------------------------------ world
    def init(self):
        from vt.c25lib import HostWorld
        gc.disable()            # Session.__del__ -> shutdown() of a dead world must not run inside a live one
        return HostWorld(self.params)

    def cleanup(self, st):
        st.close()
        _GC[0] += 1
        if _GC[0] % 40 == 0:
            gc.collect()

    # ------------------------------------------------------------------ alphabet
    def events(self, st):
        p = self.params
        evs = []
        kinds = p['kinds']
        for a in p['targets']:
            if 'fail' in kinds and st.can_fail(a):
                evs.append((('fail', a), ENV_COST))
            for m in p.get('modes', ()):
                if m != st.mode[a]:
                    evs.append((('mode', a, m), ENV_COST))
            if 'status' in kinds:
                evs.append((('status', a, 'UP'), ENV_COST))
                evs.append((('status', a, 'DOWN'), ENV_COST))
            if 'topo' in kinds:
                # topology events are truthful about the peers table at the moment they are sent:
                # leave = the node leaves the ring and REMOVED_NODE is pushed; join = it (re)joins and NEW_NODE is
                # pushed; 'topo' = the same event once more (servers do send superfluous NEW_NODE events)
                if a in st.gone:
                    evs.append((('join', a), ENV_COST))
                    evs.append((('topo', a, 'REMOVED_NODE'), ENV_COST))
                else:
                    evs.append((('leave', a), ENV_COST))
                    evs.append((('topo', a, 'NEW_NODE'), ENV_COST))
            if 'member' in kinds:
                # the same membership change with the event lost (found by a later refresh)
                evs.append((('member', a, 0 if a not in st.gone else 1), ENV_COST))
        if 'refresh' in kinds:
            evs.append((('refresh',), ENV_COST))
        n = len(st.w.tasks)
        for i in range(min(n, p.get('task_window', 2))):
            evs.append((('task', i), 0))
        if n:
            evs.append((('drain',), 0))
        if st.w.sched_tasks:
            evs.append((('fire',), 0))
        return evs

    def apply(self, st, ev):
        before = self.snapshot(st)
        k = ev[0]
        if k == 'fail':
            st.fail_pool_connection(ev[1])
        elif k == 'mode':
            st.set_mode(ev[1], ev[2])
        elif k == 'status':
            st.push_status(ev[1], ev[2])
        elif k == 'topo':
            st.push_topology(ev[1], ev[2])
        elif k == 'leave':
            st.gone.add(ev[1])
            st.push_topology(ev[1], 'REMOVED_NODE')
        elif k == 'join':
            st.gone.discard(ev[1])
            st.push_topology(ev[1], 'NEW_NODE')
        elif k == 'member':
            if ev[2]:
                st.gone.discard(ev[1])
            else:
                st.gone.add(ev[1])
        elif k == 'refresh':
            st.cluster.refresh_nodes()
        elif k == 'task':
            st.run_task(ev[1])
        elif k == 'drain':
            st.drain()
        elif k == 'fire':
            st.fire_next_scheduled()
        st.w.deliver_outbox()
        st.refresh_hosts()
        after = self.snapshot(st)
        for a in st.addrs:
            (m0, u0), (m1, u1) = before[a], after[a]
            if m0 and not m1:
                st.stats['removed'] += 1
                if u0 is False:
                    st.stats['removed_while_down'] += 1
            if m1 and not m0:
                st.stats['added'] += 1
            if m0 and m1 and u0 is False and u1 is True:
                st.stats['came_up'] = st.stats.get('came_up', 0) + 1
            if m0 and m1 and u0 is True and u1 is False:
                st.stats['went_down'] = st.stats.get('went_down', 0) + 1

    @staticmethod
    def snapshot(st):
        out = {}
        for a in st.addrs:
            m = st.in_metadata(a)
            h = st.host(a)
            out[a] = (m, h.is_up if h is not None else None)
        return out

    # ------------------------------------------------------------------ canonical state
    def canon(self, st):
        from vt.c25lib import views
        hosts = []
        lv = views(st.llog, st.initial_members, st.addrs)
        pv = views(st.plog, st.initial_members, st.addrs)
        for a in st.addrs:
            h = st.host(a)
            member = st.in_metadata(a)
            pool = st.pool(a)
            rh = h._reconnection_handler
            pc = None
            if pool is not None:
                c = pool._connection
                pc = (pool.is_shutdown, pool._is_replacing, pool.shutdown_on_error,
                      None if c is None else (c.is_closed, c.is_defunct, c.signaled_error))
            hosts.append((a, member, h.is_up, h._currently_handling_node_up,
                          None if rh is None else (rh._cancelled, rh.is_host_addition,
                                                   any(x is rh for x, _ in st.handlers())),
                          pc, st.mode[a], a in st.gone,
                          (lv[a].member, lv[a].status, tuple(lv[a].dups), len(lv[a].removed), st.oid(h) in lv[a].removed),
                          (pv[a].member, pv[a].status, tuple(pv[a].dups), len(pv[a].removed), st.oid(h) in pv[a].removed),
                          h in st.lbp._live))
        cc = st.cluster.control_connection
        now = st.w.clock.now
        est = tuple(sorted((k, round(v - now, 4) if v >= now else -1) for k, v in cc._event_schedule_times.items()))
        ccc = cc._connection
        return (tuple(hosts), st.sched_canon(), st.tasks_canon(), est,
                None if ccc is None else (ccc.endpoint.address, ccc.is_closed, ccc.is_defunct))

    # ------------------------------------------------------------------ oracle
    def check(self, st, part, hist):
        data = {'params': self.params, 'history': hist}
        nlive_down = judge(st, self.params, part, data, 'after %d events' % len(hist))
        stats = st.stats
        idle = not st.w.tasks
        # evidence
        if nlive_down:
            part.count('states_down_host_with_live_reconnector')
        if stats['reconnect_ok'] and stats.get('came_up'):
            part.count('histories_with_successful_reconnection')
        if stats['removed_while_down']:
            part.count('histories_with_removal_while_down')
        if stats['reconnect_fail']:
            part.count('histories_with_failed_reconnection_attempt')
        if stats['reconnect_auth']:
            part.count('histories_with_auth_failed_reconnection_attempt')
        if stats['added']:
            part.count('histories_with_host_added')
        part.outcome((idle, nlive_down, min(stats['reconnect_ok'], 2), min(stats['reconnect_fail'], 1),
                      min(stats['reconnect_auth'], 1), min(stats['removed'], 1), min(stats['removed_while_down'], 1),
                      min(stats['added'], 1), min(stats.get('came_up', 0), 2), min(stats.get('went_down', 0), 2)))
        if len(hist) >= 3 and (stats.get('went_down') or stats['removed'] or stats['added']):
            part.mark_nontrivial(repr(self.canon(st)))


def judge(st, params, part, data, when):
    """The C25 oracle.  Judged only when the executor is idle (the statement is about the state after each
    change has been processed, not about the inside of a handler).  Returns the number of down hosts that
    have exactly one live reconnector (evidence)."""
    from vt.c25lib import views
    ignored = set(params.get('ignored', ()))
    # the executor must be idle: the statement is about the state after each change was processed
    idle = not st.w.tasks
    nlive_down = 0
    if idle:
        part.count('idle_states_judged')
        lv = views(st.llog, st.initial_members, st.addrs)
        pv = views(st.plog, st.initial_members, st.addrs)
        session = st.session
        for a in st.addrs:
            member = st.in_metadata(a)
            h = st.host(a)
            live = st.live_handlers(a)
            mine = [(x, wh) for x, wh in live if x.host is h and member]
            stale = [(x, wh) for x, wh in live if not (x.host is h and member)]
            where = 'host %s %s' % (a, when)
            if stale:
                part.violation('C25/reconnector/removed-host-still-reconnecting',
                               '%s: %d un-cancelled reconnection handler(s) for a Host that is no longer in the '
                               'metadata' % (where, len(stale)), data)
            if member and h.is_up is False and a not in ignored:
                rh = h._reconnection_handler
                if len(mine) == 0 and rh is not None and not rh._cancelled and any(x is rh for x in st.auth_stopped):
                    # documented stop condition (see ctx.assume): the server rejected the credentials
                    part.count('idle_states_series_ended_by_auth_failure')
                elif len(mine) == 0:
                    why = 'no handler' if rh is None else \
                        ('Host._reconnection_handler is set (cancelled=%s) but nothing is scheduled' % rh._cancelled)
                    part.violation('C25/reconnector/down-host-without-reconnector',
                                   '%s: is_up=False, not ignored, and no un-cancelled reconnection attempt is '
                                   'scheduled (%s)' % (where, why), data)
                elif len(mine) > 1:
                    part.violation('C25/reconnector/two-for-down-host',
                                   '%s: %d un-cancelled reconnection handlers are scheduled' % (where, len(mine)), data)
                else:
                    nlive_down += 1
                    if h._reconnection_handler is not mine[0][0]:
                        part.violation('C25/reconnector/current-handler-is-not-the-scheduled-one',
                                       '%s: the scheduled un-cancelled handler is not Host._reconnection_handler (%r), '
                                       'so a later on_up/on_remove cannot cancel it' % (where, h._reconnection_handler), data)
            if not member:
                pool = session._pools.get(h)
                if pool is not None and not pool.is_shutdown:
                    part.violation('C25/pool/removed-host-has-pool',
                                   '%s: the host left the metadata, the executor is idle and the session still has '
                                   'an open pool for it (is_up=%r)' % (where, h.is_up), data)
            if member and h.is_up is True:
                if mine:
                    part.violation('C25/reconnector/live-for-up-host',
                                   '%s: is_up=True but %d un-cancelled reconnection handler(s) still scheduled'
                                   % (where, len(mine)), data)
                if a not in ignored:
                    pool = session._pools.get(h)
                    if pool is None or pool.is_shutdown:
                        part.violation('C25/pool/up-host-without-pool',
                                       '%s: is_up=True, not ignored, executor idle, and the session has %s'
                                       % (where, 'no pool' if pool is None else 'only a shut-down pool'), data)
            for who, vs in (('listener', lv), ('policy', pv)):
                v = vs[a]
                for d in v.dups:
                    part.violation('C25/notify/%s/%s' % (who, d),
                                   '%s: %s notifications show %s (log of (kind, is_up, Host instance): %r)'
                                   % (where, who, d, [(e[0], e[2], 'obj%s' % e[3]) for e in (st.llog if who == 'listener' else st.plog) if e[1] == a]), data)
                if member and h.is_up is True and v.status == 'down':
                    part.violation('C25/notify/%s/up-not-notified' % who,
                                   '%s: is_up=True but the last thing the %s heard is on_down' % (where, who), data)
                if member and h.is_up is False and v.status == 'up':
                    # (unknown -> down with nobody told is tolerated: the observer never heard it was up)
                    part.violation('C25/notify/%s/down-not-notified' % who,
                                   '%s: is_up=False but the last thing the %s heard is that it is up'
                                   % (where, who), data)
                if not member and v.member:
                    part.violation('C25/notify/%s/remove-not-notified' % who,
                                   '%s: host left the metadata but the %s was not told on_remove' % (where, who), data)
                if member and h.is_up is True and not v.member:
                    part.violation('C25/notify/%s/add-not-notified' % who,
                                   '%s: host is in the metadata and up but the %s was never told on_add' % (where, who), data)
    return nlive_down


# ---------------------------------------------------------------------------------------------- engine S
def _focus():
    import cassandra.cluster as cl
    import cassandra.pool as pl
    C = cl.Cluster
    fns = [C.on_up, C._on_up_future_completed, C.on_down.__wrapped__, C._start_reconnector,
           C._cleanup_failed_on_up_handling, C.on_remove, C.remove_host, C.signal_connection_failure,
           pl.Host.get_and_set_reconnection_handler, pl.Host.set_up, pl.Host.set_down, pl.Host.is_currently_reconnecting,
           pl._ReconnectionHandler.start, pl._ReconnectionHandler.run, pl._ReconnectionHandler.cancel,
           pl._HostReconnectionHandler.on_reconnection]
    if hasattr(C, '_is_current_host'):
        fns.append(C._is_current_host)
    return [f.__code__ for f in fns]


SCENARIOS = {
    # name: (setup history in the history-layer alphabet, racing calls)
    # the host is up; its connection failed (on_down) while a STATUS UP event's on_up runs
    'down-vs-up': ([('fail', T)], ['task', 'on_up']),
    # the host is down with a due reconnection attempt; a STATUS UP event's on_up runs beside it
    'reconnect-vs-up': ([('fail', T), ('drain',), ('fire',)], ['task', 'on_up']),
    # the host is down, the due reconnection attempt runs while a pool-creation failure reports it down again
    'reconnect-vs-down': ([('fail', T), ('drain',), ('fire',)], ['task', 'on_down_expected']),
    # the host is down with a due reconnection attempt while it is removed from the ring
    'reconnect-vs-remove': ([('fail', T), ('drain',), ('fire',)], ['task', 'remove']),
    # the host is up and fails while it is removed from the ring
    'down-vs-remove': ([('fail', T)], ['task', 'remove']),
    # three-way: failure, UP event, failure report of a pool creation
    'down-up-down': ([('fail', T)], ['task', 'on_up', 'on_down_expected']),
}


@sched.gc_quiet
def s_harness(params, prefix, part):
    """Two or three executor workers each start with one state-change call for the same host and then
    keep taking queued tasks until the queue is empty; a reactor thread delivers the server's answers.
    Judged with the same oracle as the history layer once everything has run."""
    import cassandra.cluster as cl
    h = H(params)
    st = h.init()
    try:
        setup, calls = SCENARIOS[params['scenario']]
        for ev in setup:
            h.apply(st, tuple(ev))
        if params.get('gone'):
            st.gone.add(T)
        w, cluster, host = st.w, st.cluster, st.host(T)
        s = sched.Scheduler(prefix, focus=_focus(), horizon=20000, clock=w.clock)
        done = {'n': 0}
        first = w.tasks[0] if w.tasks else None
        if first is not None:
            del w.tasks[0]

        def call(kind):
            if kind == 'on_up':
                cluster.on_up(host)
            elif kind == 'on_down':
                cl.Cluster.on_down.__wrapped__(cluster, host, False)
            elif kind == 'on_down_expected':
                cl.Cluster.on_down.__wrapped__(cluster, host, False, expect_host_to_be_down=True)
            elif kind == 'remove':
                cluster.remove_host(host)
            elif kind == 'task':
                fut, fn, args, kwargs, label, ex = first
                if st._handler_of(fn) is not None:
                    st.stats['reconnect_ok'] += 1
                fn(*args, **kwargs)

        def worker(kind):
            def body():
                try:
                    call(kind)
                    while w.tasks:
                        w.run_task(0)
                finally:
                    done['n'] += 1
            return body

        def reactor():
            while True:
                s.block(lambda: bool(st.server.outbox) or done['n'] >= len(calls), None, 'reactor idle')
                if st.server.outbox:
                    w.deliver_outbox(1)
                else:
                    break

        for i, kind in enumerate(calls):
            s.spawn(worker(kind), 'w%d:%s' % (i, kind))
        s.spawn(reactor, 'reactor')
        s.run()
        data = {'engine': 'S', 'params': params, 'prefix': s.choices()}
        cls = params['scenario']
        if s.failure:
            part.violation('C25/sched/%s/%s' % (s.failure[0], cls), s.failure[1], data)
            return s
        for t in s.threads:
            if t.exc is not None:
                part.violation('C25/sched/thread-exception/%s/%s' % (type(t.exc).__name__, cls),
                               '%r in %s\n%s' % (t.exc, t.name, getattr(t, 'exc_tb', '')), data)
                return s
        # whatever is left (nothing should be) runs now, single-threaded
        st.drain()
        st.refresh_hosts()
        nlive = judge(st, params, part, data, 'after the race %s' % cls)
        hh = st.host(T)
        part.outcome((cls, st.in_metadata(T), hh.is_up, nlive, len(st.llog), len(st.plog)))
        if any(p.chosen for p in s.trace if not p.kind.startswith('data')):
            part.mark_nontrivial(cls + repr(s.choices()))
        part.sample({'scenario': cls, 'choices': s.choices(), 'is_up': hh.is_up, 'listener': [e[0] for e in st.llog],
                     'policy': [e[0] for e in st.plog]}, limit=1)
        return s
    finally:
        h.cleanup(st)


def configs(ctx):
    t2, t3 = '10.0.0.2', '10.0.0.3'
    q = [
        # one target host: failures, server up/down, status events; deep
        ('status', dict(hosts=2, targets=[t2], kinds=['fail', 'status'], modes=['up', 'down'], task_window=2), 9, 4),
        # topology: removal / re-adding of the target while it is up or down
        ('topology', dict(hosts=3, targets=[t3], kinds=['fail', 'topo', 'member', 'refresh'], modes=['up', 'down'],
                          task_window=2), 8, 4),
        # everything on one target, fewer environment events
        ('mixed', dict(hosts=2, targets=[t2], kinds=['fail', 'status', 'topo', 'member'], modes=['up', 'down'],
                       task_window=1), 8, 4),
        # authentication failures stop a reconnection series (documented); what happens around it
        ('auth', dict(hosts=2, targets=[t2], kinds=['fail', 'status'], modes=['up', 'auth'], task_window=1), 8, 4),
        # an ignored host: no pools, no reconnector
        ('ignored', dict(hosts=3, targets=[t3], ignored=[t3], kinds=['status', 'topo', 'member'], modes=[], task_window=1), 7, 4),
        # two targets
        ('two', dict(hosts=3, targets=[t2, t3], kinds=['fail', 'status'], modes=['down'], task_window=1), 7, 3),
    ]
    if ctx.thorough:
        q = [(n, p, d + 2, e + 1) for n, p, d, e in q]
    return q


def run(ctx):
    import os
    only = os.environ.get('C25_ONLY')
    for name, params, depth, dev in configs(ctx):
        if only and name not in only.split(','):
            continue
        explore.bfs(ctx, H, params, max_depth=depth, dev_bound=dev * ENV_COST, label='c25-' + name,
                    max_states=600000 if ctx.thorough else 40000)
    sbound = 2 if ctx.thorough else 1
    for name in sorted(SCENARIOS):
        if only and ('S:' + name) not in only.split(',') and 'S' not in only.split(','):
            continue
        for gone in ((False, True) if 'remove' in name else (False,)):
            sched.explore(ctx, 'c25-S-%s%s' % (name, '-gone' if gone else ''), s_harness,
                          dict(hosts=2, targets=[T], scenario=name, gone=gone, kinds=[], modes=[]), sbound,
                          max_executions=60000 if ctx.thorough else 6000)
    ctx.cov['rule'] = ('state = event history replayed on a fresh real Cluster+Session; invariants judged in every state whose '
                       'executor queue is empty; non-trivial = distinct canonical state at depth >= 3 in which a host went down, '
                       'was removed or was added; outcomes = (idle?, #down hosts with one live reconnector, reconnect ok/failed/'
                       'auth-failed seen, removed, removed while down, added, came up, went down)')
    ctx.assume('handlers are atomic with respect to each other in the history layer (single-threaded histories)')
    ctx.assume('the control-connection host 10.0.0.1 never fails and is never removed')
    ctx.assume('scheduled tasks fire in deadline order (what cluster._Scheduler does); executor tasks may overtake by one position')


def replay(ctx, data):
    if data.get('engine') == 'S':
        part = Part()
        s_harness(data['params'], data['prefix'], part)
        for fp, what, _ in part.violations:
            print(fp, '::', what)
        return bool(part.violations)
    part = explore.replay(H, data['params'], [tuple(e) for e in data['history']])
    for fp, what, _ in part.violations:
        print(fp, '::', what)
    return bool(part.violations)
