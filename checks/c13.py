"""C13 Replacing an overloaded connection never abandons live requests.

Engine E: breadth-first search over histories of {issue a request, answer any outstanding request
(live or already given up), answer a live request with an error that the retry policy retries on the
same host (the retry is an executor task), client timeout of any request whose timer is running --
outstanding, or already answered and waiting for its retry --, run the next executor task with its
connect accepted or refused} on a real Session whose `HostConnection` (protocol v4) has an orphan
threshold of 2 -- from the empty pool and from staged states with 0, 1 and 2 live requests on a
connection that has just reached the threshold, without and with an earlier request whose timer
fires (or has fired) after its response was processed.  Engine S: the replacement task against the
return of the last live request, against a borrow, and against the last live request timing out; a
request's timer thread against the reactor processing the response to that very request, before and
during a replacement; a borrower inside borrow_connection() (preempted at any line, or waiting for a
slot) while the threshold is passed and the replacement runs to completion on other threads.
Fault: the socket of a pool connection is not writable (send_msg refuses the request with ConnectionBusy and
the slot is given back unused), also for a request between whose borrow and send the replacement completes.
"""
from vt import explore, sched
from vt import poollib    # noqa: F401  (imported here so that forked workers inherit the loaded driver)

META = {
    'level': 'model_checking',
    'engine': 'E+S',
    'technique': 'explicit-state BFS over request/response/timeout/replacement-task histories with canonical-state dedup, plus '
                 'preemption-bounded schedule exploration of HostConnection, on the real Session over a virtual server; monitor on close()',
    'text': 'HostConnection (v4; 5 request slots, orphan threshold 2) inside a real Cluster/Session.  Engine E: all histories up to the '
            'depth bound of: new request, answer to any outstanding request (incl. late answers to orphaned streams), answer to a live '
            'request with an error that the retry policy retries on the same host (one per history, in the harnesses fresh-with-retry, '
            'replacement-and-retry-queued-3-live and late-timeout-overloaded-2-live; the retry is an executor task), '
            'client timeout of any request whose timer runs (incl. a request whose response has already been processed and whose retry is '
            'still queued: its stream is no longer on the wire), next executor task (replacement or retry) with its connect accepted or '
            'refused (then retried); in the harnesses *-unwritable-gap (0 and 1 live requests on the connection that has just '
            'reached the threshold; thorough: also replacement queued with 2 live) additionally the environment answer "the socket of '
            'pool connection #n is not writable" (once per history, any open connection; it may become writable again: '
            'Connection.send_msg refuses a request with ConnectionBusy while it lasts and the slot is given back with nothing on the '
            'wire) and, once per history, a request between whose borrow and send the next executor task (the replacement, possibly '
            'queued by that very borrow) runs to completion; started from the fresh pool and from states where the connection has just reached the threshold with '
            '0, 1 or 2 live requests on it; also from the state with the replacement queued, three live requests and an answered request '
            'whose retry is queued and whose timer is still running, and from the 2-live state reached after such a timer fired.  A hook '
            'on close() '
            'judges, at the moment the pool closes a connection, that no request the client still waits for is outstanding on it (what is '
            'outstanding is taken from what the server received and answered, what was given up from the explorer\'s own timeout '
            'events).  In every state: a connection that was replaced and carries only orphaned streams is closed; once the threshold was '
            'reached, a later request was issued and no task is queued, the pool no longer uses that connection; a request issued after '
            'the replacement completed is not sent on the old connection; borrow_connection() never returns a stream of a connection '
            'that was replaced and has been closed (judged at its return); a request is not refused (NoHostAvailable) while every '
            'replaced connection is closed and the fresh one is open with free slots.  Engine S: 2-3 virtual threads (executor worker running _replace, '
            'reactor answering / timing out, client borrowing, a timer thread firing the client timeout of the request the reactor is '
            'answering -- followed single-threaded by two more requests being given up, a new request, the replacement and the answers to '
            'the three live requests one by one; and the same race while the replacement task runs; a borrower preempted anywhere inside '
            'borrow_connection() -- or waiting there for a slot on a full connection -- while on other threads, as whole handlers in a '
            'fixed order, the connection it has read goes over the threshold, a further request queues the replacement, the replacement '
            'runs and the last live request on the old connection is answered or given up, before or after the replacement; '
            'a client whose send is refused because the overloaded connection\'s socket is not writable, against the replacement task '
            'its borrow queued -- thorough: with a live request answered by the reactor meanwhile) '
            'with a scheduling point at every line '
            'of every HostConnection method and at every lock/condition; all schedules within the preemption bound; close() hook '
            'throughout, the state clauses at the end after everything outstanding was answered; deadlock and livelock detection.',
    'note': 'Virtual server, clock, executor and connections as in DESIGN.md section 2.  Client timeouts may expire in any order, and a '
            'timer may run on another thread than the one that processes responses (engine S).  A stream id being handed out again while '
            'the retry of its previous user is queued needs more requests than the bounds allow (ids are recycled first-in first-out).  '
            'Connection failures and shutdown are left to C12 (same world).  Engine S: time passes only when every thread waits; a timed '
            'wait of zero length lets 10 microseconds pass (the polling loop of a borrower whose timeout has expired ends as on a real clock).',
    'design_ref': 'C13',
}

CLAUSES = ['closed-with-live-requests', 'new-request-on-replaced-connection', 'old-connection-not-closed', 'not-replaced', 'deadlock',
           'request-refused-beside-fresh-connection']
BASE = dict(prop='C13', clauses=CLAUSES, proto=4, max_in_flight=6, orphaned_threshold=2, n_req=5, max_fail=1)
R = ('req',)
TO01 = [('timeout', 0), ('timeout', 1)]
TO12 = [('timeout', 1), ('timeout', 2)]
RETRY0 = ('resp-retry', 0)      # q0 answered with an error that the retry policy retries: the retry is an executor task
T = ('task', 0, 'ok')
UNW = ('unwritable', 1)         # the socket of the pool's first connection (#1; #0 is the control connection) stops being writable


def e_configs(ctx):
    q = [
        ('fresh', dict(BASE), 8),
        ('overloaded-0-live', dict(BASE, prefix=[R, R] + TO01, n_req=5), 7),
        ('overloaded-1-live', dict(BASE, prefix=[R, R, R] + TO01, n_req=5), 6),
        ('overloaded-2-live', dict(BASE, prefix=[R, R, R, R] + TO01, n_req=6), 5),
        ('replacement-queued-2-live', dict(BASE, prefix=[R, R, R] + TO01 + [R], n_req=5), 5),
        # one answer may be an error that is retried (the retry waits on the executor; the client timer keeps running)
        ('fresh-with-retry', dict(BASE, max_retry=1, n_req=3), 7),
        # q1 and q2 were given up (threshold reached), q5 has queued the replacement, then q0's response was processed:
        # its retry is queued behind the replacement and its timer is still running; q3, q4 and q5 are live
        ('replacement-and-retry-queued-3-live', dict(BASE, prefix=[R, R, R, R, R] + TO12 + [R, RETRY0], max_retry=1, n_req=6), 5),
        # the same after q0's timer fired late (q0 is no longer on the wire) and the retry task found nothing to do
        ('late-timeout-overloaded-2-live', dict(BASE, prefix=[R, RETRY0, ('timeout', 0), T, R, R, R, R] + TO12, max_retry=1,
                                                n_req=7), 5),
        # Environment answer at a send: the socket of a pool connection is not writable (once per history, any open connection,
        # at any point; it may become writable again) and Connection.send_msg refuses the request with ConnectionBusy -- the
        # slot is given back without anything having been on the wire; and one request per history between whose borrow and
        # send the next executor task (the replacement, possibly queued by that very borrow) runs to completion.
        ('overloaded-0-live-unwritable-gap', dict(BASE, prefix=[R, R] + TO01, n_req=4, gap=True, max_unwritable=1), 4),
        ('overloaded-1-live-unwritable-gap', dict(BASE, prefix=[R, R, R] + TO01, n_req=5, gap=True, max_unwritable=1), 4),
    ]
    if ctx.thorough:
        q.append(('replacement-queued-2-live-unwritable-gap',
                  dict(BASE, prefix=[R, R, R] + TO01 + [R], n_req=5, gap=True, max_unwritable=1), 4))
        q = [(n, dict(p, task_window=2, max_fail=2), d + (1 if 'unwritable' in n else 3 if '2-live' in n else 2))
             for n, p, d in q]
    return q


def s_configs(ctx):
    hc = dict(prop='C13', clauses=CLAUSES, proto=4, max_in_flight=6, orphaned_threshold=2)
    b = 2 if ctx.thorough else 1
    more = [
        ('send-refused-vs-replace-vs-return', dict(hc, stage=[R, R, R] + TO01 + [UNW], threads=['client', 'worker', 'reactor']), b),
    ] if ctx.thorough else []
    return more + [
        # replacement queued, q2 and q3 live on the old connection: _replace against their returns
        ('replace-vs-return', dict(hc, stage=[R, R, R] + TO01 + [R], threads=['worker', 'reactor']), b),
        # the borrow that notices the threshold, the replacement it queues and the answers overlap
        ('replace-vs-borrow', dict(hc, stage=[R, R, R] + TO01, threads=['client', 'worker', 'reactor']), b),
        # the last live request is given up by the client while the replacement runs
        ('replace-vs-orphan', dict(hc, stage=[R, R, R] + TO01 + [R], orphan_tags=[2], threads=['worker', 'reactor']), b),
        # the replacement is refused once and retried
        ('replace-refused-once', dict(hc, stage=[R, R, R] + TO01 + [R], max_fail=1, threads=['worker', 'reactor']), b),
        # q0's client-side timer fires on its own thread while the reactor processes the response to q0; afterwards
        # (single-threaded) q1 and q2 are given up, q5 is issued, the replacement runs, and q3, q4, q5 are answered one by one
        ('timer-vs-response', dict(hc, stage=[R, R, R, R, R], threads=['reactor', 'timer'], answer_tags=[0], timer_tags=[0],
                                   epilogue=TO12 + [R, T]), b),
        # the same race for q2 on a connection that is being replaced (q0, q1 given up; q3, q4, q5 live)
        ('timer-vs-response-vs-replace', dict(hc, stage=[R, R, R, R, R] + TO01 + [R], threads=['worker', 'reactor', 'timer'],
                                              answer_tags=[2], timer_tags=[2]), b),
        # A borrower inside borrow_connection() while, on another thread, the connection it has read goes over the threshold (q0
        # was given up before, now q1 is), a further request queues the replacement and goes to the old connection, and the
        # replacement completes: the old connection is set aside and closed when that request is answered ...
        ('borrow-vs-threshold-replace-return', dict(hc, stage=[R, R, ('timeout', 0)], threads=['client', 'script'],
                                                    script=[('timeout', 1), R, T, ('resp-mine', 0)]), b),
        # ... or that request is answered / given up first, and the replacement closes the old connection at once
        ('borrow-vs-threshold-return-replace', dict(hc, stage=[R, R, ('timeout', 0)], threads=['client', 'script'],
                                                    script=[('timeout', 1), R, ('resp-mine', 0), T]), b),
        ('borrow-vs-threshold-orphan-replace', dict(hc, stage=[R, R, ('timeout', 0)], threads=['client', 'script'],
                                                    script=[('timeout', 1), R, ('timeout-mine', 0), T]), b),
        # the same with the host not convicted when a request fails on a closed connection
        ('borrow-vs-threshold-replace-return-no-conviction', dict(hc, convict=False, stage=[R, R, ('timeout', 0)],
                                                                  threads=['client', 'script'],
                                                                  script=[('timeout', 1), R, T, ('resp-mine', 0)]), b),
        # The overloaded connection's socket is not writable: a client between its borrow (which queues the replacement) and its
        # send -- refused with ConnectionBusy, the slot given back -- against the replacement task, with no live request on the
        # old connection (thorough tier: also with one, answered by the reactor meanwhile)
        ('send-refused-vs-replace', dict(hc, stage=[R, R] + TO01 + [UNW], threads=['client', 'worker']), b),
        # A borrower waiting for a slot on a full connection (3 slots) that was below the threshold when it arrived: all three
        # requests are given up, a further request queues the replacement and waits as well, the replacement closes the old
        # connection (three threads that block and wake each other: preemption bound 1 in both tiers)
        ('waiter-vs-threshold-replace', dict(hc, max_in_flight=4, stage=[R, R, R], threads=['client', 'script', 'worker'],
                                             script=[('timeout', 0), ('timeout', 1), ('timeout', 2), R]), 1),
        # ... two are given up; a third thread runs the replacement (the old connection is set aside) and then answers the third
        ('waiter-vs-threshold-replace-return', dict(hc, max_in_flight=4, stage=[R, R, R], threads=['client', 'script', 'script'],
                                                    script=[('timeout', 0), ('timeout', 1), R],
                                                    script2=[('wait-task',), T, ('resp-tag', 2)]), 1),
    ]


@sched.gc_quiet
def s_harness(params, prefix, part):
    return poollib.sched_run(params, prefix, part)


def run(ctx):
    from vt.connlib import before_fork
    before_fork()
    poollib.run_e(ctx, ctx.rotate(e_configs(ctx)), 'c13-E-', max_states=300000 if ctx.thorough else 40000)
    explore.close_pool()
    e_states, e_trans = ctx.counters.get('states', 0), ctx.counters.get('executions', 0)
    poollib.run_s(ctx, __name__, ctx.rotate(s_configs(ctx)), 'c13-S-', max_executions=400000 if ctx.thorough else 20000)
    s_execs = ctx.counters.get('executions', 0) - e_trans
    ctx.count('states', s_execs)          # engine S is stateless: one execution = one explored path
    ctx.cov['engine_E'] = {'states': e_states, 'transitions': e_trans}
    ctx.cov['engine_S'] = {'executions': s_execs}
    ctx.cov['rule'] = ('engine E: state = event history replayed on a fresh real Session; non-trivial = distinct canonical state in '
                       'which a connection was closed or refused, or a request orphaned / answered late / answered with a retried error.  '
                       'engine S: execution = one '
                       'schedule within the preemption bound; non-trivial = schedule with a non-default choice.  outcomes = (pool '
                       'open/shut down, connections opened, closed, trashed, who closed them, orphaned streams)')
    ctx.assume('engine E: handlers are atomic with respect to each other; the races are the business of the engine S harnesses')
    ctx.assume('client timeouts may expire in any order (per-request timeouts are chosen by the application)')
    ctx.assume('a reactor delivers bytes from one thread; timers fire on that thread (engine E, true of every shipped reactor) or, in '
               'the timer-vs-response harnesses of engine S, on a thread of their own')
    ctx.assume('the retried error is OVERLOADED with the retry policy answering RETRY (same host); other retryable errors take the same path')
    ctx.assume('a borrower that is still waiting for a slot on a replaced connection that is not closed yet (a live request is '
               'outstanding on it) may be refused when its borrow timeout expires: whether it should have moved is not judged')
    ctx.assume('a request refused because the socket was not writable (ConnectionBusy, the only host) fails with NoHostAvailable: the '
               'clause request-refused-beside-fresh-connection does not judge it (the refusal is the environment\'s, not the pool\'s)')
    ctx.assume('engine S, script threads: the handlers of several driver threads (timer, client, executor, reactor) run one after the '
               'other in one fixed order on one virtual thread; the borrower is preempted at most `bound` times')
    ctx.assume('engine S preempts between source lines, not inside one (CPython hands the GIL over between bytecodes; see DESIGN 3.1)')


def replay(ctx, data):
    if 'history' in data:
        return poollib.replay_history(data['params'], data['history'])
    from vt.core import Part
    part = Part()
    s_harness(data['params'], data['prefix'], part)
    for fp, what, _ in part.violations:
        print(fp, '::', what)
    return bool(part.violations)
