"""C12 Connection pools keep exact accounting and close what they open.

Engine E: breadth-first search over histories of {issue a request (borrow through the real
Session), answer a pending request (also one the client already gave up: late response), client
timeout (orphan), break a connection, run the next executor task (the connection it opens is
accepted or refused), shut the pool down} on a real Session whose pool for the host under test is a
`HostConnection` (protocol v4) or a `HostConnectionPool` (protocol v2, core 1 / max 2).
Engine S: the races the histories cannot contain (a handler is atomic there): replacement / pool
growth against shutdown, borrow against return against shutdown, two borrows against each other at
the capacity boundary, a borrow against a (refused, retried) replacement, the v2 pool's return that
sets a connection aside against shutdown / a borrow / another return, with a scheduling point at
every source line of the pool class.
"""
from vt import explore, sched
from vt import poollib    # noqa: F401  (imported here so that forked workers inherit the loaded driver)

META = {
    'level': 'model_checking',
    'engine': 'E+S',
    'technique': 'explicit-state BFS over request/response/timeout/fault/task/shutdown histories with canonical-state dedup, plus '
                 'preemption-bounded schedule exploration of the pool methods, on the real Session + pools over a virtual server',
    'text': 'HostConnection (v4; 2-4 request slots, orphan threshold 2) and HostConnectionPool (v2; core 1, max 2, growth at 1 request, '
            'trashing at 0) inside a real Cluster/Session.  Engine E: all histories up to the depth bound of: new request, answer to any '
            'outstanding request (incl. late answers to given-up ones), client timeout of any request, connection reset, next executor '
            'task with its connect accepted or refused, pool shutdown; host convicted on failure or not; started from the fresh pool, from a '
            'connection that has just reached the orphan threshold, and from there with the replacement refused once and queued for its '
            'retry (it may be refused again; requests, timeouts, answers and shutdown fall into the retry window).  In every state: 0 <= '
            'in_flight <= request capacity on every connection the pool opened, where the capacity is what the application configured '
            '(Connection.max_in_flight, at most the number of stream ids of the protocol version), not the driver\'s own max_request_id; '
            'the server never has more requests outstanding on a connection than that capacity, never sees a stream id reused while '
            'outstanding nor more outstanding requests than ids; a request issued / a borrow made after shutdown gets no connection; for '
            'every state after shutdown the history is replayed into a second world where everything pending finishes (tasks, answers, '
            'timeouts): then every connection the pool ever opened (current, trashed, opened by a late or repeated task) is closed and no '
            'task remains.  Engine S: 2-3 virtual threads (client(s), reactor, executor worker, pool.shutdown()) with a scheduling point '
            'at every line of every method of the pool class and at every lock/condition/event; all schedules within the preemption '
            'bound; includes, for both pool classes, two clients borrowing at once when one slot is left / when the connection is full '
            'and the reactor frees a slot, and a client borrowing while the replacement task runs, is refused and retried; for both '
            'pool classes a client that WAITS for a slot on a full connection while the pool is shut down -- by shutdown() on another '
            'thread (the closed connection fails its pending requests back into the pool: slots are free again), or by the connection '
            'breaking and the host being convicted (the returns of the failed requests come first, one of them shuts the pool down); '
            'v2, thorough tier, also two waiters, shutdown() and a reactor answering at once -- judged at the moment a stream id is handed out: not to '
            'a thread that was suspended in a wait on a condition when the pool\'s shutdown() returned (whatever it decides after '
            'waking up it decides on a pool that is already shut down: its borrow has to fail); for the v2 pool '
            '(thresholds 1/2, two connections) the return that sets a connection aside while another request is pending on it, against '
            'shutdown(), against a borrow and against that other request being given up on a timer thread, with what is left outstanding '
            'ending by client timeout (late answers afterwards) or by its answer; a pool that no '
            'thread shut down is shut down after the threads ended; same oracle at every point / at the end (every connection the pool '
            'ever held -- current, set aside, or on its way from the one set to the other -- is closed once its requests have ended), plus '
            'deadlock and livelock detection.',
    'note': 'Virtual server, clock, executor and connections as in DESIGN.md section 2 (VConnection implements push/close/create_timer '
            'only).  Client timeouts may expire in any order.  A polling loop that only real time would end is ended by a clock that '
            'advances after 3000 readings in one event; under engine S a timed wait of zero length lets 10 microseconds pass.  '
            '_MIN_TRASH_INTERVAL is set to 0 for the v2 pool.',
    'design_ref': 'C12',
}

CLAUSES = ['capacity', 'in-flight-negative', 'in-flight-above-capacity', 'borrow-after-shutdown', 'leak-after-shutdown',
           'never-quiescent-after-shutdown', 'deadlock']

HC = dict(prop='C12', clauses=CLAUSES, proto=4, max_in_flight=4, orphaned_threshold=2, n_req=4, max_defunct=1, max_fail=1,
          shutdown=True, convict=True)
LEG = dict(prop='C12', clauses=CLAUSES, proto=2, max_in_flight=2, trash_interval=0, core=1, max_conns=2, min_reqs=0, max_reqs=1,
           n_req=3, max_defunct=1, max_fail=1, shutdown=True, convict=False)
OVERLOADED = [('req',), ('req',), ('timeout', 0), ('timeout', 1)]


def e_configs(ctx):
    # name, parameters, depth bound (quick, thorough)
    q = [
        ('hc-convict', dict(HC), 8, 10),
        ('hc-replace-on-failure', dict(HC, convict=False), 7, 10),
        # the connection has reached the orphan threshold; deep enough for: request (replacement queued), refused connect,
        # request in the retry window, two tasks, shutdown
        ('hc-overloaded', dict(HC, prefix=OVERLOADED, n_req=5, max_in_flight=5, convict=False), 6, 8),
        # the replacement of the overloaded connection was refused once and waits in the queue to be retried (it may be refused again)
        ('hc-replace-refused', dict(HC, prefix=OVERLOADED + [('req',), ('task', 0, 'fail')], n_req=5, max_in_flight=5, max_fail=2,
                                    max_defunct=0, convict=False), 6, 8),
        ('hc-tight', dict(HC, max_in_flight=3, n_req=4, max_defunct=0, max_fail=0), 8, 10),
        ('v2-pool', dict(LEG), 6, 9),
        ('v2-pool-convict', dict(LEG, convict=True, max_defunct=1), 6, 8),
        # thresholds 1/2: a connection with a request in flight is set aside (trashed) when the load drops
        ('v2-trash', dict(LEG, min_reqs=1, max_reqs=2, max_in_flight=3, n_req=3, max_defunct=0, max_fail=0), 8, 10),
    ]
    if ctx.thorough:
        return [(n, dict(p, drain_orders=('resp', 'timeout'), task_window=2), dt) for n, p, dq, dt in q]
    return [(n, p, dq) for n, p, dq, dt in q]


def s_configs(ctx):
    hc = dict(prop='C12', clauses=CLAUSES, proto=4, max_in_flight=4, orphaned_threshold=2)
    leg = dict(prop='C12', clauses=CLAUSES, proto=2, max_in_flight=2, trash_interval=0, convict=False)
    leg2 = dict(leg, min_reqs=1, max_reqs=2, max_in_flight=3)
    TWO_CONNS = [('req',), ('req',), ('task', 0, 'ok'), ('req',)]
    b = 2 if ctx.thorough else 1
    more = [
        # v2: two waiters, shutdown() and the reactor answering a pending request, all at once (four threads: thorough tier only)
        ('v2-two-waiters-vs-shutdown-vs-return', dict(leg, max_conns=1, stage=[('req',), ('req',)],
                                                      threads=['client', 'client', 'shutdown', 'reactor']), 1),
    ] if ctx.thorough else []
    return more + [
        # a replacement task is queued, one live request is on the overloaded connection
        ('hc-replace-vs-shutdown', dict(hc, stage=OVERLOADED + [('req',)], threads=['worker', 'shutdown', 'reactor']), b),
        # a borrow, the return of an answered request and the shutdown overlap
        ('hc-borrow-return-shutdown', dict(hc, stage=[('req',)], threads=['client', 'reactor', 'shutdown']), b),
        # one slot is left and two clients borrow at once (who loses waits until the reactor frees one)
        ('hc-one-slot', dict(hc, max_in_flight=3, stage=[('req',)], shutdown_at_end=True, threads=['client', 'client', 'reactor']), b),
        # the connection is full: two clients wait for the slot the reactor frees
        ('hc-last-slot', dict(hc, max_in_flight=3, stage=[('req',), ('req',)], shutdown_at_end=True,
                              threads=['client', 'client', 'reactor']), b),
        # the replacement was queued; its connect may be refused (then it is retried) while a client borrows
        ('hc-replace-refused-vs-borrow', dict(hc, max_in_flight=6, stage=OVERLOADED + [('req',)], max_fail=1, shutdown_at_end=True,
                                              threads=['worker', 'client', 'reactor']), b),
        # v2: the only connection is one request short of full and two clients borrow at once (who loses waits for a slot)
        ('v2-last-slot', dict(leg, stage=[('req',)], shutdown_at_end=True, threads=['client', 'client', 'reactor']), b),
        # v2: the only connection is full, two clients wait for the slot the reactor frees
        ('v2-full-two-waiters', dict(leg, max_conns=1, stage=[('req',), ('req',)], shutdown_at_end=True,
                                     threads=['client', 'client', 'reactor']), b),
        # the connection is full and a client waits inside borrow_connection() while the pool is shut down (see the v2 twins below)
        ('hc-waiter-vs-shutdown', dict(hc, max_in_flight=3, stage=[('req',), ('req',)], threads=['client', 'shutdown']), b),
        ('hc-waiter-vs-host-down', dict(hc, max_in_flight=3, convict=True, stage=[('req',), ('req',)], threads=['client', 'script'],
                                        script=[('defunct', 1)]), b),
        # v2: the only connection is full (2 slots) and a client waits in _wait_for_conn() while the pool is shut down -- by
        # shutdown() (the connection is closed, its pending requests fail back into the pool: slots are free again), or because
        # the connection breaks and the host is convicted (the returns of the failed requests come first, one of them shuts the
        # pool down); the woken waiter must fail, not take a slot
        ('v2-waiter-vs-shutdown', dict(leg, max_conns=1, stage=[('req',), ('req',)], threads=['client', 'shutdown']), b),
        ('v2-waiter-vs-host-down', dict(leg, max_conns=1, convict=True, stage=[('req',), ('req',)], threads=['client', 'script'],
                                        script=[('defunct', 1)]), b),
        # v2: the growth task is queued (one request in flight >= max_requests)
        ('v2-grow-vs-shutdown', dict(leg, stage=[('req',)], threads=['worker', 'shutdown', 'reactor']), b),
        # v2: two connections, a borrow overlaps the return that trashes one of them and the shutdown
        ('v2-borrow-trash-shutdown', dict(leg, stage=[('req',), ('task', 0, 'ok'), ('req',)], threads=['client', 'reactor', 'shutdown']), b),
        # v2 (thresholds 1/2): a set-aside connection's last request is answered while shutdown() walks over the trash
        ('v2-trash-return-vs-shutdown', dict(leg, min_reqs=1, max_reqs=2, max_in_flight=3,
                                             stage=[('req',), ('req',), ('task', 0, 'ok'), ('req',), ('resp', 0)],
                                             threads=['reactor', 'shutdown']), b + 1 if ctx.thorough else b),
        # v2 (thresholds 1/2; connection #1 carries q0 and q1, connection #2 carries q2): the answer to q0 makes the pool set
        # connection #1 aside while q1 is still pending on it -- against shutdown(), against a borrow, against q1 being given up
        # on a timer thread; what is still outstanding afterwards ends by client timeout (late answers last) or by its answer
        ('v2-trashing-return-vs-shutdown', dict(leg2, stage=TWO_CONNS, threads=['reactor', 'shutdown'], answer_tags=[0],
                                                drain='timeout'), b),
        ('v2-trashing-return-vs-shutdown-answers', dict(leg2, stage=TWO_CONNS, threads=['reactor', 'shutdown'], answer_tags=[0]), b),
        ('v2-trashing-return-vs-borrow', dict(leg2, stage=TWO_CONNS, threads=['reactor', 'client'], answer_tags=[0],
                                              shutdown_at_end=True, drain='timeout'), b),
        ('v2-trashing-return-vs-timeout', dict(leg2, stage=TWO_CONNS, threads=['reactor', 'timer'], answer_tags=[0], timer_tags=[1],
                                               shutdown_at_end=True, drain='timeout'), b),
    ]


@sched.gc_quiet
def s_harness(params, prefix, part):
    return poollib.sched_run(params, prefix, part)


def run(ctx):
    from vt.connlib import before_fork
    before_fork()          # freeze the imported driver out of the collector's reach: per-execution gc.collect stays cheap
    poollib.run_e(ctx, ctx.rotate(e_configs(ctx)), 'c12-E-', max_states=300000 if ctx.thorough else 40000)
    explore.close_pool()
    e_states, e_trans = ctx.counters.get('states', 0), ctx.counters.get('executions', 0)
    poollib.run_s(ctx, __name__, ctx.rotate(s_configs(ctx)), 'c12-S-', max_executions=400000 if ctx.thorough else 20000)
    s_execs = ctx.counters.get('executions', 0) - e_trans
    ctx.count('states', s_execs)          # engine S is stateless: one execution = one explored path
    ctx.cov['engine_E'] = {'states': e_states, 'transitions': e_trans}
    ctx.cov['engine_S'] = {'executions': s_execs}
    ctx.cov['rule'] = ('engine E: state = event history replayed on a fresh real Session; non-trivial = distinct canonical state in '
                       'which a connection was closed, broken, refused, or a request orphaned / answered late.  engine S: execution = one '
                       'schedule within the preemption bound; non-trivial = schedule with a non-default choice.  outcomes = (pool '
                       'open/shut down, connections opened, closed, trashed, who closed them, orphaned streams)')
    ctx.assume('engine E: handlers are atomic with respect to each other; the races are the business of the engine S harnesses')
    ctx.assume('client timeouts may expire in any order (per-request timeouts are chosen by the application)')
    ctx.assume('a reactor delivers bytes and fires timers from one thread (true of every shipped reactor)')
    ctx.assume('a borrow that passed its shutdown test before shutdown() began and takes its slot afterwards without ever waiting is '
               'concurrent with the shutdown and not judged; a borrower that was suspended in the wait when shutdown() returned is')
    ctx.assume('engine S preempts between source lines, not inside one (CPython hands the GIL over between bytecodes; see DESIGN 3.1)')


def replay(ctx, data):
    if 'history' in data:
        return poollib.replay_history(data['params'], data['history'])
    from vt.core import Part
    part = Part()
    s_harness(data['params'], data['prefix'], part)
    for fp, what, _ in part.violations:
        print(fp, '::', what)
    return bool(part.violations)
