"""C05 Incoming frames are reassembled exactly under any TCP chunking.

Byte streams of 1-3 response / EVENT frames (v1/v2 8-byte and v3/v4 9-byte headers) are fed to a
handshaken VConnection in every composition of the stream into reads (all 2^(L-1) for short
streams, all <=3-cut splittings plus the byte-at-a-time split for longer ones).  Requests are
really sent (and held by the virtual server) so the handlers are registered by send_msg itself;
event watchers by register_watchers.  After every read the deliveries must be exactly the frames
completed so far.
"""
import functools
import itertools

from vt.core import Part, HarnessError
from vt import connlib

META = {
    'level': 'exploration',
    'engine': 'E',
    'technique': 'exhaustive enumeration of read compositions of small multi-frame byte streams on the real Connection',
    'text': 'For protocol v1-v4 and every stream of 1-2 (thorough: 1-3) frames drawn from {response with 0/1/7-byte body '
            '(per-request recording decoder), RESULT void (driver decoder), EVENT STATUS_CHANGE (stream -1)}, in both '
            'stream-id orders, the byte stream is fed to a handshaken connection through feed() = _iobuf.write + '
            'process_io_buffer under every composition into reads for short streams (quick: <= 17 bytes with 8-byte headers, the '
            '18-byte two-empty-frames stream with 9-byte headers, one version per header size; thorough: every stream <= 19 '
            'bytes) and, for the others, every splitting with <= 2 (thorough 3; 2 for three frames) cuts anywhere, every splitting '
            'with <= 3 (thorough 4; 3 for three frames) cuts each within 2 bytes of a header start / header end / frame end, and '
            'one byte per read.  After each read the deliveries to the handlers registered by send_msg / register_watchers must '
            'equal, in order and with exact (stream, opcode, flags, body), the frames whose last byte has arrived: nothing early, '
            'nothing missing, nothing twice, connection not defunct.',
    'note': 'VConnection.feed models what every shipped reactor does with received bytes.  Header fields other than '
            'length/stream/opcode/flags are not varied; bodies of responses are opaque (recording decoder) except RESULT void '
            'and EVENT which go through the driver decoder.',
    'design_ref': 'C05',
}

FRAME_KINDS = ('r0', 'r1', 'r7', 'void', 'event')
EVENT_ARGS = ('UP', '10.0.0.9', 9042)


def frame_seqs(maxlen):
    out = []
    for n in range(1, maxlen + 1):
        for t in itertools.product(FRAME_KINDS, repeat=n):
            out.append(t)
    return out


def build(version, kinds, rev):
    """-> world, conn, log, stream bytes, expected deliveries, frame end offsets"""
    from vt.world.vworld import World, VServer
    from vt.world import wire
    from cassandra.protocol import OptionsMessage, ResultMessage
    srv = VServer()
    w = World(srv)
    w.__enter__()
    try:
        try:
            conn = connlib.bare_connection(w, version)
        except HarnessError as e:
            # the setup handshake is itself a frame stream (SUPPORTED, READY) delivered one whole frame per read
            raise SetupFailed(str(e))
        log = []
        if 'event' in kinds:
            conn.register_watchers({'STATUS_CHANGE': lambda args: log.append(('event', args.get('change_type'),
                                                                               tuple(args.get('address') or ())))})
        srv.hold = lambda c, r: True
        nresp = sum(1 for k in kinds if k != 'event')
        streams = []
        for i in range(nresp):
            with conn.lock:          # "This must be called while self.lock is held"
                streams.append(conn.get_request_id())
        # which request gets the driver decoder is decided by the frame kind answering it
        order = list(reversed(streams)) if rev else list(streams)
        data = b''
        expect = []
        ends = []
        it = iter(order)
        cbs = {}
        for idx, k in enumerate(kinds):
            if k == 'event':
                data += wire.frame(version, -1, wire.OP_EVENT, wire.event_status(EVENT_ARGS[0], EVENT_ARGS[1], EVENT_ARGS[2]))
                expect.append(('event', EVENT_ARGS[0], (EVENT_ARGS[1], EVENT_ARGS[2])))
            elif k == 'void':
                s = next(it)
                cbs[s] = 'void'
                data += wire.frame(version, s, wire.OP_RESULT, wire.result_void())
                expect.append(('void', s, s, 1))
            else:
                s = next(it)
                cbs[s] = 'raw'
                n = int(k[1:])
                body = bytes((0x30 + 0x10 * idx + j) & 0xff for j in range(n))
                flags = 0x02 if n == 7 else 0     # an arbitrary header flag must come through unchanged
                data += wire.frame(version, s, wire.OP_RESULT, body, flags=flags)
                expect.append(('resp', s, version, s, flags, wire.OP_RESULT, body))
            ends.append(len(data))
        # now really send the requests (handlers registered by send_msg)
        for rid in streams:
            def cb(resp, rid=rid):
                if isinstance(resp, connlib.RawResponse):
                    log.append(('resp', rid) + resp.key())
                elif isinstance(resp, ResultMessage):
                    log.append(('void', rid, resp.stream_id, resp.kind))
                else:
                    log.append(('other', rid, repr(resp)))
            if cbs[rid] == 'raw':
                conn.send_msg(OptionsMessage(), rid, cb, decoder=connlib.raw_decoder)
            else:
                conn.send_msg(OptionsMessage(), rid, cb)
        if len(srv.pending) != nresp or sorted(conn._requests) != sorted(streams):
            raise HarnessError('setup: requests not held/registered: %r %r' % (srv.pending, conn._requests))
        return w, conn, log, data, expect, ends
    except BaseException:
        w.__exit__()
        raise


class SetupFailed(Exception):
    pass


def judge(version, kinds, rev, cuts, part):
    hs = 8 if version < 3 else 9
    case = {'version': version, 'kinds': list(kinds), 'rev': rev, 'cuts': list(cuts)}
    try:
        w, conn, log, data, expect, ends = build(version, kinds, rev)
    except SetupFailed as e:
        part.count('evaluations')
        part.violation('C05/handshake-frames/h%d' % hs, 'SUPPORTED/READY delivered one whole frame per read did not '
                       'complete the handshake: %s' % e, case)
        return ('handshake', str(e))
    try:
        fed = 0
        bad = None
        for ch in connlib.chunks(data, cuts):
            try:
                connlib.guarded_feed(conn, ch)
            except connlib.Livelock as e:
                bad = ('livelock', 'after %d bytes had been handed over, the next read of %d bytes never returned: %s' % (fed, len(ch), e))
                break
            fed += len(ch)
            done = sum(1 for e in ends if e <= fed)
            if conn.is_defunct or conn.is_closed:
                bad = ('defunct', 'connection failed after %d bytes: %r' % (fed, conn.last_error))
                break
            if len(log) > done:
                bad = ('partial', 'after %d bytes %d deliveries but only %d frames complete: %r' % (fed, len(log), done, log))
                break
            if log != expect[:len(log)]:
                i = next(j for j in range(len(log)) if log[j] != expect[j])
                got, want = log[i], expect[i]
                clause = 'event' if want[0] == 'event' or got[0] == 'event' else \
                    ('order' if got in expect else ('stream' if got[1] != want[1] else 'body'))
                bad = (clause, 'delivery %d is %r, expected %r' % (i, got, want))
                break
            if len(log) < done:
                bad = ('missing', 'after %d bytes (frames complete: %d) only %d delivered' % (fed, done, len(log)))
                break
        if bad is None and conn._requests:
            bad = ('missing', 'handlers left registered at the end: %r' % sorted(conn._requests))
        if bad:
            part.violation('C05/%s/h%d' % (bad[0], hs), '%s; case %r' % (bad[1], case), case)
        part.count('evaluations')
        part.count('executions')
        part.count('reads', len(cuts) + 1)
        part.outcome((len(kinds), len(log), bool(conn.is_defunct)))
        return bad
    finally:
        w.__exit__()


BODY = {'r0': 0, 'r1': 1, 'r7': 7, 'void': 4, 'event': 28}


def stream_len(version, kinds):
    hs = 8 if version < 3 else 9
    return sum(hs + BODY[k] for k in kinds)


def inside_frame(version, kinds, cuts):
    hs = 8 if version < 3 else 9
    ends, n = set(), 0
    for k in kinds:
        n += hs + BODY[k]
        ends.add(n)
    return any(c not in ends for c in cuts)


def boundaries(version, kinds):
    """offsets of header starts, header ends and frame ends"""
    hs = 8 if version < 3 else 9
    out, n = [], 0
    for k in kinds:
        out += [n, n + hs]
        n += hs + BODY[k]
        out.append(n)
    return out


def splittings(version, kinds, mode, anywhere, nearb):
    """deterministic list of cut tuples for one stream.
    mode 'full': every composition.  mode 'cuts': every splitting with <= `anywhere` cuts at arbitrary
    positions, every splitting with <= `nearb` cuts all within +-2 bytes of a header/frame boundary,
    and the one-byte-at-a-time split."""
    L = stream_len(version, kinds)
    if mode == 'full':
        return None, 1 << (L - 1)
    return _cut_splittings(L, tuple(boundaries(version, kinds)), anywhere, nearb)


@functools.lru_cache(maxsize=None)
def _cut_splittings(L, bounds, anywhere, nearb):
    seen = set(connlib.k_cut_splits(L, anywhere))
    seen.update(connlib.k_cut_splits(L, nearb, connlib.near(bounds, 2, L)))
    seen.add(connlib.all_ones(L))
    return sorted(seen, key=lambda c: (len(c), c)), len(seen)


def run_item(item):
    connlib.quiet_driver_logs()
    version, kinds, rev, mode, anywhere, nearb, k, n = item
    part = Part()
    L = stream_len(version, kinds)
    if mode == 'full':
        gen = (connlib.cuts_of_mask(m, L) for m in range(k, 1 << (L - 1), n))
    else:
        gen = splittings(version, kinds, mode, anywhere, nearb)[0][k::n]
    nt = 0
    for cuts in gen:
        if connlib.too_many_livelocks():
            part.cap('stopped early: several reads never returned in this worker (reported as C05/livelock)')
            break
        judge(version, kinds, rev, cuts, part)
        if inside_frame(version, kinds, cuts):
            nt += 1
    part.count('distinct_nontrivial', nt)
    if k == 0:
        part.sample({'version': version, 'kinds': list(kinds), 'rev': rev, 'mode': mode, 'stream_bytes': L}, limit=1)
    return part


PER_ITEM = 6000


def run(ctx):
    connlib.quiet_driver_logs()
    selfcheck()
    maxframes = 2 if ctx.quick else 3
    full_upto = 18 if ctx.quick else 19
    items = []
    nfull = ncut = 0
    for version in (1, 2, 3, 4):
        for kinds in frame_seqs(maxframes):
            nresp = sum(1 for k in kinds if k != 'event')
            L = stream_len(version, kinds)
            for rev in ((False, True) if nresp >= 2 else (False,)):
                # quick: complete compositions for one version per header size, natural order, up to 17 bytes
                # (8-byte headers) / 18 bytes (9-byte headers: the two-empty-frames stream)
                full = (L <= full_upto) if ctx.thorough else \
                    (version in (2, 4) and not rev and L <= (17 if version == 2 else 18))
                if full:
                    mode, anywhere, nearb = 'full', 0, 0
                    nfull += 1
                elif ctx.quick:
                    mode, anywhere, nearb = 'cuts', 2, 3
                    ncut += 1
                else:
                    mode, anywhere, nearb = 'cuts', (3 if len(kinds) <= 2 else 2), (4 if len(kinds) <= 2 else 3)
                    ncut += 1
                total = splittings(version, kinds, mode, anywhere, nearb)[1]
                n = max(1, total // PER_ITEM)
                for k in range(n):
                    items.append((total // n, (version, kinds, rev, mode, anywhere, nearb, k, n)))
    items = [it for _, it in sorted(ctx.rotate(items), key=lambda x: -x[0])]
    for part in ctx.pmap(run_item, items):
        ctx.merge(part)
    ctx.cov['rule'] = ('versions 1-4 x frame sequences of length 1..%d over %s x stream-id order (natural / reversed); %d streams '
                       '(<= %d bytes%s) enumerated over ALL compositions, %d streams over {all splittings with <= %s cuts anywhere} '
                       'U {all splittings with <= %s cuts each within +-2 bytes of a header start / header end / frame end} U '
                       '{one byte per read}; non-trivial = a splitting with at least one read boundary strictly inside a frame'
                       % (maxframes, list(FRAME_KINDS), nfull, full_upto,
                          '' if ctx.thorough else ' (17 for 8-byte headers), versions 2 and 4 (one per header size), natural order',
                          ncut, '2' if ctx.quick else '3 (2 for 3-frame streams)', '3' if ctx.quick else '4 (3 for 3-frame streams)'))
    ctx.cov['exhaustive'] = True
    ctx.assume('a reactor hands received bytes to the connection by _iobuf.write(chunk); process_io_buffer() (VConnection.feed)')
    ctx.assume('the stream ids of the frames are those of requests really outstanding on the connection; unsolicited '
               'stream ids are outside this check')


def selfcheck():
    """layout of the crafted streams is what the oracle assumes (frame ends, lengths)"""
    for v, hs in ((2, 8), (4, 9)):
        try:
            w, conn, log, data, expect, ends = build(v, ('r1', 'event', 'r7'), True)
        except SetupFailed:
            continue        # reported as a violation by judge()
        try:
            if len(expect) != 3 or ends != [hs + 1, 2 * hs + 29, 3 * hs + 36] or len(data) != ends[-1] \
                    or stream_len(v, ('r1', 'event', 'r7')) != len(data) or log:
                raise HarnessError('C05 selfcheck: unexpected layout %r %r' % (ends, len(data)))
        finally:
            w.__exit__()


def replay(ctx, data):
    connlib.quiet_driver_logs()
    part = Part()
    bad = judge(data['version'], tuple(data['kinds']), data['rev'], tuple(data['cuts']), part)
    for fp, what, _ in part.violations:
        print(fp, '::', what)
    return bad is not None
