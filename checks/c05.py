"""C05 Incoming frames are reassembled exactly under any TCP chunking.

Feed layer: byte streams of 1-3 response / EVENT frames (v1/v2 8-byte and v3/v4 9-byte headers) are fed to a
handshaken VConnection in every composition of the stream into reads (all 2^(L-1) for short
streams, all <=3-cut splittings plus the byte-at-a-time split for longer ones).  Requests are
really sent (and held by the virtual server) so the handlers are registered by send_msg itself;
event watchers by register_watchers.  After every read the deliveries must be exactly the frames
completed so far.

Reactor layer (vt/c05lib.py): the same streams go through the read paths the shipped event-loop reactors
themselves run -- the real AsyncioConnection.handle_read on a virtual asyncio loop whose sock_recv is scripted
(in_buffer_size lowered so that reads of exactly / one less than / multiples of in_buffer_size happen on short
streams) and the real TwistedConnection's protocol.dataReceived on a virtual reactor -- and are judged by the same
oracle whenever the loop has come to rest.
"""
import functools
import itertools

from vt.core import Part, HarnessError
from vt.vthreading import WouldBlock
from vt import connlib

META = {
    'level': 'exploration',
    'engine': 'E',
    'technique': 'exhaustive enumeration of read compositions of small multi-frame byte streams on the real Connection and on the '
                 'real read loops of the asyncio and twisted reactors',
    'text': 'For protocol v1-v4 and every stream of 1-2 (thorough: 1-3) frames drawn from {response with 0/1/7-byte body '
            '(per-request recording decoder), RESULT void (driver decoder), EVENT STATUS_CHANGE (stream -1)}, in both '
            'stream-id orders, the byte stream is fed to a handshaken connection through feed() = _iobuf.write + '
            'process_io_buffer under every composition into reads for short streams (quick: <= 17 bytes with 8-byte headers, the '
            '18-byte two-empty-frames stream with 9-byte headers, one version per header size; thorough: every stream <= 19 '
            'bytes) and, for the others, every splitting with <= 2 (thorough 3; 2 for three frames) cuts anywhere, every splitting '
            'with <= 3 (thorough 4; 3 for three frames) cuts each within 2 bytes of a header start / header end / frame end, and '
            'one byte per read.  After each read the deliveries to the handlers registered by send_msg / register_watchers must '
            'equal, in order and with exact (stream, opcode, flags, body), the frames whose last byte has arrived: nothing early, '
            'nothing missing, nothing twice, connection not defunct.  '
            'MIXED VERSIONS: the header format (8-byte v1/v2, 9-byte v3/v4) and the version handed to the decoder belong to the '
            'frame, not to the connection, so frames of a version other than the one the connection was opened with are fed too, '
            'judged by the same oracle: (a) the ERROR "Invalid or unsupported protocol version" frame on stream 0 with which a node '
            'answers, in its own version fv in 1..4, the OPTIONS request a new connection of version cv in 1..5 sent from its '
            'constructor (what the protocol downgrade relies on): all splittings with <= 2 (thorough 3) cuts anywhere, <= 3 (4) cuts '
            'near header start / header end / frame end, one byte per read; before the last byte nothing is delivered and the '
            'connection is intact, with it the decoder and handler the driver registered for stream 0 get the frame once with its '
            'exact body; (b) on a handshaken connection of version cv in 1..4 one frame of each kind in each other version fv: every '
            'composition for streams <= 10 (thorough 17) bytes, the bounded-cuts family for the others; (c) two frames of versions '
            '(f1, f2) in 1..4 x 1..4 not both cv, cv in {2, 4} (thorough 1..4), kinds {r0, r1, event} (thorough + void), both stream-id '
            'orders, over <= 1 (thorough 2) cuts anywhere, <= 2 near a boundary, one byte per read; (d) reactor layer: one frame of each '
            'kind and each other version on a cv in {2, 4} (thorough 1..4) connection through asyncio (greedy family, every B, three '
            'arrival modes) and twisted (bounded cuts).  '
            'REACTOR LAYER: the 1-2 frame streams are also pushed through the read paths of the reactors importable here.  '
            '(a) asyncio: the real AsyncioConnection (its own handle_read coroutine, handshake and REGISTER included) on a virtual '
            'asyncio loop whose sock_recv(sock, n) is scripted and never returns more than n bytes; in_buffer_size is lowered to B.  '
            'For every 1-frame stream (v1-v4) and 2-frame stream (quick v2/v4, thorough v1-v4), both stream-id orders and EVERY B '
            'in 1..stream length+1: the read script in which every recv is full (B bytes; the last takes the rest -- so streams and '
            'frame ends at exactly B, multiples of B, and B+-1 all occur) and every script in which exactly one recv, any one, '
            'returns only 1 or B-1 (thorough also 2, B-2) bytes; each script is run (i) with every read arriving while the reader '
            'waits in sock_recv, judged after every read once the loop is idle, (ii) with all reads already waiting in the '
            'socket so that consecutive sock_recv calls return without suspending, judged when the loop is idle, (iii) as (ii) '
            'with EOF right behind the last byte.  ALL compositions into reads of <= B bytes, in modes (i) and (ii): quick v2/v4 '
            'r0 and r1 for every B in 1..length+1, void for B in {3, 4, header size}, v2 two empty frames for B = 4 (mode (i)) and '
            'B = 8; thorough v1-v4 r0, r1, void for every B, r7 for B in {4, header size, L}, two empty frames for B in {4, header size}, '
            'v2 r0+r1 and r1+r0 for B in {4, first frame length}.  (b) twisted: the real TwistedConnection connected through twisted\'s endpoint '
            'code on a virtual reactor; every read is handed to the dataReceived of the protocol twisted built: all compositions '
            'of the v2/v4 natural-order streams of <= 16 (thorough 17) bytes, and for all other streams every splitting with <= 1 '
            '(thorough 2) cuts anywhere, <= 2 (thorough 3) cuts near a header/frame boundary, and one byte per read.  Oracle of '
            'the reactor layer: whenever the loop is idle (the reader waits for bytes the server has no reason to send) the '
            'deliveries equal exactly the frames whose last byte has been returned by recv / passed to dataReceived, the read '
            'loop has not died, the connection is not defunct, and at the end no handler is left registered.',
    'note': 'VConnection.feed models what a reactor does with received bytes; the reactor layer replaces that model by the shipped '
            'code for asyncio and twisted (asyncore and libev cannot be imported on this interpreter; the gevent and eventlet '
            'greenlet loops are not run).  Trusted in the reactor layer: asyncio.BaseEventLoop with sock_recv/sock_sendall and the '
            'selector replaced (vt/c11lib.VLoop; ready handles run FIFO until none is left), twisted\'s transport replaced by a '
            'direct call of protocol.dataReceived.  In the handshake-error family the (handler, decoder) pair the driver registered '
            'for stream 0 is replaced by recorders that delegate to it.  A node answering in another version than the request\'s after '
            'the handshake is not something Cassandra does; those streams stand for the statement\'s "all frame sequences (v1-v4 '
            'headers)".  v5 framing is C06\'s.  Header fields other than '
            'length/stream/opcode/flags are not varied; bodies of responses are opaque (recording decoder) except RESULT void '
            'and EVENT which go through the driver decoder.',
    'design_ref': 'C05',
}

FRAME_KINDS = ('r0', 'r1', 'r7', 'void', 'event')
EVENT_ARGS = ('UP', '10.0.0.9', 9042)
# A kind 'r1@2' is an r1 frame written with a protocol-v2 header whatever the version the connection was opened
# with: the header format (and the version handed to the decoder) is a property of the frame, read from its
# first byte.  A kind without '@' is written in the connection's version.
ERR_TEXT = 'Invalid or unsupported protocol version: %d'


def base(k):
    return k.split('@')[0]


def fver(version, k):
    return int(k.split('@')[1]) if '@' in k else version


def hsz(version, k):
    return 8 if fver(version, k) < 3 else 9


def is_mixed(version, kinds):
    return any(fver(version, k) != version for k in kinds)


def site_of(version, kinds):
    """fingerprint suffix: header size of the connection's version; for a stream with a frame of another version
    also the header size of the first such frame"""
    s = 'h%d' % (8 if version < 3 else 9)
    for k in kinds:
        if fver(version, k) != version:
            return 'frame-%s-on-%s-connection' % ('h%d' % hsz(version, k), s)
    return s


def nresponses(kinds):
    return sum(1 for k in kinds if base(k) != 'event')


def frame_seqs(maxlen):
    out = []
    for n in range(1, maxlen + 1):
        for t in itertools.product(FRAME_KINDS, repeat=n):
            out.append(t)
    return out


def prepare(conn, version, kinds, rev, log, registered=None):
    """On a handshaken connection: register the event watcher (REGISTER is really sent and must be answered by
    the server while register_watchers waits; `registered()` is called after that), allocate the stream ids, craft
    the response stream and really send the requests (handlers registered by send_msg itself).
    -> stream bytes, expected deliveries, frame end offsets, stream ids"""
    from vt.world import wire
    from cassandra.protocol import OptionsMessage, ResultMessage
    if any(base(k) == 'event' for k in kinds):
        conn.register_watchers({'STATUS_CHANGE': lambda args: log.append(('event', args.get('change_type'),
                                                                           tuple(args.get('address') or ())))})
    if registered is not None:
        registered()
    nresp = nresponses(kinds)
    streams = []
    for i in range(nresp):
        with conn.lock:          # "This must be called while self.lock is held"
            streams.append(conn.get_request_id())
    # which request gets the driver decoder is decided by the frame kind answering it
    order = list(reversed(streams)) if rev else list(streams)
    data = b''
    expect = []
    ends = []
    it = iter(order)
    cbs = {}
    for idx, kv in enumerate(kinds):
        k, fv = base(kv), fver(version, kv)
        if k == 'event':
            data += wire.frame(fv, -1, wire.OP_EVENT, wire.event_status(EVENT_ARGS[0], EVENT_ARGS[1], EVENT_ARGS[2]))
            expect.append(('event', EVENT_ARGS[0], (EVENT_ARGS[1], EVENT_ARGS[2])))
        elif k == 'void':
            s = next(it)
            cbs[s] = 'void'
            data += wire.frame(fv, s, wire.OP_RESULT, wire.result_void())
            expect.append(('void', s, s, 1))
        else:
            s = next(it)
            cbs[s] = 'raw'
            n = int(k[1:])
            body = bytes((0x30 + 0x10 * idx + j) & 0xff for j in range(n))
            flags = 0x02 if n == 7 else 0     # an arbitrary header flag must come through unchanged
            data += wire.frame(fv, s, wire.OP_RESULT, body, flags=flags)
            expect.append(('resp', s, fv, s, flags, wire.OP_RESULT, body))
        ends.append(len(data))
    if streams and not -128 <= min(streams) <= max(streams) <= 127 and any(fver(version, k) < 3 for k in kinds):
        raise HarnessError('stream ids %r do not fit the one-byte stream field of a v1/v2 header' % (streams,))
    # now really send the requests (handlers registered by send_msg)
    for rid in streams:
        def cb(resp, rid=rid):
            if isinstance(resp, connlib.RawResponse):
                log.append(('resp', rid) + resp.key())
            elif isinstance(resp, ResultMessage):
                log.append(('void', rid, resp.stream_id, resp.kind))
            else:
                log.append(('other', rid, repr(resp)))
        if cbs[rid] == 'raw':
            conn.send_msg(OptionsMessage(), rid, cb, decoder=connlib.raw_decoder)
        else:
            conn.send_msg(OptionsMessage(), rid, cb)
    if sorted(conn._requests) != sorted(streams):
        raise HarnessError('setup: requests not registered: %r %r' % (streams, conn._requests))
    return data, expect, ends, streams


def build(version, kinds, rev):
    """-> world, conn, log, stream bytes, expected deliveries, frame end offsets"""
    from vt.world.vworld import World, VServer
    srv = VServer()
    w = World(srv)
    w.__enter__()
    try:
        try:
            conn = connlib.bare_connection(w, version)
        except HarnessError as e:
            # the setup handshake is itself a frame stream (SUPPORTED, READY) delivered one whole frame per read
            raise SetupFailed(str(e))
        log = []
        def hold_from_now():
            srv.hold = lambda c, r: True
        data, expect, ends, streams = prepare(conn, version, kinds, rev, log, hold_from_now)
        if len(srv.pending) != len(streams):
            raise HarnessError('setup: requests not held: %r %r' % (srv.pending, conn._requests))
        return w, conn, log, data, expect, ends
    except BaseException:
        w.__exit__()
        raise


class SetupFailed(Exception):
    pass


def verdict(conn, log, expect, ends, fed, closed_ok=False):
    """The statement, clause by clause, at a moment when `fed` bytes of the stream have been handed to the connection
    and it has come to rest.  -> None or (clause, text)"""
    done = sum(1 for e in ends if e <= fed)
    if conn.is_defunct or (conn.is_closed and not closed_ok):
        return ('defunct', 'connection failed after %d bytes: %r' % (fed, conn.last_error))
    if len(log) > done:
        return ('partial', 'after %d bytes %d deliveries but only %d frames complete: %r' % (fed, len(log), done, log))
    if log != expect[:len(log)]:
        i = next(j for j in range(len(log)) if log[j] != expect[j])
        got, want = log[i], expect[i]
        if closed_ok and got[0] == 'other':
            # the peer closed behind the last byte and the handler was told so instead of being given the frame
            return ('missing', 'delivery %d is %r, expected %r: %d complete frames had been received before EOF' % (i, got, want, done))
        clause = 'event' if want[0] == 'event' or got[0] == 'event' else \
            ('order' if got in expect else ('stream' if got[1] != want[1] else 'body'))
        return (clause, 'delivery %d is %r, expected %r' % (i, got, want))
    if len(log) < done:
        return ('missing', 'after %d bytes (frames complete: %d) only %d delivered' % (fed, done, len(log)))
    return None


def judge(version, kinds, rev, cuts, part):
    hs = 8 if version < 3 else 9
    site = site_of(version, kinds)
    case = {'version': version, 'kinds': list(kinds), 'rev': rev, 'cuts': list(cuts)}
    try:
        w, conn, log, data, expect, ends = build(version, kinds, rev)
    except SetupFailed as e:
        part.count('evaluations')
        part.violation('C05/handshake-frames/h%d' % hs, 'SUPPORTED/READY delivered one whole frame per read did not '
                       'complete the handshake: %s' % e, case)
        return ('handshake', str(e))
    try:
        fed = 0
        bad = None
        for ch in connlib.chunks(data, cuts):
            try:
                connlib.guarded_feed(conn, ch)
            except connlib.Livelock as e:
                bad = ('livelock', 'after %d bytes had been handed over, the next read of %d bytes never returned: %s' % (fed, len(ch), e))
                break
            fed += len(ch)
            bad = verdict(conn, log, expect, ends, fed)
            if bad:
                break
        if bad is None and conn._requests:
            bad = ('missing', 'handlers left registered at the end: %r' % sorted(conn._requests))
        if bad:
            part.violation('C05/%s/%s' % (bad[0], site), '%s; case %r' % (bad[1], case), case)
        part.count('evaluations')
        part.count('executions')
        part.count('feed_executions')
        if site != 'h%d' % hs:
            part.count('mixed_version_executions')
        part.count('reads', len(cuts) + 1)
        part.outcome((len(kinds), len(log), bool(conn.is_defunct)))
        return bad
    finally:
        w.__exit__()


def build_hserr(cv, fv):
    """A connection opened with protocol version cv whose OPTIONS request (sent by the driver itself from the
    constructor, stream 0) is outstanding, and the ERROR frame a node that does not speak cv answers with, written
    in the node's own version fv.  The handler / decoder pair the driver registered for stream 0 is wrapped by
    recorders that delegate to it.  -> world, conn, log, frame bytes, expected log"""
    from vt.world.vworld import World, VServer, VConnection
    from vt.world import wire
    srv = VServer()
    srv.hold = lambda c, r: True
    w = World(srv)
    w.__enter__()
    try:
        conn = VConnection(srv.hosts[0].address, protocol_version=cv)
        seen = [(p.stream, p.req['op'], p.req['version']) for p in srv.pending]
        if seen != [(0, 'OPTIONS', cv)] or sorted(conn._requests) != [0] or conn.is_defunct or conn.is_closed:
            raise HarnessError('setup: a new v%d connection should have OPTIONS outstanding on stream 0: node holds %r, '
                               'handlers %r, last_error %r' % (cv, seen, sorted(conn._requests), conn.last_error))
        log = []
        cb, dec, md = conn._requests[0]

        def rec_dec(pv, utm, sid, flags, op, body, decomp, rmd):
            log.append(('frame', pv, sid, flags, op, bytes(body)))
            return dec(pv, utm, sid, flags, op, body, decomp, rmd)

        def rec_cb(resp):
            log.append(('handler', type(resp).__name__, getattr(resp, 'code', None), getattr(resp, 'message', None)))
            return cb(resp)
        conn._requests[0] = (rec_cb, rec_dec, md)
        text = ERR_TEXT % cv
        body = wire.error(wire.ERR_PROTOCOL, text)
        data = wire.frame(fv, 0, wire.OP_ERROR, body)
        expect = [('frame', fv, 0, 0, wire.OP_ERROR, body), ('handler', 'ProtocolException', wire.ERR_PROTOCOL, text)]
        return w, conn, log, data, expect
    except BaseException:
        w.__exit__()
        raise


def hserr_len(cv, fv):
    return (8 if fv < 3 else 9) + 4 + 2 + len(ERR_TEXT % cv)


def judge_hserr(cv, fv, cuts, part):
    """The ERROR frame on stream 0 that answers the very first request of a connection, in the answering node's frame
    format, under one splitting.  Until its last byte has arrived nothing is delivered and the connection is intact;
    with its last byte the frame is given exactly once, with its exact body, to the handler of stream 0."""
    site = 'handshake-error/h%d-frame-on-h%d-connection' % (8 if fv < 3 else 9, 8 if cv < 3 else 9)
    case = {'layer': 'handshake-error', 'conn_version': cv, 'frame_version': fv, 'cuts': list(cuts)}
    w, conn, log, data, expect = build_hserr(cv, fv)
    try:
        fed = 0
        bad = None
        for ch in connlib.chunks(data, cuts):
            try:
                connlib.guarded_feed(conn, ch)
            except connlib.Livelock as e:
                bad = ('livelock', 'after %d bytes had been handed over, the next read of %d bytes never returned: %s' % (fed, len(ch), e))
                break
            fed += len(ch)
            if fed < len(data):
                if conn.is_defunct or conn.is_closed:
                    bad = ('defunct', 'connection failed after %d of %d bytes: %r' % (fed, len(data), conn.last_error))
                elif log:
                    bad = ('partial', 'after %d of %d bytes: %r' % (fed, len(data), log))
                elif sorted(conn._requests) != [0]:
                    bad = ('partial', 'after %d of %d bytes the handler of stream 0 is gone: %r' % (fed, len(data), sorted(conn._requests)))
            elif not log:
                bad = ('missing', 'the complete %d-byte v%d ERROR frame on stream 0 was not delivered (defunct=%r, last_error=%r, '
                       'handlers %r)' % (len(data), fv, conn.is_defunct, conn.last_error, sorted(conn._requests)))
            elif log != expect:
                clause = 'twice' if log[:2] == expect else ('body' if log[0] != expect[0] else 'missing')
                bad = (clause, 'deliveries %r, expected %r' % (log, expect))
            elif conn._requests:
                bad = ('missing', 'handlers left registered at the end: %r' % sorted(conn._requests))
            if bad:
                break
        if bad:
            part.violation('C05/%s/%s' % (bad[0], site), '%s; case %r' % (bad[1], case), case)
        part.count('evaluations')
        part.count('executions')
        part.count('feed_executions')
        part.count('handshake_error_executions')
        if cv != fv:
            part.count('mixed_version_executions')
        part.count('reads', len(cuts) + 1)
        part.outcome(('handshake-error', len(log), bool(conn.is_defunct)))
        return bad
    finally:
        w.__exit__()


def judge_reactor(case, part):
    """One execution on a shipped reactor's own read path (vt/c05lib.py).  case: reactor, version, B (in_buffer_size;
    None for twisted), kinds, rev, cuts (read boundaries: recv / dataReceived returns exactly these pieces), mode
    ('each': every piece arrives while the reader waits and the loop then runs until idle, judged after every read;
    'burst': all pieces are waiting in the socket, the reader gets them from consecutive recv calls without ever
    waiting, judged when the loop is idle), eof (the peer closes right behind the last byte)."""
    from vt import c05lib
    from vt.world import vworld
    vworld.install_seams()      # idempotent; without it register_watchers would block on a real threading.Event
    reactor, version, B = case['reactor'], case['version'], case['B']
    kinds, rev, cuts, mode, eof = tuple(case['kinds']), case['rev'], tuple(case['cuts']), case['mode'], bool(case['eof'])
    site = reactor if not is_mixed(version, kinds) else '%s/%s' % (reactor, site_of(version, kinds))
    part.count('evaluations')
    try:
        link = c05lib.LINKS[reactor](version, B)
    except c05lib.SetupFailed as e:
        part.violation('C05/handshake-frames/%s' % site, 'SUPPORTED/READY sent by the server in answer to the driver\'s own '
                       'OPTIONS/STARTUP were not delivered: %s' % e, case)
        part.outcome((reactor, 'handshake'))
        return ('handshake', str(e))
    try:
        conn = link.conn
        log = []
        try:
            with link.application():
                data, expect, ends, streams = prepare(conn, version, kinds, rev, log)
        except WouldBlock as e:
            part.violation('C05/handshake-frames/%s' % site, 'the READY frame answering the driver\'s REGISTER was not delivered: '
                           'register_watchers() would wait for ever (%s)%s' % (e, link.trouble()), case)
            part.outcome((reactor, 'register'))
            return ('handshake', 'REGISTER')
        link.settle()
        link.reset_counters()
        if log:
            raise HarnessError('deliveries before any response byte: %r' % (log,))
        pieces = connlib.chunks(data, cuts)
        if B is not None and max(len(x) for x in pieces) > B:
            raise HarnessError('read script %r has a read longer than in_buffer_size=%d' % (cuts, B))
        spun = vworld._FEED_STATE['livelocks']
        bad = None
        fed = 0
        try:
            with c05lib.cpu_guard():
                if mode == 'each':
                    for x in pieces:
                        link.read_each(x)
                        fed += len(x)
                        bad = verdict(conn, log, expect, ends, fed)
                        if bad:
                            break
                    if not bad and eof:
                        link.eof()
                else:
                    link.read_burst(pieces, eof=eof)
                    fed = len(data)
        except connlib.Livelock as e:
            bad = ('livelock', 'after %d bytes had been returned to the read loop it never came to rest: %s' % (link.returned, e))
        if not bad and vworld._FEED_STATE['livelocks'] != spun:
            bad = ('livelock', 'after %d bytes had been returned to the read loop it never came to rest%s' % (link.returned, link.trouble()))
        if not bad:
            bad = verdict(conn, log, expect, ends, fed, closed_ok=eof)
        if not bad and conn._requests:
            bad = ('missing', 'handlers left registered at the end: %r' % sorted(conn._requests))
        if bad:
            part.violation('C05/%s/%s' % (bad[0], site),
                           '%s; %s read loop, in_buffer_size=%s, reads returned so far %r (%d bytes of %d still unread in the '
                           'socket, reader %s)%s; case %r'
                           % (bad[1], reactor, B, list(link.loop.reads) if reactor == 'asyncio' else link.reads, link.unread(),
                              len(data), 'waiting for more bytes' if link.reader_waiting() else 'NOT waiting', link.trouble(), case),
                           case)
        sizes = [len(x) for x in pieces]
        part.count('executions')
        part.count('reactor_executions')
        part.count('%s_executions' % reactor)
        if site != reactor:
            part.count('mixed_version_executions')
            part.count('mixed_version_reactor_executions')
        part.count('reads', len(sizes))
        part.count('%s_reads' % reactor, len(sizes))
        if B is not None:
            part.count('asyncio_reads_of_exactly_in_buffer_size', sum(1 for n in sizes if n == B))
            if sizes[-1] == B:
                part.count('asyncio_executions_whose_last_read_is_exactly_in_buffer_size')
        part.outcome((reactor, len(kinds), len(log), bool(conn.is_defunct)))
        return bad
    finally:
        link.close()


BODY = {'r0': 0, 'r1': 1, 'r7': 7, 'void': 4, 'event': 28}


def stream_len(version, kinds):
    return sum(hsz(version, k) + BODY[base(k)] for k in kinds)


def inside_frame(version, kinds, cuts):
    ends, n = set(), 0
    for k in kinds:
        n += hsz(version, k) + BODY[base(k)]
        ends.add(n)
    return any(c not in ends for c in cuts)


def boundaries(version, kinds):
    """offsets of header starts, header ends and frame ends"""
    out, n = [], 0
    for k in kinds:
        out += [n, n + hsz(version, k)]
        n += hsz(version, k) + BODY[base(k)]
        out.append(n)
    return out


def splittings(version, kinds, mode, anywhere, nearb):
    """deterministic list of cut tuples for one stream.
    mode 'full': every composition.  mode 'cuts': every splitting with <= `anywhere` cuts at arbitrary
    positions, every splitting with <= `nearb` cuts all within +-2 bytes of a header/frame boundary,
    and the one-byte-at-a-time split."""
    L = stream_len(version, kinds)
    if mode == 'full':
        return None, 1 << (L - 1)
    return _cut_splittings(L, tuple(boundaries(version, kinds)), anywhere, nearb)


@functools.lru_cache(maxsize=None)
def _cut_splittings(L, bounds, anywhere, nearb):
    seen = set(connlib.k_cut_splits(L, anywhere))
    seen.update(connlib.k_cut_splits(L, nearb, connlib.near(bounds, 2, L)))
    seen.add(connlib.all_ones(L))
    return sorted(seen, key=lambda c: (len(c), c)), len(seen)


def run_item(item):
    connlib.quiet_driver_logs()
    if item[0] == 'reactor':
        return run_reactor_item(item)
    if item[0] == 'hserr':
        return run_hserr_item(item)
    version, kinds, rev, mode, anywhere, nearb, k, n = item
    part = Part()
    L = stream_len(version, kinds)
    if mode == 'full':
        gen = (connlib.cuts_of_mask(m, L) for m in range(k, 1 << (L - 1), n))
    else:
        gen = splittings(version, kinds, mode, anywhere, nearb)[0][k::n]
    nt = 0
    for cuts in gen:
        if connlib.too_many_livelocks():
            part.cap('stopped early: several reads never returned in this worker (reported as C05/livelock)')
            break
        judge(version, kinds, rev, cuts, part)
        if inside_frame(version, kinds, cuts):
            nt += 1
    part.count('distinct_nontrivial', nt)
    if k == 0:
        part.sample({'version': version, 'kinds': list(kinds), 'rev': rev, 'mode': mode, 'stream_bytes': L}, limit=1)
    return part


def hserr_splittings(cv, fv, anywhere, nearb):
    L = hserr_len(cv, fv)
    return _cut_splittings(L, (0, 8 if fv < 3 else 9, L), anywhere, nearb)


def run_hserr_item(item):
    _, cv, fv, anywhere, nearb, k, n = item
    part = Part()
    L = hserr_len(cv, fv)
    nt = 0
    for cuts in hserr_splittings(cv, fv, anywhere, nearb)[0][k::n]:
        if connlib.too_many_livelocks():
            part.cap('stopped early: several reads never returned in this worker (reported as C05/livelock)')
            break
        judge_hserr(cv, fv, cuts, part)
        if cuts:
            nt += 1
    part.count('distinct_nontrivial', nt)
    if k == 0 and (cv, fv) in ((4, 2), (2, 4)):
        part.sample({'layer': 'handshake-error', 'conn_version': cv, 'frame_version': fv, 'stream_bytes': L}, limit=1)
    return part


# ------------------------------------------------------------------ the reactors' own read paths
EACH, BURST, BURST_EOF = ('each', False), ('burst', False), ('burst', True)


@functools.lru_cache(maxsize=8)
def _bounded(L, B):
    from vt import c05lib
    return c05lib.bounded_compositions(L, B)


def reactor_scripts(reactor, version, kinds, family, B, arg):
    """deterministic list of read scripts (cut tuples) of one work item and its size.
    'full': every composition of the stream into reads (asyncio: of at most B = in_buffer_size bytes each);
    'grid': what a reader asking for B bytes gets when every read is full, and when exactly one read -- any one --
            comes back short (1 byte, or B-1 bytes; thorough also 2 and B-2) and the others are full again;
    'cuts': the bounded-cuts family of the feed layer (arg = (cuts anywhere, cuts near a boundary))."""
    from vt import c05lib
    L = stream_len(version, kinds)
    if family == 'full':
        if B is None:
            return None, 1 << (L - 1)
        x = _bounded(L, B)
        return x, len(x)
    if family == 'grid':
        x = c05lib.greedy_family(L, B, arg)
        return x, len(x)
    return _cut_splittings(L, tuple(boundaries(version, kinds)), arg[0], arg[1])


def run_reactor_item(item):
    _, reactor, version, kinds, rev, family, Bs, arg, variants, k, n = item
    part = Part()
    L = stream_len(version, kinds)
    nt = 0
    for B in Bs:
        scripts = reactor_scripts(reactor, version, kinds, family, B, arg)[0]
        gen = (connlib.cuts_of_mask(m, L) for m in range(k, 1 << (L - 1), n)) if scripts is None else scripts[k::n]
        for cuts in gen:
            if connlib.too_many_livelocks():
                part.cap('stopped early: several executions never came to rest in this worker (reported as C05/livelock)')
                return part
            for mode, eof in variants:
                judge_reactor({'layer': 'reactor', 'reactor': reactor, 'version': version, 'B': B, 'kinds': list(kinds),
                               'rev': rev, 'cuts': list(cuts), 'mode': mode, 'eof': eof}, part)
                if inside_frame(version, kinds, cuts):
                    nt += 1
    part.count('distinct_nontrivial', nt)
    if k == 0 and family != 'grid':
        part.sample({'layer': 'reactor', 'reactor': reactor, 'version': version, 'kinds': list(kinds), 'rev': rev,
                     'family': family, 'in_buffer_size': list(Bs), 'variants': [list(v) for v in variants],
                     'stream_bytes': L}, limit=1)
    return part


def reactor_plan(ctx):
    """[(estimated executions, work item)] and the sentences for the coverage rule."""
    from vt import c05lib
    items = []
    told = []
    versions = (2, 4) if ctx.quick else (1, 2, 3, 4)

    def add(reactor, version, kinds, rev, family, Bs, arg, variants):
        total = 0
        for B in Bs:
            cnt = reactor_scripts(reactor, version, kinds, family, B, arg)[1]
            total += cnt
            if family == 'full':        # one item per in_buffer_size, cut into pieces of bounded size
                n = max(1, cnt * len(variants) // PER_ITEM)
                for k in range(n):
                    items.append((cnt * len(variants) // n,
                                  ('reactor', reactor, version, kinds, rev, family, (B,), arg, variants, k, n)))
        if family != 'full':
            items.append((total * len(variants), ('reactor', reactor, version, kinds, rev, family, tuple(Bs), arg, variants, 0, 1)))
        return total * len(variants)

    seqs2 = frame_seqs(2)
    # ---- asyncio: AsyncioConnection.handle_read on the virtual loop
    n_grid = n_full = 0
    shorts = (1, -1) if ctx.quick else (1, 2, -1, -2)
    for version in (1, 2, 3, 4):
        for kinds in seqs2:
            if ctx.quick and version not in versions and len(kinds) > 1:
                continue
            nresp = nresponses(kinds)
            L = stream_len(version, kinds)
            for rev in ((False, True) if nresp >= 2 else (False,)):
                n_grid += add('asyncio', version, kinds, rev, 'grid', tuple(range(1, L + 2)), shorts, (EACH, BURST, BURST_EOF))
    full = []       # (kinds, in_buffer_size values as a function of (L, hs), variants)
    every = lambda L, hs: tuple(range(1, L + 2))
    if ctx.quick:
        full += [(('r0',), every, (EACH, BURST)), (('r1',), every, (EACH, BURST)),
                 (('void',), lambda L, hs: (3, 4, hs), (EACH, BURST))]
    else:
        full += [(('r0',), every, (EACH, BURST)), (('r1',), every, (EACH, BURST)), (('void',), every, (EACH, BURST)),
                 (('r7',), lambda L, hs: (4, hs, L), (EACH, BURST))]
    for version in versions:
        hs = 8 if version < 3 else 9
        for kinds, bsf, variants in full:
            L = stream_len(version, kinds)
            n_full += add('asyncio', version, kinds, False, 'full', bsf(L, hs), None, variants)
        # two empty frames: each exactly one header long
        if ctx.quick:
            if version == 2:
                n_full += add('asyncio', version, ('r0', 'r0'), False, 'full', (4,), None, (EACH,))
                n_full += add('asyncio', version, ('r0', 'r0'), False, 'full', (hs,), None, (EACH, BURST))
        else:
            n_full += add('asyncio', version, ('r0', 'r0'), False, 'full', (4, hs), None, (EACH, BURST))
            if version == 2:
                n_full += add('asyncio', version, ('r0', 'r1'), False, 'full', (4, hs), None, (EACH, BURST))
                n_full += add('asyncio', version, ('r1', 'r0'), False, 'full', (4, hs + 1), None, (EACH, BURST))
    told.append('asyncio (real AsyncioConnection.handle_read, scripted sock_recv, in_buffer_size lowered to B): '
                '%d executions of the greedy family = for %s, both stream-id orders and EVERY B in 1..stream length+1: all reads full, '
                'and exactly one read (any one) returning only %s, each script run with every read arriving while the reader waits (judged '
                'after every read once the loop is idle), with all reads waiting in the socket at once (judged when the loop is '
                'idle) and the latter followed at once by EOF; %d executions of ALL compositions into reads of <= B bytes: %s'
                % (n_grid, 'every 1-frame stream of v1-v4 and every 2-frame stream of v2/v4' if ctx.quick else 'every 1-2 frame stream of v1-v4',
                   ' / '.join('B%d' % x if x < 0 else str(x) for x in shorts) + ' bytes', n_full,
                   'v2/v4 r0 and r1 for every B in 1..length+1, void for B in {3,4,header size}, v2 two empty frames for B=4 '
                   '(waiting reader) and B=8 (both arrival modes)' if ctx.quick else
                   'v1-v4 r0, r1, void for every B in 1..length+1, r7 for B in {4, header size, L}, two empty frames for B in '
                   '{4, header size}, v2 r0+r1 / r1+r0 for B in {4, first frame length}'))
    # ---- both reactors: one frame written in another version than the connection's (header format read from the frame)
    n_mgrid = n_mcuts = 0
    mixed_conn = (2, 4) if ctx.quick else (1, 2, 3, 4)
    for cv in mixed_conn:
        for fv in (1, 2, 3, 4):
            if fv == cv:
                continue
            for b in FRAME_KINDS:
                kinds = ('%s@%d' % (b, fv),)
                L = stream_len(cv, kinds)
                n_mgrid += add('asyncio', cv, kinds, False, 'grid', tuple(range(1, L + 2)), shorts, (EACH, BURST, BURST_EOF))
                if c05lib.tr is not None:
                    n_mcuts += add('twisted', cv, kinds, False, 'cuts', (None,), (1, 2) if ctx.quick else (2, 3), (EACH,))
    told.append('mixed versions: one frame of version fv != cv (each kind) on a connection of version cv in %s: %d asyncio executions of '
                'the greedy family (every B, three arrival modes as above), %d twisted executions over the bounded-cuts family'
                % (list(mixed_conn), n_mgrid, n_mcuts))
    # ---- twisted: the protocol's dataReceived on the virtual reactor (no read size limit of the driver's own)
    n_tfull = n_tcuts = 0
    if c05lib.tr is None:
        ctx.assume('twisted reactor not importable on this interpreter (%s): its read path is not exercised' % c05lib.TWISTED_ERROR)
    else:
        tfull_upto = 16 if ctx.quick else 17
        for version in (1, 2, 3, 4):
            for kinds in seqs2:
                nresp = nresponses(kinds)
                L = stream_len(version, kinds)
                for rev in ((False, True) if nresp >= 2 else (False,)):
                    if version in (2, 4) and not rev and L <= tfull_upto:
                        n_tfull += add('twisted', version, kinds, rev, 'full', (None,), None, (EACH,))
                    else:
                        n_tcuts += add('twisted', version, kinds, rev, 'cuts', (None,), (1, 2) if ctx.quick else (2, 3), (EACH,))
        told.append('twisted (real TwistedConnection set up through twisted\'s endpoints on the virtual reactor; each read is handed '
                    'to the protocol\'s dataReceived): %d executions of ALL compositions of the v2/v4 natural-order streams of <= %d '
                    'bytes, %d executions of the other 1-2 frame streams of v1-v4 (both orders) over {<= %d cuts anywhere} U {<= %d '
                    'cuts each within +-2 bytes of a header start / header end / frame end} U {one byte per read}, judged after '
                    'every read' % (n_tfull, tfull_upto, n_tcuts, 1 if ctx.quick else 2, 2 if ctx.quick else 3))
    return items, told


def mixed_plan(ctx):
    """Work items of the mixed-version families of the feed layer: frames whose version byte (and so header format) is
    not that of the connection.  -> [(estimated executions, item)], sentence for the coverage rule"""
    items = []
    n_hs = n_one = n_two = 0
    # (a) the ERROR frame answering the first request of a new connection, in the node's own frame format
    hs_cuts = (2, 3) if ctx.quick else (3, 4)
    hs_conn = (1, 2, 3, 4, 5)
    for cv in hs_conn:
        for fv in (1, 2, 3, 4):
            total = hserr_splittings(cv, fv, *hs_cuts)[1]
            n = max(1, total // PER_ITEM)
            n_hs += total
            items += [(total // n, ('hserr', cv, fv, hs_cuts[0], hs_cuts[1], k, n)) for k in range(n)]
    # (b) established connection of version cv, one frame of another version
    full_upto = 10 if ctx.quick else 17
    one_cuts = (2, 3) if ctx.quick else (3, 4)
    for cv in (1, 2, 3, 4):
        for fv in (1, 2, 3, 4):
            if fv == cv:
                continue
            for b in FRAME_KINDS:
                kinds = ('%s@%d' % (b, fv),)
                mode, (anywhere, nearb) = ('full', (0, 0)) if stream_len(cv, kinds) <= full_upto else ('cuts', one_cuts)
                total = splittings(cv, kinds, mode, anywhere, nearb)[1]
                n = max(1, total // PER_ITEM)
                n_one += total
                items += [(total // n, (cv, kinds, False, mode, anywhere, nearb, k, n)) for k in range(n)]
    # (c) two frames, at least one of them of another version than the connection's
    two_conn = (2, 4) if ctx.quick else (1, 2, 3, 4)
    two_bases = ('r0', 'r1', 'event') if ctx.quick else ('r0', 'r1', 'void', 'event')
    two_cuts = (1, 2) if ctx.quick else (2, 2)
    for cv in two_conn:
        for f1, f2 in itertools.product((1, 2, 3, 4), repeat=2):
            if f1 == cv and f2 == cv:
                continue
            for b1, b2 in itertools.product(two_bases, repeat=2):
                kinds = ('%s@%d' % (b1, f1), '%s@%d' % (b2, f2))
                for rev in ((False, True) if nresponses(kinds) >= 2 else (False,)):
                    total = splittings(cv, kinds, 'cuts', two_cuts[0], two_cuts[1])[1]
                    n = max(1, total // PER_ITEM)
                    n_two += total
                    items += [(total // n, (cv, kinds, rev, 'cuts', two_cuts[0], two_cuts[1], k, n)) for k in range(n)]
    told = ('MIXED VERSIONS (feed layer; the header format is read from the frame, not taken from the connection): %d executions of the '
            'ERROR "%s" frame on stream 0 that a node not speaking the connection\'s version answers to the OPTIONS request the driver '
            'itself sent from the constructor, connection versions %s x frame versions 1-4 (equal ones included), over {<= %d cuts '
            'anywhere} U {<= %d cuts within +-2 bytes of header start / header end / frame end} U {one byte per read}; %d executions '
            'of one frame of version fv on a handshaken connection of version cv, all 12 (cv, fv) in 1..4 with fv != cv x %s: ALL '
            'compositions for streams <= %d bytes, the others over {<= %d cuts anywhere} U {<= %d near a boundary} U {one byte per '
            'read}; %d executions of two frames of versions (f1, f2) in 1..4 x 1..4 not both equal to the connection version cv in '
            '%s, kinds %s x %s, both stream-id orders, over {<= %d cuts anywhere} U {<= %d near a boundary} U {one byte per read}'
            % (n_hs, ERR_TEXT % 0 + ' (the connection version)', list(hs_conn), hs_cuts[0], hs_cuts[1], n_one, list(FRAME_KINDS),
               full_upto, one_cuts[0], one_cuts[1], n_two, list(two_conn), list(two_bases), list(two_bases), two_cuts[0], two_cuts[1]))
    return items, told


PER_ITEM = 6000


def run(ctx):
    connlib.quiet_driver_logs()
    selfcheck()
    maxframes = 2 if ctx.quick else 3
    full_upto = 18 if ctx.quick else 19
    items = []
    nfull = ncut = 0
    for version in (1, 2, 3, 4):
        for kinds in frame_seqs(maxframes):
            nresp = nresponses(kinds)
            L = stream_len(version, kinds)
            for rev in ((False, True) if nresp >= 2 else (False,)):
                # quick: complete compositions for one version per header size, natural order, up to 17 bytes
                # (8-byte headers) / 18 bytes (9-byte headers: the two-empty-frames stream)
                full = (L <= full_upto) if ctx.thorough else \
                    (version in (2, 4) and not rev and L <= (17 if version == 2 else 18))
                if full:
                    mode, anywhere, nearb = 'full', 0, 0
                    nfull += 1
                elif ctx.quick:
                    mode, anywhere, nearb = 'cuts', 2, 3
                    ncut += 1
                else:
                    mode, anywhere, nearb = 'cuts', (3 if len(kinds) <= 2 else 2), (4 if len(kinds) <= 2 else 3)
                    ncut += 1
                total = splittings(version, kinds, mode, anywhere, nearb)[1]
                n = max(1, total // PER_ITEM)
                for k in range(n):
                    items.append((total // n, (version, kinds, rev, mode, anywhere, nearb, k, n)))
    ritems, told = reactor_plan(ctx)
    mitems, mtold = mixed_plan(ctx)
    # a reactor execution costs about as much as a feed execution; small items are grouped by the pool's chunking
    items = [it for _, it in sorted(ctx.rotate(items + ritems + mitems), key=lambda x: -x[0])]
    for part in ctx.pmap(run_item, items):
        ctx.merge(part)
    ctx.cov['rule'] = ('FEED LAYER: versions 1-4 x frame sequences of length 1..%d over %s x stream-id order (natural / reversed); %d streams '
                       '(<= %d bytes%s) enumerated over ALL compositions, %d streams over {all splittings with <= %s cuts anywhere} '
                       'U {all splittings with <= %s cuts each within +-2 bytes of a header start / header end / frame end} U '
                       '{one byte per read}.  %s.  REACTOR LAYER: %s.  non-trivial = an execution whose read script has at least one '
                       'read boundary strictly inside a frame'
                       % (maxframes, list(FRAME_KINDS), nfull, full_upto,
                          '' if ctx.thorough else ' (17 for 8-byte headers), versions 2 and 4 (one per header size), natural order',
                          ncut, '2' if ctx.quick else '3 (2 for 3-frame streams)', '3' if ctx.quick else '4 (3 for 3-frame streams)',
                          mtold, '; '.join(told)))
    ctx.cov['exhaustive'] = True
    ctx.assume('feed layer: a reactor hands received bytes to the connection by _iobuf.write(chunk); process_io_buffer() '
               '(VConnection.feed); the reactor layer runs the asyncio and twisted reactors\' own code for this instead')
    ctx.assume('the stream ids of the frames are those of requests really outstanding on the connection; unsolicited '
               'stream ids are outside this check')
    ctx.assume('asyncio loop.sock_recv(sock, n) returns between 1 and n bytes (b\'\' only at EOF), at once when bytes are waiting and '
               'otherwise after the reader has been suspended; in_buffer_size is a class attribute the read loop reads on every '
               'iteration, so lowering it scales the stream lengths at which full reads occur, nothing else')
    ctx.assume('asyncore and libev reactors cannot be imported on this interpreter; the gevent and eventlet read loops (blocking '
               'recv in a greenlet) are not run')


def selfcheck():
    """layout of the crafted streams is what the oracle assumes (frame ends, lengths)"""
    for v, hs in ((2, 8), (4, 9)):
        try:
            w, conn, log, data, expect, ends = build(v, ('r1', 'event', 'r7'), True)
        except SetupFailed:
            continue        # reported as a violation by judge()
        try:
            if len(expect) != 3 or ends != [hs + 1, 2 * hs + 29, 3 * hs + 36] or len(data) != ends[-1] \
                    or stream_len(v, ('r1', 'event', 'r7')) != len(data) or log:
                raise HarnessError('C05 selfcheck: unexpected layout %r %r' % (ends, len(data)))
        finally:
            w.__exit__()


def replay(ctx, data):
    connlib.quiet_driver_logs()
    part = Part()
    if data.get('layer') == 'reactor':
        bad = judge_reactor(data, part)
    elif data.get('layer') == 'handshake-error':
        bad = judge_hserr(data['conn_version'], data['frame_version'], tuple(data['cuts']), part)
    else:
        bad = judge(data['version'], tuple(data['kinds']), data['rev'], tuple(data['cuts']), part)
    for fp, what, _ in part.violations:
        print(fp, '::', what)
    return bad is not None
