"""C47 A connection is usable only after a successful handshake.

Every sequence of server replies (bounded length) to the handshake of a real Connection is played
against every (protocol version, authenticator kind, compression setting, set of locally installed
compression algorithms); each handshake request
is held by the server, which reads what the driver pushed with the independent wire codec and
answers from the sequence.  A failed handshake is continued with what can still happen to the dead
connection before Connection.factory looks at it (rest of the same read, socket error, disconnect).
Schedule layer: the connecting thread (Connection.factory + first request) against the reactor
thread that delivers the replies, every schedule with a bounded number of preemptions.
Oracle = the clauses of the C47 statement.
"""
from vt.core import Part, HarnessError
from vt import connlib
from vt import sched

META = {
    'level': 'model_checking',
    'engine': 'E+S',
    'technique': 'exhaustive enumeration of bounded server reply sequences (continued past the fatal reply) x configurations on the real '
                 'Connection handshake handlers, plus preemption-bounded schedule enumeration (reactor thread vs connecting thread)',
    'text': 'For protocol versions {1,2,3,4,5,6(beta),DSE_V1,DSE_V2} x authenticator {none, PlainTextAuthenticator, v1 credentials '
            'dict} x (compression setting, locally installed algorithms) in {True, "lz4", "snappy"} x {{lz4}, {snappy}, {lz4,snappy}} + '
            '(True, {}) + (False, {lz4,snappy}) the tree of all reply sequences of length <= 5 (thorough 7) over '
            '{SUPPORTED with compression list [], [lz4], [snappy], [lz4,snappy]; READY; AUTHENTICATE; AUTH_CHALLENGE (valid / '
            'unexpected token); AUTH_SUCCESS; ERROR bad-credentials / server-error / protocol-error; undecodable frame; server '
            'disconnect (close()); socket error (defunct(OSError)); EVENT} is explored: each reply answers the oldest handshake '
            'request the server holds (after STARTUP was accepted on v5 inside a checksummed segment of the negotiated form).  In '
            'every state: the real Connection.factory (inside whose wait the replies are delivered) returns the connection only if a '
            'READY or AUTH_SUCCESS had been delivered by the moment it returns and the connection is open; a failed handshake sets connected_event; factory raises '
            'AuthenticationFailed exactly for authentication failures (never for other failures); every frame pushed before the '
            'server accepted STARTUP is an uncompressed plain frame; later frames are compressed only with the algorithm announced '
            'in STARTUP, which must be in SUPPORTED and locally available; after acceptance outgoing data are v5 segments of the '
            'negotiated form iff the version is v5/v6 (never for v1-v4, DSE_V1, DSE_V2); the lz4 segment form is used iff STARTUP announced '
            'lz4.  A probe request is sent on every ready connection and must go out readable in that form.  '
            'Authenticator behaviour as part of the alphabet: for the same 8 versions x (compression setting, installed) in {(False, '
            '{lz4,snappy}), (True, {lz4})} x the 27 scripted Authenticator subclasses auth:I/C1/C2 (initial_response() returns I, '
            'evaluate_challenge() returns C1 for the first challenge and C2 for every later one; each of I, C1, C2 in {non-empty '
            'bytes, empty bytes, None}) the tree of all reply sequences of length <= 5 (thorough 7) over {SUPPORTED [lz4,snappy]; '
            'READY; AUTHENTICATE; AUTH_CHALLENGE; AUTH_SUCCESS; ERROR bad-credentials / server-error; undecodable frame; server '
            'disconnect; socket error; EVENT} is explored with the same clauses (so zero, one and two challenges (thorough four) each followed by '
            'every verdict: AUTH_SUCCESS, bad credentials, another challenge, silence, close), plus: connected_event is set on an '
            'open connection without error only if READY or AUTH_SUCCESS was delivered.  '
            'Aftermath: a failed handshake is continued, before the thread waiting in Connection.factory runs again, with every sequence '
            'of <= 1 (thorough 2) events of {further bytes in the same read as the fatal reply: non-protocol bytes / an undecodable '
            'frame on stream -1; socket error; server disconnect} (one failed handshake per distinct canonical state, fatal reply and '
            'request answered); the authentication clause is judged on the first fatal cause.  '
            'Schedule layer (engine S): a connecting thread (Connection.factory, then one request on the connection it got) runs '
            'against a reactor thread that delivers SUPPORTED and then READY | AUTHENTICATE, AUTH_SUCCESS | AUTHENTICATE, bad-credentials '
            'ERROR | AUTHENTICATE without an authenticator | for v4 / v5: AUTHENTICATE, AUTH_CHALLENGE answered with None by the scripted '
            'authenticator auth:B/N/N, AUTH_SUCCESS (thorough: all versions, also two challenges then bad credentials with auth:N/E/N, a PlainText challenge round, READY to a configured authenticator, '
            'socket error, server error, v1 credentials) for versions {3,4,5,6,DSE_V1,DSE_V2} (thorough: v2-DSE_V2, v1 credentials) x {no compression, lz4 negotiated}: every '
            'schedule with <= 1 preemption (thorough: <= 2 for v4/v5; all non-preemptive orders included) is enumerated, scheduling '
            'points = every virtual lock / event operation and every source line of _handle_options_response, _handle_startup_response, '
            '_handle_auth_response, _enable_compression, _enable_checksumming, send_msg, defunct, factory; the same clauses are judged '
            'on what the server received, so the first request of the thread released by connected_event must already use the '
            'framing / compression the handshake established.',
    'note': 'VConnection.close() follows the contract shared by the asyncio, twisted, gevent and eventlet reactors.  lz4 is the '
            'pure-python stub of /verif/stubs; snappy is a stand-in codec writing valid literal-only snappy streams; the set of '
            'locally installed algorithms is what cassandra.connection.locally_supported_compressions (and segment_codec_lz4, None '
            'without lz4, as after a failed import) holds during the run.  The server identifies the algorithm of a compressed frame by '
            'decoding it with its own lz4 / snappy readers.  Any exception raised by '
            'Connection.factory other than AuthenticationFailed counts as a connection error.',
    'design_ref': 'C47',
}

VERSIONS = (1, 2, 3, 4, 5, 6, 0x41, 0x42)
VNAMES = {0x41: 'dse1', 0x42: 'dse2'}
AUTHS = ('none', 'sasl', 'dict')
# scripted authenticators: the authenticator's behaviour is part of the handshake alphabet.  'auth:I/C1/C2' = an Authenticator subclass
# whose initial_response() returns I, whose evaluate_challenge() returns C1 for the first challenge and C2 for every later one;
# B = non-empty bytes, E = empty bytes, N = None ("nothing more to send": the documented return value of both methods)
ANSWERS = ('B', 'E', 'N')
SCRIPTED = tuple('auth:%s/%s/%s' % (i, c1, c2) for i in ANSWERS for c1 in ANSWERS for c2 in ANSWERS)
SCRIPTED_COMP_LOCAL = ((False, ('lz4', 'snappy')), (True, ('lz4',)))
# replies played to a scripted authenticator: one SUPPORTED form (the others are covered with the three AUTHS), every verdict
SCRIPTED_REPLIES = ('SUP[lz4,snappy]', 'READY', 'AUTHENTICATE', 'CHALLENGE', 'AUTH_SUCCESS', 'ERR_BADCRED', 'ERR_SERVER', 'GARBAGE',
                    'DISCONNECT', 'SOCKERR', 'EVENT')
LOCALS = (('lz4',), ('snappy',), ('lz4', 'snappy'))
# (compression setting, locally installed algorithms)
COMP_LOCAL = tuple((c, l) for c in (True, 'lz4', 'snappy') for l in LOCALS) + ((True, ()), (False, ('lz4', 'snappy')))
SUPS = {'SUP[]': [], 'SUP[lz4]': ['lz4'], 'SUP[snappy]': ['snappy'], 'SUP[lz4,snappy]': ['lz4', 'snappy']}
REPLIES = tuple(SUPS) + ('READY', 'AUTHENTICATE', 'CHALLENGE', 'CHALLENGE_BAD', 'AUTH_SUCCESS', 'ERR_BADCRED', 'ERR_SERVER',
                         'ERR_PROTO', 'GARBAGE', 'DISCONNECT', 'SOCKERR', 'EVENT')
OOB = ('DISCONNECT', 'SOCKERR', 'EVENT')
# what may still happen to a connection whose handshake has already failed, before the thread waiting in Connection.factory looks at
# it: '&...' = further bytes in the same read as the fatal reply (the read loop goes on after the first failure)
SAME_READ = {'&JUNK': b'\x15\x03\x03\x00\x02\x02\x28\x00\x00',     # not a frame of any protocol version (a TLS alert record)
             '&PUSH_GARBAGE': None}                                  # an undecodable frame on stream -1 (built per version)
AFTERMATH = tuple(SAME_READ) + ('SOCKERR', 'DISCONNECT')


# ------------------------------------------------------------------ snappy stand-in (driver side) and reader (server side)
def snappy_compress(data):
    """valid raw snappy stream made of literal elements only (what `snappy.compress` may legally emit)"""
    data = bytes(data)
    out = bytearray()
    n = len(data)
    while True:                      # preamble: uncompressed length as a little-endian base-128 varint
        if n < 0x80:
            out.append(n)
            break
        out.append(0x80 | (n & 0x7f))
        n >>= 7
    for i in range(0, len(data), 65536):
        chunk = data[i:i + 65536]
        m = len(chunk) - 1
        if m < 60:
            out.append(m << 2)
        elif m < 256:
            out += bytes([60 << 2, m])
        else:
            out += bytes([61 << 2, m & 0xff, m >> 8])
        out += chunk
    return bytes(out)


def snappy_read(src):
    """independent reader of the raw snappy format (literals and the three copy elements); raises ValueError"""
    src = bytes(src)
    size, shift, i = 0, 0, 0
    while True:
        if i >= len(src) or shift > 28:
            raise ValueError('bad preamble')
        b = src[i]
        i += 1
        size |= (b & 0x7f) << shift
        shift += 7
        if not b & 0x80:
            break
    out = bytearray()
    while i < len(src):
        tag = src[i]
        i += 1
        kind = tag & 3
        if kind == 0:
            n = tag >> 2
            if n >= 60:
                k = n - 59
                if i + k > len(src):
                    raise ValueError('truncated literal length')
                n = int.from_bytes(src[i:i + k], 'little')
                i += k
            n += 1
            if i + n > len(src):
                raise ValueError('literal overruns input')
            out += src[i:i + n]
            i += n
            continue
        if kind == 1:
            if i + 1 > len(src):
                raise ValueError('truncated copy')
            n, off = ((tag >> 2) & 7) + 4, ((tag >> 5) << 8) | src[i]
            i += 1
        else:
            k = 2 if kind == 2 else 4
            if i + k > len(src):
                raise ValueError('truncated copy')
            n, off = (tag >> 2) + 1, int.from_bytes(src[i:i + k], 'little')
            i += k
        if off == 0 or off > len(out):
            raise ValueError('bad copy offset')
        for _ in range(n):
            out.append(out[-off])
    if len(out) != size:
        raise ValueError('decoded %d bytes, declared %d' % (len(out), size))
    return bytes(out)


def lz4_read(body):
    """frame-level lz4 body: 4-byte big-endian uncompressed length + one lz4 block"""
    if len(body) < 4:
        raise ValueError('short lz4 body')
    return connlib.lz4_block_decompress(body[4:], int.from_bytes(body[:4], 'big'))


def selftest():
    for n in (0, 1, 59, 60, 61, 255, 256, 257, 65535, 65536, 65537, 200000):
        d = (b'SELECT * FROM ks.tbl \x00\xff' * (n // 23 + 1))[:n]
        if snappy_read(snappy_compress(d)) != d:
            raise HarnessError('snappy stand-in does not round-trip %d bytes' % n)
    # vectors written out from the format description: "aaaaaaaaaa" as literal "a" + copy(offset 1, len 9) in the three copy forms
    for v in (b'\x0a\x00a' + bytes([((9 - 4) << 2) | 1, 1]), b'\x0a\x00a' + bytes([((9 - 1) << 2) | 2, 1, 0]),
              b'\x0a\x00a' + bytes([((9 - 1) << 2) | 3, 1, 0, 0, 0])):
        if snappy_read(v) != b'a' * 10:
            raise HarnessError('snappy reader fails on vector %r' % (v,))
    for bad in (b'', b'\x05\x00a', b'\x01\x09a\x00'):
        try:
            snappy_read(bad)
        except ValueError:
            continue
        raise HarnessError('snappy reader accepted %r' % (bad,))


_SAVED = {}


def install_local(local):
    """make `local` the set of compression libraries the driver finds installed (lz4 first, as the module does)"""
    import cassandra.connection as cc
    if not _SAVED:
        _SAVED['lz4'] = cc.locally_supported_compressions['lz4']
        _SAVED['codec'] = cc.segment_codec_lz4
        _SAVED['orig'] = list(cc.locally_supported_compressions.items())
    cc.locally_supported_compressions.clear()
    if 'lz4' in local:
        cc.locally_supported_compressions['lz4'] = _SAVED['lz4']
    if 'snappy' in local:
        cc.locally_supported_compressions['snappy'] = (snappy_compress, snappy_read)
    cc.segment_codec_lz4 = _SAVED['codec'] if 'lz4' in local else None


def restore_local():
    import cassandra.connection as cc
    if _SAVED:
        cc.locally_supported_compressions.clear()
        cc.locally_supported_compressions.update(_SAVED['orig'])
        cc.segment_codec_lz4 = _SAVED['codec']


def scripted_authenticator(kind):
    """instance of a cassandra.auth.Authenticator subclass that behaves as `kind` ('auth:I/C1/C2') says and records its calls"""
    from cassandra.auth import Authenticator
    if kind not in SCRIPTED:
        raise HarnessError('unknown authenticator kind %r' % (kind,))
    ini, c1, c2 = kind[len('auth:'):].split('/')

    def value(letter, token):
        return {'B': token, 'E': b'', 'N': None}[letter]

    class ScriptedAuthenticator(Authenticator):
        def __init__(self):
            self.calls = []          # ('initial', returned) / ('challenge', challenge, returned) / ('success', token)

        def initial_response(self):
            r = value(ini, b'\x00user\x00secret')
            self.calls.append(('initial', r))
            return r

        def evaluate_challenge(self, challenge):
            n = sum(1 for c in self.calls if c[0] == 'challenge')
            r = value(c1 if n == 0 else c2, b'response-%d' % (n + 1))
            self.calls.append(('challenge', challenge, r))
            return r

        def on_authentication_success(self, token):
            self.calls.append(('success', token))

    return ScriptedAuthenticator()


def make_server():
    from vt.world.vworld import VServer, Pending
    from vt.world import wire

    class HsServer(VServer):
        """Holds everything; classifies every pushed unit without ever raising into the driver."""
        def on_connect(self, conn):
            VServer.on_connect(self, conn)
            conn.server_state.update(out=[], accepted_at=None, seg=None, sup=None, startup=None)

        def on_data(self, conn, data):
            st = conn.server_state
            rec = {'index': len(st['out']), 'form': 'garbage', 'frames': [], 'n': len(data)}
            st['out'].append(rec)
            payload = None
            hdr = wire.parse_header(data)
            if hdr is not None and data[0] < 0x80 and hdr[5] + hdr[4] == len(data):
                rec['form'] = 'frame'
                payload = data
            else:
                for form, comp in (('segments-plain', False), ('segments-lz4', True)):
                    try:
                        r = wire.SegmentLog(compressed=comp, decompress_block=connlib.lz4_block_decompress)
                        out = r.feed(data)
                        if r.buf or not r.segments:
                            continue
                    except Exception:
                        continue
                    rec['form'] = form
                    rec['segments'] = [s[:3] for s in r.segments]
                    payload = out
                    break
            while payload:
                h = wire.parse_header(payload)
                if h is None or len(payload) < h[5] + h[4]:
                    rec['frames'].append({'op': 'TRUNCATED'})
                    break
                v, flags, stream, op, ln, hs = h
                body = payload[hs:hs + ln]
                payload = payload[hs + ln:]
                fr = {'version': v, 'flags': flags, 'stream': stream, 'op': wire.OPNAMES.get(op, hex(op)), 'compressed': bool(flags & 1)}
                if flags & 1:
                    reads = {}
                    for name, rd in (('lz4', lz4_read), ('snappy', snappy_read)):
                        try:
                            reads[name] = rd(body)
                        except Exception:
                            pass
                    if len(reads) == 1:
                        (fr['algorithm'], body), = reads.items()
                    else:
                        fr['algorithm'] = 'unreadable' if not reads else 'ambiguous'
                        body = None
                if body is not None:
                    try:
                        fr.update(wire.parse_request(v, flags & ~1, op, body))
                    except Exception as e:
                        fr['parse_error'] = str(e)
                fr['version'] = v
                rec['frames'].append(fr)
                self.received.append((conn.vid, stream, fr))
                self.pending.append(Pending(conn, stream, fr, next(self.seq)))

    return HsServer()


class _Step(object):
    """outbox entry: World.pump() calls .feed(data) on it while Connection.factory waits for connected_event"""
    def __init__(self, run, reply):
        self.run, self.reply = run, reply

    def feed(self, data):
        run = self.run
        try:
            if run.conn is None:
                run.conn = run.w.conns[0]
            if self.reply is None:
                run.snapshot = run.observe()          # all replies delivered and factory is still waiting
            else:
                run.step()
        except Exception:
            import traceback
            raise _HarnessBug(traceback.format_exc())


class _HarnessBug(BaseException):
    """must not be swallowed by the driver's `except Exception` blocks"""


class Run(object):
    """one reply sequence, played while the real Connection.factory waits for the handshake (connect=True), or prepared for the
    schedule layer, whose connecting thread calls connect() and whose reactor thread calls step() (connect=False)"""
    def __init__(self, cfg, seq, connect=True):
        from vt.world.vworld import World
        self.version, self.auth, self.compression, self.local = cfg
        self.local = tuple(self.local)
        install_local(self.local)
        self.srv = make_server()
        self.w = World(self.srv)
        self.w.__enter__()
        self.history = []          # (reply, request op answered or None)
        self.delivered = []        # reply names delivered while the connection was alive
        self.queue = list(seq)     # replies not yet played
        self.fatal = None          # index in history of the reply / event that made the connection fail (the first fatal cause)
        self.conn = None
        self.snapshot = None
        self.returned = None
        self.exc = None
        self.authn = None
        self.delivered_at_return = None
        self.undelivered = []      # scripted replies dropped because the handshake had failed before their turn
        if not connect:
            return
        try:
            for r in tuple(seq) + (None,):
                self.srv.outbox.append((_Step(self, r), b''))
            try:
                self.connect()
            except _HarnessBug as e:
                raise HarnessError('error in the reply player: %s' % e)
            self.finish()
        except BaseException:
            self.close()
            raise

    def connect(self):
        """what a connecting thread does: the real Connection.factory"""
        from vt.world.vworld import VConnection
        authn = None
        if self.auth == 'sasl':
            from cassandra.auth import PlainTextAuthenticator
            authn = PlainTextAuthenticator('user', 'secret')
        elif self.auth == 'dict':
            authn = {'username': 'user', 'password': 'secret'}
        elif self.auth != 'none':
            authn = scripted_authenticator(self.auth)
        self.authn = authn
        try:
            kw = {'allow_beta_protocol_version': True} if self.version == 6 else {}
            self.returned = VConnection.factory('10.0.0.1', 5.0, protocol_version=self.version, authenticator=authn,
                                                compression=self.compression, **kw)
            self.delivered_at_return = list(self.delivered)      # what the server had sent when the connection was reported ready
        except Exception as e:
            self.exc = e

    def finish(self, strict=True):
        if self.conn is None:
            self.conn = self.w.conns[0]
        if self.returned is not None and self.returned is not self.conn:
            raise HarnessError('factory returned another connection')
        if self.queue and strict:
            raise HarnessError('replies %r were generated after the handshake had ended' % (self.queue,))
        if self.snapshot is None:
            self.snapshot = self.observe()

    def is_failed(self):
        return bool(self.conn.is_closed or self.conn.is_defunct)

    def step(self):
        """one turn of the reactor: the next reply (with the bytes that arrive in the same read); once the connection has failed,
        everything that is still to happen to it happens before the thread waiting in Connection.factory runs again"""
        while self.queue:
            if self.is_failed() and self.queue[0] not in AFTERMATH and self.queue[0] not in OOB:
                # a scripted reply to a request the driver never sent: the handshake failed earlier than the script expected
                # (schedule layer only; the sequential layer extends a failed handshake with AFTERMATH events only)
                self.undelivered = list(self.queue)
                del self.queue[:]
                break
            r = self.queue.pop(0)
            trail = []
            while self.queue and self.queue[0] in SAME_READ:
                trail.append(self.queue.pop(0))
            first = len(self.history)
            self.apply(r, trail)
            if self.fatal is None and self.is_failed():
                self.fatal = first
            if not self.is_failed():
                break

    def observe(self):
        c = self.conn
        return {'closed': c.is_closed, 'defunct': c.is_defunct, 'event': c.connected_event.is_set(),
                'last_error': c.last_error, 'pending': tuple(p.req['op'] for p in self.srv.pending if not p.answered)}

    def close(self):
        try:
            self.w.__exit__()
        finally:
            restore_local()

    # -- observation (of the state in which the reply sequence left the connection)
    def failed(self):
        return bool(self.snapshot['closed'] or self.snapshot['defunct'])

    def reported_ready(self):
        return self.returned is not None

    def pending(self):
        return self.snapshot['pending']

    def terminal(self):
        return self.failed() or self.snapshot['event'] or not self.pending()

    # -- replies
    def apply(self, reply, trail=()):
        from vt.world import wire
        conn, st = self.conn, self.conn.server_state
        if reply in SAME_READ:
            raise HarnessError('%s does not follow a frame' % reply)
        if trail and reply in ('DISCONNECT', 'SOCKERR'):
            raise HarnessError('%r cannot arrive in the same read as %s' % (trail, reply))
        if reply == 'DISCONNECT':
            self.history.append((reply, None))
            conn.close()
            return
        if reply == 'SOCKERR':
            self.history.append((reply, None))
            conn.defunct(OSError(104, 'Connection reset by peer'))
            return
        v = self.version
        more = b''
        for t in trail:
            more += SAME_READ[t] if SAME_READ[t] is not None else wire.frame(v, -1, wire.OP_RESULT, b'\x00\x00')
        if reply == 'EVENT':
            self.history.append((reply, None))
            self.history.extend((t, None) for t in trail)
            self.send(wire.frame(v, -1, wire.OP_EVENT, wire.event_status('UP', '10.0.0.7')) + more, reply)
            return
        p = [p for p in self.srv.pending if not p.answered][0]
        p.answered = True
        self.srv.pending.remove(p)
        self.history.append((reply, p.req['op']))
        self.history.extend((t, None) for t in trail)
        if reply in SUPS:
            op, body = wire.OP_SUPPORTED, wire.supported({'CQL_VERSION': ['3.4.5'], 'COMPRESSION': SUPS[reply]})
            if p.req['op'] == 'OPTIONS':
                st['sup'] = SUPS[reply]
        elif reply == 'READY':
            op, body = wire.OP_READY, b''
        elif reply == 'AUTHENTICATE':
            op, body = wire.OP_AUTHENTICATE, wire.w_string('org.apache.cassandra.auth.PasswordAuthenticator')
        elif reply == 'CHALLENGE':
            op, body = wire.OP_AUTH_CHALLENGE, wire.w_bytes(b'PLAIN-START')
        elif reply == 'CHALLENGE_BAD':
            op, body = wire.OP_AUTH_CHALLENGE, wire.w_bytes(b'?')
        elif reply == 'AUTH_SUCCESS':
            op, body = wire.OP_AUTH_SUCCESS, wire.w_bytes(None)
        elif reply == 'ERR_BADCRED':
            op, body = wire.OP_ERROR, wire.error(wire.ERR_BAD_CREDENTIALS, 'Provided username user and/or password are incorrect')
        elif reply == 'ERR_SERVER':
            op, body = wire.OP_ERROR, wire.error(wire.ERR_SERVER, 'java.lang.NullPointerException')
        elif reply == 'ERR_PROTO':
            op, body = wire.OP_ERROR, wire.error(wire.ERR_PROTOCOL, 'Unexpected message')
        elif reply == 'GARBAGE':
            op, body = wire.OP_RESULT, b'\x00\x00'
        else:
            raise HarnessError(reply)
        data = wire.frame(v, p.stream, op, body) + more
        accepting = p.req['op'] == 'STARTUP' and reply in ('READY', 'AUTHENTICATE') and st['accepted_at'] is None
        if accepting:
            # this reply itself still travels unframed; everything after it is framed on v5/v6
            st['accepted_at'] = len(st['out'])
            st['startup'] = p.req
            self.send(data, reply)
            if wire.uses_segments(v):
                st['seg'] = 'lz4' if p.req.get('options', {}).get('COMPRESSION') == 'lz4' else 'plain'
            # note: the driver may already have pushed its AUTH_RESPONSE from inside feed()
        else:
            self.send(data, reply)

    def send(self, frame_bytes, reply):
        from vt.world import wire
        st = self.conn.server_state
        if st['seg'] == 'plain':
            frame_bytes = wire.segments_for(frame_bytes)
        elif st['seg'] == 'lz4':
            frame_bytes = wire.segments_for_lz4(frame_bytes, connlib.lz4_block_compress)
        if not (self.conn.is_closed or self.conn.is_defunct):
            self.delivered.append(reply)
        self.conn.feed(frame_bytes)


def local_algorithms():
    import cassandra.connection as cc
    return set(cc.locally_supported_compressions.keys())


def case_of(run, seq, extra=None):
    case = {'version': run.version, 'auth': run.auth, 'compression': run.compression, 'local': list(run.local), 'replies': list(seq)}
    case.update(extra or {})
    return case


def judge(run, part, cfg, seq, extra=None, layer=''):
    """all clauses, evaluated in the state reached by seq (layer 'sched/': at the end of one schedule of the schedule layer;
    extra: what replay() needs besides the configuration and the replies)"""
    from cassandra import AuthenticationFailed
    conn, st = run.conn, run.conn.server_state
    v = run.version
    case = case_of(run, seq, extra)
    cfgs = 'v%s' % VNAMES.get(v, v)

    def viol(fp, what):
        part.violation(fp.replace('C47/', 'C47/' + layer, 1), '%s; case %r' % (what, case), case)

    hist = run.history
    snap = run.snapshot
    got_ok = any(r in ('READY', 'AUTH_SUCCESS') for r in run.delivered)
    # (R) Connection.factory returns the connection only after READY / AUTH_SUCCESS, and then it is usable
    if run.returned is not None:
        at_return = run.delivered if run.delivered_at_return is None else run.delivered_at_return
        if not any(r in ('READY', 'AUTH_SUCCESS') for r in at_return):
            viol('C47/ready-without-READY/after=%s' % (at_return[-1] if at_return else 'nothing'),
                 'Connection.factory returned the connection although the server had not sent READY or AUTH_SUCCESS by then; '
                 'is_closed=%r is_defunct=%r last_error=%r' % (conn.is_closed, conn.is_defunct, conn.last_error))
        elif conn.is_closed or conn.is_defunct:
            viol('C47/ready-but-closed', 'Connection.factory returned a closed/defunct connection')
    # (E) connected_event set without error only after READY / AUTH_SUCCESS (whatever the authenticator answered to a challenge)
    if snap['event'] and not run.failed() and not got_ok:
        viol('C47/connected_event-without-READY/after=%s' % (hist[-1][0] if hist else 'nothing'),
             'connected_event is set on an open connection without error (last_error=%r) although the server never sent READY or '
             'AUTH_SUCCESS; authenticator calls %r' % (snap['last_error'], getattr(run.authn, 'calls', None)))
    # (F) a failed handshake is signalled
    if run.failed() and not snap['event']:
        viol('C47/failure-not-signalled/after=%s' % hist[-1][0], 'connection failed but connected_event is not set '
             '(Connection.factory keeps waiting for the full connect timeout)')
    if not run.failed() and not snap['event'] and not snap['pending']:
        viol('C47/stuck/after=%s' % (hist[-1][0] if hist else 'nothing'),
             'handshake neither finished nor failed and the driver has no request outstanding')
    # (A) authentication failures <-> AuthenticationFailed, judged on what Connection.factory raised
    # on the first fatal cause: whatever happens to the dead connection afterwards does not change why the handshake failed
    if run.failed() and run.exc is not None and run.fatal is not None:
        last, qop = hist[run.fatal]
        is_auth = isinstance(run.exc, AuthenticationFailed)
        authq = qop in ('AUTH_RESPONSE', 'CREDENTIALS')
        if (last == 'AUTHENTICATE' and run.auth == 'none' and qop == 'STARTUP') or (last == 'ERR_BADCRED' and authq):
            want = True
        elif (last in ('ERR_SERVER', 'ERR_PROTO', 'CHALLENGE_BAD', 'CHALLENGE') and authq) or last == 'ERR_BADCRED' or \
                (last == 'AUTHENTICATE' and run.auth == 'dict' and v > 1):
            want = None       # not pinned down by the statement
        else:
            want = False
        after = '/then-' + '-'.join(h[0] for h in hist[run.fatal + 1:]) if len(hist) > run.fatal + 1 else ''
        if want is True and not is_auth:
            viol('C47/auth-failure-not-AuthenticationFailed/%s-to-%s%s' % (last, qop, after), 'factory raised %r' % (run.exc,))
        if want is False and is_auth:
            viol('C47/AuthenticationFailed-for-non-auth-failure/%s-to-%s%s' % (last, qop, after), 'factory raised %r' % (run.exc,))
    # (C) + (S) everything the driver pushed
    from vt.world import wire
    acc = st['accepted_at']
    local = set(run.local)
    startup = None
    for rec in st['out']:
        before = acc is None or rec['index'] < acc
        for fr in rec['frames']:
            if fr.get('op') == 'STARTUP' and startup is None:
                startup = fr
        if rec['form'] == 'garbage':
            viol('C47/outgoing-unreadable/%s/%s' % ('before-accept' if before else 'after-accept', cfgs),
                 'push #%d (%d bytes) is neither a frame nor v5 segments' % (rec['index'], rec['n']))
            continue
        seg = rec['form'].startswith('segments')
        want_seg = (not before) and wire.uses_segments(v)
        if seg != want_seg:
            viol('C47/segments/%s/%s/%s' % ('unexpected' if seg else 'missing', 'before-accept' if before else 'after-accept', cfgs),
                 'push #%d has form %s' % (rec['index'], rec['form']))
        elif seg:
            alg = (startup or {}).get('options', {}).get('COMPRESSION')
            if (rec['form'] == 'segments-lz4') != (alg == 'lz4'):
                viol('C47/segments/wrong-form/%s' % cfgs, 'push #%d has form %s, STARTUP COMPRESSION=%r' % (rec['index'], rec['form'], alg))
        for fr in rec['frames']:
            if fr.get('version') != v:
                viol('C47/outgoing-version/%s' % cfgs, 'frame %r' % (fr,))
            if fr.get('compressed'):
                alg = (startup or {}).get('options', {}).get('COMPRESSION')
                if before:
                    viol('C47/compressed-before-accept/%s/%s' % (fr.get('op'), cfgs), 'frame %s pushed compressed before the server '
                         'accepted STARTUP' % fr.get('op'))
                elif alg is None:
                    viol('C47/compressed-without-negotiation/%s' % cfgs, 'frame %s compressed, STARTUP had no COMPRESSION' % fr.get('op'))
                elif fr.get('algorithm') != alg:
                    viol('C47/compressed-with-other-algorithm/%s' % cfgs, 'frame %s: %s, negotiated %s' % (fr.get('op'), fr.get('algorithm'), alg))
            if fr.get('parse_error'):
                viol('C47/outgoing-frame-unparseable/%s/%s' % (fr.get('op'), cfgs), fr['parse_error'])
    if startup is not None:
        alg = startup.get('options', {}).get('COMPRESSION')
        if alg is not None:
            sup = st['sup'] or []
            if alg not in sup or alg not in local or run.compression is False or \
                    (isinstance(run.compression, str) and run.compression != alg):
                viol('C47/startup-compression-not-common/%s/%s' % (alg, cfgs),
                     'STARTUP asks for %r; server offered %r, locally available %r, setting %r' % (alg, sup, sorted(local), run.compression))


def canon(run):
    conn, st, snap = run.conn, run.conn.server_state, run.snapshot
    return (run.version, run.auth, run.compression, run.local, snap['closed'], snap['defunct'], snap['event'],
            type(snap['last_error']).__name__, snap['pending'], bool(conn.compressor),
            conn._is_checksumming_enabled, st['accepted_at'] is not None, st['seg'], tuple(st['sup'] or ()))


def play(cfg, seq):
    return Run(cfg, seq)


PROBE_QUERY = 'SELECT * FROM ks.tbl WHERE k = 0 AND c = 0 ' * 4


def send_probe(run):
    """what the owner of a connection reported ready does first: one request"""
    from cassandra.protocol import QueryMessage
    conn = run.conn
    with conn.lock:
        rid = conn.get_request_id()
    sent = {'npush': len(conn.server_state['out']), 'exc': None}
    try:
        conn.send_msg(QueryMessage(PROBE_QUERY, 1), rid, [].append)
    except Exception as e:
        sent['exc'] = e
    return sent


def judge_probe(run, part, cfg, seq, sent, extra=None, layer=''):
    """a ready connection really works: the request went out in the negotiated form"""
    conn = run.conn
    case = dict(case_of(run, seq, extra), probe=True)
    cfgs = 'v%s' % VNAMES.get(run.version, run.version)
    npush = sent['npush']

    def viol(fp, what):
        part.violation(fp.replace('C47/', 'C47/' + layer, 1), '%s; case %r' % (what, case), case)
    if sent['exc'] is not None:
        viol('C47/ready-but-cannot-send/%s/%s' % (type(sent['exc']).__name__, cfgs),
             'the connection was reported ready but sending a request on it raises %r' % (sent['exc'],))
        return
    if len(conn.server_state['out']) != npush + 1:
        viol('C47/probe-not-pushed/%s' % cfgs, 'send_msg on the ready connection pushed %d units' % (len(conn.server_state['out']) - npush))
        return
    last = conn.server_state['out'][-1]
    fr = last['frames'][-1] if last['frames'] else {}
    if fr.get('op') != 'QUERY' or fr.get('query') != PROBE_QUERY:
        viol('C47/probe-unreadable/%s' % cfgs, 'probe QUERY arrived as %r (push form %s)' % (fr, last['form']))
    comp = fr.get('compressed') or last['form'] == 'segments-lz4'
    part.outcome((layer + 'ready', run.version, run.auth, repr(run.compression), '+'.join(run.local) or 'none',
                  'probe-compressed' if comp else 'probe-plain', fr.get('algorithm', '-'), last['form']))
    if comp:
        part.count('compressed_probes')


def probe(run, part, cfg, seq):
    judge_probe(run, part, cfg, seq, send_probe(run))


def token_form(t):
    return 'null' if t is None else ('empty' if not t else 'bytes')


def exchange(run, part, seq):
    """evidence of a scripted authenticator's exchange: what it returned, what the server read in the AUTH_RESPONSE frames, the end"""
    calls = run.authn.calls
    returned = [token_form(c[-1]) for c in calls if c[0] in ('initial', 'challenge')]
    sent = [token_form(fr.get('token')) for rec in run.conn.server_state['out'] for fr in rec['frames'] if fr.get('op') == 'AUTH_RESPONSE']
    nch = sum(1 for c in calls if c[0] == 'challenge')
    part.outcome(('exchange', run.auth, '>'.join(returned) or '-', '>'.join(sent) or '-', 'challenges=%d' % nch,
                  'success-callback' if any(c[0] == 'success' for c in calls) else '-',
                  'ready' if run.returned is not None else ('failed' if run.failed() else 'waiting')))
    if nch:
        part.count('challenge_exchanges')
    if nch >= 2:
        part.count('two_challenge_exchanges')


def explore_cfg(item):
    connlib.quiet_driver_logs()
    cfg, maxlen, maxafter = item
    part = Part()
    seen = set()
    expanded = set()           # (canonical failed state, fatal reply, request it answered) whose aftermath has been explored
    replies = SCRIPTED_REPLIES if cfg[1] in SCRIPTED else REPLIES
    nready = 0
    stack = [((), 0)]          # (sequence, number of its trailing elements that are aftermath of a failure)
    while stack:
        seq, nafter = stack.pop()
        run = play(cfg, seq)
        try:
            judge(run, part, cfg, seq)
            term = run.terminal()
            seen.add(canon(run))
            if seq:
                part.count('transitions')
            if run.returned is not None and not (run.conn.is_closed or run.conn.is_defunct):
                nready += 1
                probe(run, part, cfg, seq)
                judge(run, part, cfg, seq + ('<probe>',))
            if nafter:
                if not run.failed() or run.fatal != len(run.history) - 1 - nafter:
                    raise HarnessError('aftermath %r of %r: connection not failed at the reply before it' % (seq[-nafter:], seq))
                part.count('executions')
                part.count('evaluations')
                part.count('aftermath_executions')
                part.outcome(('aftermath', run.history[run.fatal][0], '+'.join(seq[-nafter:]), type(run.exc).__name__))
                part.count('distinct_nontrivial')
            elif term or len(seq) >= maxlen:
                part.count('executions')
                part.count('evaluations')
                if run.returned is None:
                    part.outcome(('end', 'failed' if run.failed() else 'open', type(run.exc).__name__))
                if run.auth in SCRIPTED:
                    exchange(run, part, seq)
                if any(r in ('CHALLENGE', 'AUTHENTICATE', 'EVENT') for r in seq):
                    part.count('distinct_nontrivial')      # every (configuration, sequence) is visited once
                if len(seq) >= 3:
                    part.sample({'version': cfg[0], 'auth': cfg[1], 'compression': cfg[2], 'local': list(cfg[3]), 'replies': list(seq),
                                 'factory': 'returned' if run.returned is not None else 'raised %r' % (run.exc,)}, limit=1)
            if run.failed() and run.fatal is not None and nafter < maxafter:
                # the dead connection's aftermath: what the same read still holds, a socket error, the peer closing.  Connections
                # that failed in the same canonical state on the same reply differ only in stream ids: one of them is expanded
                key = (canon(run), run.history[run.fatal], seq[len(seq) - nafter:])
                if key not in expanded:
                    expanded.add(key)
                    frame_last = seq[-1] not in ('DISCONNECT', 'SOCKERR')
                    for r in reversed(AFTERMATH):
                        if r in SAME_READ and not frame_last:
                            continue
                        stack.append((seq + (r,), nafter + 1))
            if not term and len(seq) < maxlen and not nafter:
                has_pending = bool(run.pending())
                for r in reversed(replies):
                    if r in OOB or has_pending:
                        stack.append((seq + (r,), 0))
        finally:
            run.close()
    part.count('states', len(seen))
    part.count('ready_states', nready)
    if nready == 0:
        raise HarnessError('vacuous: no reply sequence made configuration %r ready' % (cfg,))
    if maxafter and not expanded:
        raise HarnessError('vacuous: no failed handshake of configuration %r had its aftermath explored' % (cfg,))
    if cfg[1] in SCRIPTED and cfg[0] >= 2 and maxlen >= 5 and not part.violations and \
            not part.counters.get('two_challenge_exchanges'):
        raise HarnessError('vacuous: the scripted authenticator of configuration %r never answered two challenges' % (cfg,))
    return part


# ====================================================================== schedule layer (engine S)
SCHED_FOCUS = ('_handle_options_response', '_handle_startup_response', '_handle_auth_response', '_enable_compression',
               '_enable_checksumming', 'send_msg', 'defunct', 'factory')
_FOCUS = []


def sched_focus():
    """code objects whose source lines are scheduling points: the handshake response handlers and what they call to switch
    compression / segment framing on (reactor side), Connection.factory and send_msg (connecting side), defunct (both)"""
    import cassandra.connection as cn
    out = []
    for n in SCHED_FOCUS:
        f = getattr(cn.Connection, n)
        f = getattr(f, '__func__', f)
        f = getattr(f, '__wrapped__', f)          # defunct_on_error uses functools.wraps
        out.append(f.__code__)
    return out


@sched.gc_quiet
def sched_harness(params, prefix, part):
    """One schedule of: a connecting thread (the real Connection.factory, then one request on the connection it returned) and a
    reactor thread that delivers the replies of params['replies'], one per turn, as soon as the node holds a request."""
    if not _FOCUS:
        _FOCUS.extend(sched_focus())
    cfg = (params['version'], params['auth'], params['compression'], tuple(params['local']))
    seq = tuple(params['replies'])
    run = Run(cfg, seq, connect=False)
    try:
        s = sched.Scheduler(prefix, focus=_FOCUS, horizon=20000, clock=run.w.clock)
        info = {'reactor_done': False, 'sent': None, 'overlap': False}

        def connecting():
            run.connect()
            if run.returned is not None:
                run.conn = run.returned
                info['overlap'] = not info['reactor_done']
                info['sent'] = send_probe(run)

        def has_work():
            if not run.w.conns:
                return False
            c = run.w.conns[0]
            return not run.queue or c.is_closed or c.is_defunct or run.queue[0] in OOB or any(not p.answered for p in run.srv.pending)

        def reactor():
            s.current.waiting = None
            try:
                while run.queue:
                    if not has_work():
                        s.block(has_work, None, 'reactor idle')
                    run.conn = run.w.conns[0]
                    if run.is_failed():
                        break
                    run.step()
            finally:
                info['reactor_done'] = True

        s.spawn(connecting, 'connecting')
        s.spawn(reactor, 'reactor').waiting = has_work       # born waiting: nothing to deliver before the first request
        s.run()
        extra = {'prefix': s.choices()}
        tag = '%s/%s' % ('v%s' % VNAMES.get(run.version, run.version), '-'.join(seq))
        part.count('sched_executions')
        part.count('executions')
        part.count('evaluations')
        part.count('sched_steps', s.steps)
        if s.failure:
            part.violation('C47/sched/%s/%s' % (s.failure[0], tag), '%s; case %r' % (s.failure[1], case_of(run, seq, extra)),
                           case_of(run, seq, extra))
            return s
        for t in s.threads:
            if t.exc is not None:
                raise HarnessError('%r in virtual thread %s of case %r\n%s' % (t.exc, t.name, case_of(run, seq, extra), getattr(t, 'exc_tb', '')))
        run.finish(strict=False)
        judge(run, part, cfg, seq, extra, 'sched/')
        if info['sent'] is not None:
            judge_probe(run, part, cfg, seq, info['sent'], extra, 'sched/')
        if info['overlap']:
            part.count('sched_probe_overlaps_handler')
        part.outcome(('sched', tag, run.auth, repr(run.compression), 'returned' if run.returned is not None else type(run.exc).__name__,
                      'request sent while the reactor was still in the handler' if info['overlap'] else '-'))
        if any(p.chosen for p in s.trace):
            part.count('distinct_nontrivial')          # every (scenario, schedule) is visited once
            if info['overlap']:
                part.sample(dict(case_of(run, seq, extra), layer='sched', request_sent_inside_handler=True), limit=1)
        s.overlap = info['overlap']
        return s
    finally:
        run.close()


def sched_cases(thorough):
    """(scenario, preemption bound): versions x {no compression, lz4 negotiated} x reply scripts (READY; AUTHENTICATE +
    AUTH_SUCCESS; bad credentials; authentication required but no authenticator configured; thorough: more)"""
    scripts = [('none', ('READY',)), ('sasl', ('AUTHENTICATE', 'AUTH_SUCCESS')), ('sasl', ('AUTHENTICATE', 'ERR_BADCRED')),
               ('none', ('AUTHENTICATE',))]
    versions = [3, 4, 5, 6, 0x41, 0x42]
    if thorough:
        scripts += [('sasl', ('AUTHENTICATE', 'CHALLENGE', 'AUTH_SUCCESS')), ('sasl', ('READY',)), ('sasl', ('AUTHENTICATE', 'SOCKERR')),
                    ('none', ('ERR_SERVER',))]
        versions = [2, 3, 4, 5, 6, 0x41, 0x42]
    comps = ((False, 'SUP[]'), (True, 'SUP[lz4,snappy]'))
    # a scripted authenticator that answers the challenge with None, then the server's verdict (quick: v4 / v5; thorough: all)
    challenge_none = [('auth:B/N/N', ('AUTHENTICATE', 'CHALLENGE', 'AUTH_SUCCESS'))]
    if thorough:
        challenge_none += [('auth:N/E/N', ('AUTHENTICATE', 'CHALLENGE', 'CHALLENGE', 'ERR_BADCRED'))]
    out = []
    for v in versions:
        for comp, sup in comps:
            for auth, tail in scripts + (challenge_none if thorough or v in (4, 5) else []):
                out.append(({'version': v, 'auth': auth, 'compression': comp, 'local': ['lz4', 'snappy'], 'replies': [sup] + list(tail)},
                            2 if thorough and v in (4, 5) else 1))         # thorough: two preemptions for v4 / v5
    if thorough:
        for comp, sup in comps:
            out.append(({'version': 1, 'auth': 'dict', 'compression': comp, 'local': ['lz4', 'snappy'],
                         'replies': [sup, 'AUTHENTICATE', 'READY']}, 1))
    return out


def sched_scenario(item):
    """every schedule of one scenario with at most `bound` preemptions (all non-preemptive orders included)"""
    connlib.quiet_driver_logs()
    params, bound = item
    part = Part()
    frontier = [[]]
    overlaps = 0
    expect_ready = params['replies'][-1] in ('READY', 'AUTH_SUCCESS')
    while frontier:
        nxt = []
        for prefix in frontier:
            s = sched_harness(params, prefix, part)
            overlaps += bool(getattr(s, 'overlap', False))
            nxt.extend(k for k, _ in sched.children(s.trace, len(prefix), bound))
        frontier = nxt
    if expect_ready and bound >= 1 and not overlaps and not part.violations:
        raise HarnessError('vacuous: in no schedule of %r did the connecting thread send its request before the reactor thread had '
                           'left the handshake handler' % (params,))
    return part


def run_sched(ctx):
    jobs = ctx.rotate(sched_cases(ctx.thorough))
    for part in ctx.pmap(sched_scenario, jobs):
        ctx.merge(part)
    ctx.cov.setdefault('harnesses', {})['c47-sched'] = {'scenarios': len(jobs), 'preemption_bounds': sorted(set(b for _, b in jobs)),
                                                         'executions': ctx.counters.get('sched_executions', 0), 'complete': True}
    return jobs


def run(ctx):
    connlib.quiet_driver_logs()
    if local_algorithms() != {'lz4'}:
        raise HarnessError('expected exactly the lz4 stub to be importable by the driver, got %r' % (local_algorithms(),))
    selftest()
    maxlen = 5 if ctx.quick else 7
    maxafter = 1 if ctx.quick else 2
    cfgs = [(v, a, c, l) for v in VERSIONS for a in AUTHS for c, l in COMP_LOCAL]
    cfgs += [(v, a, c, l) for v in VERSIONS for a in SCRIPTED for c, l in SCRIPTED_COMP_LOCAL]
    connlib.before_fork()
    for part in ctx.pmap(explore_cfg, [(c, maxlen, maxafter) for c in ctx.rotate(cfgs)]):
        ctx.merge(part)
    jobs = run_sched(ctx)
    ctx.cov['rule'] = ('%d configurations (versions %s x authenticators %s x (compression setting, locally installed algorithms) %s, '
                       'plus versions x %d scripted authenticators auth:I/C1/C2 (I, C1, C2 in bytes / empty / None) x %s) '
                       'x every reply sequence of length <= %d '
                       'over %d reply kinds (%d for the scripted authenticators; a sequence ends early when the connection is ready or '
                       'failed; %d maximal sequences in which a scripted authenticator answered a challenge, %d two or more), plus %d aftermath executions: '
                       'every sequence of <= %d events of %s appended to one failed handshake per distinct (configuration, canonical '
                       'state of the failed connection, fatal reply, request it answered); plus %d schedule-layer executions = every '
                       'schedule with <= 1 preemption (%d scenarios, <= 2 for %d of them) (connecting thread vs reactor thread; %d executions send the first '
                       'request while the reactor thread is still inside the handshake handler); states = distinct '
                       '(configuration, connection flags, outstanding handshake requests, negotiated forms) of the sequential layer; '
                       'sched_steps = scheduling points passed; non-trivial = '
                       'maximal sequences containing an AUTHENTICATE / AUTH_CHALLENGE / EVENT, aftermath executions, schedules with at '
                       'least one non-default choice, and ready connections whose probe '
                       'request went out compressed' % (len(cfgs), list(VERSIONS), list(AUTHS), [(c, '+'.join(l) or 'none') for c, l in COMP_LOCAL],
                                                        len(SCRIPTED), [(c, '+'.join(l)) for c, l in SCRIPTED_COMP_LOCAL], maxlen, len(REPLIES),
                                                        len(SCRIPTED_REPLIES), ctx.counters.get('challenge_exchanges', 0),
                                                        ctx.counters.get('two_challenge_exchanges', 0),
                                                        ctx.counters.get('aftermath_executions', 0), maxafter, list(AFTERMATH),
                                                        ctx.counters.get('sched_executions', 0), len(jobs), len([1 for _, b in jobs if b == 2]),
                                                        ctx.counters.get('sched_probe_overlaps_handler', 0)))
    ctx.cov['exhaustive'] = True
    ctx.assume('replies answer the oldest outstanding handshake request with its stream id; replies on unknown stream ids are not generated')
    ctx.assume('server replies after STARTUP acceptance on v<=4/DSE are sent uncompressed (allowed by the protocol)')
    ctx.assume('the locally installed compression libraries are represented by the entries of '
               'cassandra.connection.locally_supported_compressions (lz4: stub package; snappy: literal-only stand-in) and '
               'segment_codec_lz4 (None when lz4 is not installed)')
    ctx.assume('aftermath: after the first fatal reply / event nothing is read from the socket any more (every reactor stops reading a '
               'closed connection), so the only later inputs are the rest of the read that carried the fatal reply, a socket error '
               'reported by the reactor and the peer closing; they happen before the thread waiting in Connection.factory runs again')
    ctx.assume('schedule layer: line-level atomicity of CPython statements; scheduling points = every source line of %s and every '
               'virtual lock / event operation; the reactor delivers one reply per turn; the connect timeout does not expire while '
               'a thread can run' % (list(SCHED_FOCUS),))
    ctx.assume('errors in reply to AUTH_RESPONSE/CREDENTIALS other than bad-credentials, a bad-credentials error to OPTIONS/STARTUP, '
               'an authenticator rejecting a challenge, and a v1 credentials dict used on v2+ may surface as either error class')


def replay(ctx, data):
    connlib.quiet_driver_logs()
    part = Part()
    cfg = (data['version'], data['auth'], data['compression'], tuple(data.get('local', ('lz4',))))
    seq = tuple(r for r in data['replies'] if r != '<probe>')
    if 'prefix' in data:
        params = {'version': data['version'], 'auth': data['auth'], 'compression': data['compression'],
                  'local': list(data.get('local', ('lz4',))), 'replies': list(seq)}
        sched_harness(params, data['prefix'], part)
        for fp, what, _ in part.violations:
            print(fp, '::', what[:400])
        return bool(part.violations)
    first = next((i for i, r in enumerate(seq) if r in SAME_READ), None)
    if first is not None:
        # bytes "in the same read" are defined only after the reply that killed the connection
        head = play(cfg, seq[:first])
        try:
            if not (first and head.failed() and head.fatal == len(head.history) - 1):
                raise HarnessError('%r: same-read continuation of a reply that is not fatal' % (seq,))
        finally:
            head.close()
    run = play(cfg, seq)
    try:
        judge(run, part, cfg, seq)
        if run.returned is not None and not (run.conn.is_closed or run.conn.is_defunct):
            probe(run, part, cfg, seq)
            judge(run, part, cfg, seq + ('<probe>',))
    finally:
        run.close()
    for fp, what, _ in part.violations:
        print(fp, '::', what[:400])
    return bool(part.violations)
