"""C43 Schema agreement is reported only when all live nodes agree.

Every script of schema-version polls (what system.local / system.peers show at the 1st, 2nd, ...
poll; a poll may also stay unanswered) x peer states (up / marked down / unknown) x wait budget is
served by the virtual node to a real Cluster; ControlConnection.wait_for_schema_agreement() is
called directly and through a DDL request (RESULT schema_change -> refresh_schema_and_set_result
-> ResponseFuture.is_schema_agreed).  The verdict, the polls made and the virtual time spent are
judged by vt/spec/schemaagree.py.
"""
import itertools
import uuid

from vt import reqworld   # noqa: F401  imported here so that forked workers inherit the loaded driver
from vt.world import vworld
from vt.world.vworld import World, VServer, HostSpec
from vt.world import wire
from vt.core import Part, HarnessError
from vt.spec import schemaagree

META = {
    'level': 'model_checking',
    'engine': 'E',
    'technique': 'exhaustive enumeration of poll scripts x peer states x wait budgets on the real ControlConnection/ResponseFuture over the virtual node and clock, reference verdict',
    'text': 'Poll scripts of length 1-3 (quick) / 1-4 (thorough) over snapshots (control-node version, two peer versions in {v1, v2, null}, optionally a row '
            'of a peer the client does not know, or no answer at all), the last snapshot repeating; each peer up / marked down / unknown; '
            'max_schema_agreement_wait in {one poll, about three, about four polls}; polling through the control connection or another node. '
            'Also scripts of 0-2 answered or unanswered polls followed by a poll that fails (the node closes the connection while the reads are '
            'outstanding; the socket fails; the node answers the system.peers read with a server error), and scripts with an unanswered poll under a '
            'poll timeout (control_connection_timeout) shorter than the budget, so that polling goes on after it; all of these for the direct call '
            'via either node and for the DDL path. '
            'Direct call: True only if the last poll made shows one version among the control node and the known peers not marked down, no poll after '
            'an agreeing one, False only if no poll agreed and the virtual time spent reached the budget; a wait whose last poll failed may raise or '
            'return False, never True.  DDL path (schema metadata enabled and disabled): ResponseFuture.is_schema_agreed equals that verdict over '
            'the polls made until the request completed (False after a failed poll) and the request completes; the flag is read three times: after '
            'completion, inside a callback attached with add_callbacks() before completion (the moment the result is delivered), and at the moment '
            'the completion event is set (what a thread returning from result() at once sees); all three must show the verdict '
            '(fingerprints .../at-delivery/<observer>/...).',
    'note': 'Peer states are set on the Host objects (is_up) after a normal connect.  A budget <= 0 is the documented bypass and is only recorded, '
            'not judged.  With schema metadata enabled the virtual node answers every system_schema query with an empty result.  A connection is lost the '
            'way the reactors report it: close() for an orderly close by the peer, defunct(OSError) for a socket error, delivered in the place of '
            'the response.  After a failed wait the driver re-submits a schema refresh which polls again: those later polls are served but are not '
            'part of the judged request.',
    'design_ref': 'C43',
}

V = {'1': uuid.UUID(int=1), '2': uuid.UUID(int=2), '-': None}
STATES = {'up': True, 'down': False, 'unknown': None}
QUICK_LETTERS = ['111', '112', '121', '1-1', '1-2', '1--', '222', '211', '111+u2', 's']
BUDGETS = [0.1, 0.5, 0.7]
# a poll that fails: 'x' the node closes the connection while both reads are outstanding (ConnectionShutdown), 'e' the socket
# fails (defunct(OSError)), 'r' the node answers the system.peers read with a server error
FAULTS = {'x': 'closed', 'e': 'socket error', 'r': 'error response'}
OBSERVERS = {'callback': 'read inside a callback that was attached with add_callbacks() before the request completed',
             'result-waiter': 'read at the moment the completion event is set, i.e. by a thread whose result() returns at once'}
CCT_DEFAULT = 2.0        # Cluster.control_connection_timeout: the per-poll timeout (an unanswered poll costs min(this, rest of the budget))
CCT_SHORT = 0.25         # shorter than the budgets: an unanswered poll is followed by further polls


class _Lose(object):
    """Queued in the server's outbox like a response: when its turn comes the reactor sees the connection fail."""
    def __init__(self, conn, how):
        self.conn, self.how = conn, how

    def feed(self, data):
        if self.how == 'x':
            self.conn.close()
        else:
            self.conn.defunct(OSError(104, 'Connection reset by peer'))


def all_letters():
    out = [l + a + b for l in '12' for a in '12-' for b in '12-']
    out += ['111+u2', '122+u1', '1-1+u2', 's']
    return out


def addr(i):
    return '10.0.0.%d' % i


def parse_letter(letter):
    """-> (local, p_a, p_b, unknown-peer version or None)"""
    base, _, extra = letter.partition('+u')
    return base[0], base[1], base[2], (extra or None)


class Script(object):
    """Serves the scripted schema versions; everything else falls through to the auto server."""

    def __init__(self, server, seq, poll_host):
        self.server = server
        self.seq = seq
        self.poll_host = poll_host
        self.others = [i for i in (1, 2, 3) if i != poll_host]
        self.k = 0                 # polls started so far
        self.cur = None            # letter of the poll being answered
        self.in_poll = None
        self.polls = []            # letter of every poll the client started
        self.active = False

    @staticmethod
    def classify(req):
        if req.get('op') != 'QUERY':
            return None
        q = ' '.join(req.get('query', '').split()).lower()
        if q.startswith('select schema_version from system.local'):
            return 'local'
        if 'schema_version from system.peers' in q and not q.startswith('select *') and 'data_center' not in q:
            return 'peers'
        if q.startswith('create table'):
            return 'ddl'
        if ' from system_schema.' in q or ' from system_virtual_schema.' in q:
            return 'schema'
        return None

    def hold(self, conn, req):
        kind = self.classify(req) if self.active else None
        self.in_poll = kind if kind in ('peers', 'local') else None
        if kind == 'peers':
            self.cur = self.seq[min(self.k, len(self.seq) - 1)]
            self.polls.append(self.cur)
            self.k += 1
            if self.cur in ('x', 'e'):
                self.server.outbox.append((_Lose(conn, self.cur), b''))
        return self.in_poll is not None and self.cur in ('s', 'x', 'e')

    def on_request(self, server, conn, stream, req):
        kind = self.classify(req)
        if self.active and kind == 'peers' and self.cur == 'r':
            return wire.OP_ERROR, wire.error(wire.ERR_SERVER, 'java.lang.RuntimeException: scripted failure of the system.peers read')
        if kind == 'ddl':
            return wire.OP_RESULT, wire.result_schema_change('CREATED', 'TABLE', 'ks', 't', req['version'])
        if kind == 'schema':
            return wire.OP_RESULT, wire.result_rows([], [], req['version'])
        return None

    def peer_rows(self, conn):
        me = self.server.host_of(conn)
        rows = []
        if self.in_poll == 'peers' and self.cur not in FAULTS:
            _, pa, pb, unk = parse_letter(self.cur)
            for i, ver in zip(self.others, (pa, pb)):
                r = self.server.hosts[i - 1].peer_row()
                r['schema_version'] = V[ver]
                rows.append(r)
            if unk:
                r = HostSpec('10.0.0.9').peer_row()
                r['schema_version'] = V[unk]
                rows.append(r)
            return rows
        return [h.peer_row() for h in self.server.hosts if h is not me]

    def local_row(self, conn):
        me = self.server.host_of(conn)
        r = me.local_row()
        if self.in_poll == 'local' and self.cur not in FAULTS:
            r['schema_version'] = V[parse_letter(self.cur)[0]]
        return r


def play(mode, seq, states, budget, poll_host, meta, cct=CCT_DEFAULT):
    from cassandra.cluster import ExecutionProfile, EXEC_PROFILE_DEFAULT, ControlConnection
    from cassandra.query import SimpleStatement
    ControlConnection._time = vworld._VTime      # the class keeps its own reference to the time module ("for testing purposes")
    srv = VServer([HostSpec(addr(1)), HostSpec(addr(2)), HostSpec(addr(3))])
    sc = Script(srv, seq, poll_host)
    srv.hold = sc.hold
    srv.on_request = sc.on_request
    srv.peer_rows_override = sc.peer_rows
    srv.local_row_override = sc.local_row
    w = World(srv)
    with w:
        order = [addr(poll_host)] + [addr(i) for i in (1, 2, 3) if i != poll_host]
        lbp = reqworld.FixedOrderPolicy(order=order)
        cluster = w.make_cluster(execution_profiles={EXEC_PROFILE_DEFAULT: ExecutionProfile(load_balancing_policy=lbp, request_timeout=30.0)},
                                 max_schema_agreement_wait=budget, schema_metadata_enabled=meta, control_connection_timeout=cct)
        session = cluster.connect(wait_for_all_pools=True)
        w.settle()
        by = dict((h.address, h) for h in cluster.metadata.all_hosts())
        assert sorted(by) == [addr(1), addr(2), addr(3)], sorted(by)
        for i, s in zip(sc.others, states):
            by[addr(i)].is_up = STATES[s]
        sc.active = True
        t0 = w.clock.now
        out = {'raised': None, 'completed': None, 'polls_at_completion': None}
        try:
            if mode == 'direct':
                conn = None if poll_host == 1 else session._pools[by[addr(poll_host)]]._connection
                out['result'] = cluster.control_connection.wait_for_schema_agreement(connection=conn)
            else:
                f = session.execute_async(SimpleStatement('CREATE TABLE ks.t (k int PRIMARY KEY)'))

                def done(_):
                    # the polls that can have gone into the request's verdict (a schema refresh the driver re-submits
                    # after a failed wait polls again, later)
                    if out['polls_at_completion'] is None:
                        out['polls_at_completion'] = len(sc.polls)
                        out['elapsed_at_completion'] = w.clock.now - t0
                        # observer 1: a callback attached before completion reads the flag while the result is delivered to it
                        out['result_in_callback'] = f.is_schema_agreed
                f.add_callbacks(done, done)
                # observer 2: a thread blocked in result() that runs as soon as the future's completion event is set
                # (the earliest moment at which result() can return) and reads the flag
                ev = f._event
                ev_set = ev.set

                def set_and_look():
                    ev_set()
                    if 'result_at_wakeup' not in out:
                        out['result_at_wakeup'] = f.is_schema_agreed
                ev.set = set_and_look
                w.pump()
                out['completed'] = f._event.is_set()
                out['error'] = repr(f._final_exception) if f._final_exception is not None else None
                out['result'] = f.is_schema_agreed
        except Exception as e:        # noqa
            out['raised'] = '%s: %s' % (type(e).__name__, e)
        out['elapsed'] = w.clock.now - t0
        out['all_polls'] = list(sc.polls)
        if out['polls_at_completion'] is not None:
            out['elapsed'] = out.pop('elapsed_at_completion')
            out['polls'] = out['all_polls'][:out['polls_at_completion']]
        else:
            out['polls'] = list(sc.polls)
        sc.active = False
        cluster.shutdown()
    return out


def run_chunk(cases):
    part = Part()
    for case in cases:
        mode, seq, states, budget, poll_host, meta, cct = case
        part.count('evaluations')
        got = play(mode, seq, states, budget, poll_host, meta, cct)
        data = {'mode': mode, 'seq': list(seq), 'states': list(states), 'budget': budget, 'poll_host': poll_host, 'meta': meta, 'cct': cct}
        verdicts = []
        for letter in got['polls']:
            if letter == 's':
                verdicts.append(None)
                continue
            if letter in FAULTS:
                verdicts.append(schemaagree.FAULT)
                continue
            l, pa, pb, unk = parse_letter(letter)
            peers = [(V[pa], True, STATES[states[0]]), (V[pb], True, STATES[states[1]])]
            if unk:
                peers.append((V[unk], False, None))
            verdicts.append(schemaagree.agreed(V[l], peers))
        part.count('polls_served', len(verdicts))
        faulted = bool(verdicts) and verdicts[-1] == schemaagree.FAULT
        if faulted:
            part.count('waits_ended_by_a_failed_poll')
        if None in verdicts[:-1]:
            part.count('waits_polling_on_after_an_unanswered_poll')
        part.outcome((mode, meta, got.get('result'), len(verdicts), got['raised'] is not None, faulted))
        if len(set(v for v in verdicts if v is not None)) > 1 or None in verdicts or 'down' in states or 'unknown' in states:
            part.mark_nontrivial(repr(case))
        part.sample(dict(data, observed=got, poll_verdicts=verdicts), limit=2)
        ctxt = '[%s, script %r (last repeats), peer states %r, budget %.1f s, poll timeout %.2f s, polling via node %d, schema metadata %s; polls made %r -> agreed? %r]' % (
            mode, list(seq), list(states), budget, cct, poll_host, 'on' if meta else 'off', got['polls'], verdicts)
        where = '%s/%s' % (mode, 'meta-on' if meta else 'meta-off') if mode == 'ddl' else mode
        if got['raised'] and mode == 'direct' and faulted and budget > 0:
            # the wait ended by raising out of the failed poll: it reported nothing
            for clause, text in schemaagree.judge(None, verdicts, budget, got['elapsed']):
                part.violation('C43/%s/%s' % (where, clause), 'wait_for_schema_agreement() raised %s: %s %s' % (got['raised'], text, ctxt), data)
            continue
        if got['raised']:
            part.violation('C43/%s/raised' % where, '%s %s' % (got['raised'], ctxt), data)
            continue
        if mode == 'ddl':
            if not got['completed']:
                part.violation('C43/%s/request-not-completed' % where, 'the DDL request did not complete %s' % ctxt, data)
                continue
            if got['error']:
                part.violation('C43/%s/request-failed' % where, 'the DDL request failed with %s %s' % (got['error'], ctxt), data)
                continue
        if budget <= 0:
            continue
        if mode == 'ddl' and faulted and got['result'] is not True and got['result'] is not False:
            part.violation('C43/%s/verdict-not-bool' % where, 'is_schema_agreed: is %r after a wait that ended in a failed poll %s' % (got['result'], ctxt), data)
            continue
        for clause, text in schemaagree.judge(got['result'], verdicts, budget, got['elapsed']):
            what = 'is_schema_agreed' if mode == 'ddl' else 'wait_for_schema_agreement()'
            part.violation('C43/%s/%s' % (where, clause), '%s: %s %s' % (what, text, ctxt), data)
        if mode == 'ddl':
            # "the result records whether agreement was reached": whoever is handed the result must find the verdict in it
            for observer, key in (('callback', 'result_in_callback'), ('result-waiter', 'result_at_wakeup')):
                if key not in got:
                    raise HarnessError('the DDL request completed but the %s observer never ran: %r' % (observer, got))
                part.count('delivery_observations/%s/%r' % (observer, got[key]))
                if got[key] is not True and got[key] is not False:
                    if faulted:
                        part.violation('C43/%s/at-delivery/%s/verdict-not-bool' % (where, observer),
                                       'is_schema_agreed is %r when the result is delivered (%s) %s' % (got[key], OBSERVERS[observer], ctxt), data)
                        continue
                for clause, text in schemaagree.judge(got[key], verdicts, budget, got['elapsed']):
                    part.violation('C43/%s/at-delivery/%s/%s' % (where, observer, clause),
                                   'is_schema_agreed read when the result is delivered (%s; it is %r after completion): %s %s'
                                   % (OBSERVERS[observer], got['result'], text, ctxt), data)
    return part


def fault_scripts(prefix_letters, maxlen):
    """answered / unanswered polls, then a poll that fails"""
    return [pre + (f,) for n in range(maxlen + 1) for pre in itertools.product(prefix_letters, repeat=n) for f in sorted(FAULTS)]


def fault_cases(seqs, st, ddl_hosts):
    out = []
    for seq in seqs:
        # an unanswered poll uses up min(poll timeout, rest of the budget): only a short poll timeout lets the script go on after it
        b, cct = (0.7, CCT_SHORT) if 's' in seq else (0.5, CCT_DEFAULT)
        for s in st:
            for ph in (1, 2):
                out.append(('direct', seq, s, b, ph, False, cct))
            for meta in (False, True):
                for ph in ddl_hosts:
                    out.append(('ddl', seq, s, b, ph, meta, cct))
    return out


def cases(ctx):
    out = []
    st = list(itertools.product(['up', 'down', 'unknown'], repeat=2))
    if ctx.quick:
        letters = QUICK_LETTERS
        seqs = [s for n in (1, 2) for s in itertools.product(letters, repeat=n)]
        seqs += list(itertools.product(['111', '112', '1-2', '211', '111+u2', 's'], repeat=3))
        for seq in seqs:
            for s in st:
                for b in BUDGETS:
                    if len(seq) == 3 and b == 0.1:
                        continue      # a one-poll budget never reaches the third snapshot
                    out.append(('direct', seq, s, b, 1, False))
        short = [s for n in (1, 2) for s in itertools.product(['111', '112', '1-2', '211', 's'], repeat=n)]
        for seq in short:
            for s in st:
                out.append(('direct', seq, s, 0.5, 2, False))
                for meta in (False, True):
                    for b in (0.1, 0.5):
                        out.append(('ddl', seq, s, b, 1, meta))
                out.append(('ddl', seq, s, 0.5, 2, True))
        for meta in (False, True):
            out.append(('ddl', ('112',), ('up', 'up'), 0, 1, meta))
            out.append(('direct', ('112',), ('up', 'up'), 0, 1, meta))
        # polls that fail, after 0-2 answered / unanswered polls
        out += fault_cases(fault_scripts(['111', '112', '1-2', 's'], 2), st, (1,))
        out += [('ddl', seq, s, 0.5, 2, True, CCT_DEFAULT) for seq in fault_scripts(['112'], 2) for s in st]
        # an unanswered poll that is followed by further polls (poll timeout shorter than the budget)
        for seq in short + list(itertools.product(['111', '112', 's'], repeat=3)):
            if 's' not in seq:
                continue
            for s in st:
                out.append(('direct', seq, s, 0.7, 1, False, CCT_SHORT))
                for meta in (False, True):
                    out.append(('ddl', seq, s, 0.7, 1, meta, CCT_SHORT))
    else:
        letters = all_letters()
        seqs = [s for n in (1, 2, 3) for s in itertools.product(letters, repeat=n)]
        seqs += list(itertools.product(QUICK_LETTERS, repeat=4))
        for seq in seqs:
            for s in st:
                for b in BUDGETS:
                    if len(seq) >= 3 and b == 0.1 or len(seq) == 4 and b == 0.5:
                        continue
                    out.append(('direct', seq, s, b, 1, False))
        short = [s for n in (1, 2, 3) for s in itertools.product(QUICK_LETTERS, repeat=n)]
        for seq in short:
            for s in st:
                out.append(('direct', seq, s, 0.7, 2, False))
                for meta in (False, True):
                    for b in (0.1, 0.7):
                        for ph in (1, 2):
                            out.append(('ddl', seq, s, b, ph, meta))
        for meta in (False, True):
            out.append(('ddl', ('112',), ('up', 'up'), 0, 1, meta))
            out.append(('direct', ('112',), ('up', 'up'), 0, 1, meta))
        out += fault_cases(fault_scripts(QUICK_LETTERS, 2), st, (1, 2))
        for seq in short:
            if 's' not in seq:
                continue
            for s in st:
                out.append(('direct', seq, s, 0.7, 1, False, CCT_SHORT))
                for meta in (False, True):
                    for ph in (1, 2):
                        out.append(('ddl', seq, s, 0.7, ph, meta, CCT_SHORT))
    return [c if len(c) == 7 else c + (CCT_DEFAULT,) for c in out]


def run(ctx):
    assert schemaagree.selftest()
    cs = ctx.rotate(cases(ctx))
    n = ctx.nproc * 4
    for part in ctx.pmap(run_chunk, [cs[i::n] for i in range(n) if cs[i::n]]):
        ctx.merge(part)
    ctx.count('states', len(cs))
    ctx.count('transitions', ctx.counters.get('polls_served', 0))
    ctx.count('executions', len(cs))
    ctx.cov['rule'] = ('cases = poll script x peer states x budget x polling node x (direct | DDL with schema metadata on/off), enumerated completely within the '
                       'stated alphabets (plus the poll timeout for scripts with unanswered polls); transitions = polls served; non-trivial = script with differing '
                       'poll verdicts, an unanswered or a failed poll, or a peer that is marked down / unknown; outcomes = (mode, metadata, verdict, polls made, '
                       'raised?, ended by a failed poll?); counters waits_ended_by_a_failed_poll / waits_polling_on_after_an_unanswered_poll = executions in '
                       'which that actually happened; delivery_observations/<observer>/<value> = DDL executions in which that observer read that value '
                       'of is_schema_agreed while the result was being delivered')
    ctx.cov['exhaustive'] = True
    ctx.assume('peer states are the is_up attribute of the Host objects at the time of the wait (set directly after a normal connect)')
    ctx.assume('max_schema_agreement_wait <= 0 is the documented bypass of the agreement check: recorded, not judged')
    ctx.assume('a peer row without schema_version, and a row of a peer the client does not know, take no part in the verdict (as in the statement: "reported by ... every known peer")')
    ctx.assume('the control node always reports a schema version')
    ctx.assume('a wait whose last poll failed (connection lost, error response) need not use up the budget and may raise the error (direct call); '
               'it may not report agreement, and is_schema_agreed of the DDL request it belongs to must be False')
    ctx.assume('ControlConnection._time (a class attribute kept "for testing purposes") is rebound to the virtual clock')


def replay(ctx, data):
    part = run_chunk([(data['mode'], tuple(data['seq']), tuple(data['states']), data['budget'], data['poll_host'], data['meta'],
                      data.get('cct', CCT_DEFAULT))])
    for fp, what, _ in part.violations:
        print(fp, '::', what)
    return bool(part.violations)
