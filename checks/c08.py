"""C08 Partition tokens equal those of Cassandra's partitioners.

Engine N: every key of the families below is hashed by the driver (`cassandra.murmur3._murmur3`,
whatever `cassandra.murmur3.murmur3` is bound to, `Murmur3Token/MD5Token/BytesToken.from_key`) and
by the independent reference `vt.spec.partitioners` (written from Cassandra's MurmurHash.java /
Murmur3Partitioner / RandomPartitioner).  The Long.MIN_VALUE -> MAX_VALUE mapping cannot be reached
by enumerating keys, so the raw 64-bit hash is compared before the mapping on every key and the
mapping itself is exercised by rebinding `cassandra.metadata.murmur3` to return boundary values.
"""
import itertools

from vt.core import Part, HarnessError
from vt.spec import partitioners as P

META = {
    'level': 'exploration',
    'engine': 'N',
    'technique': 'bounded-exhaustive key enumeration vs independent Murmur3/MD5/ByteOrdered partitioner reference',
    'text': 'All byte strings of length 0-3 over an 8-value boundary alphabet, and for every length 4..48 '
            '(quick; 4..96 thorough: every tail size 0-15 three/six times, 0-6 body blocks) every position x every '
            'byte value 0-255 on three filler backgrounds (00, 7f, ff), plus in thorough all pairs of positions x '
            '8x8 boundary bytes for lengths 2..33, are hashed by the driver and by a reference written '
            'from Cassandra\'s MurmurHash.hash3_x64_128 (sign-extending tail), Murmur3Partitioner.normalize, '
            'RandomPartitioner (abs of signed MD5) and ByteOrderedPartitioner; raw hash, token value and token type are compared. '
            'The MIN_VALUE->MAX_VALUE mapping is driven through Murmur3Token.hash_fn with the hash function rebound to boundary values.',
    'note': 'Reference is cross-checked against the fixed vectors of tests/unit/test_metadata.py. The C extension '
            'cmurmur3 is not built in this image (checked if importable). The empty byte string is not a legal '
            'partition key; for it only the raw hash is compared.',
    'design_ref': 'C08',
}

ALPHA = [0x00, 0x01, 0x7f, 0x80, 0x81, 0xfe, 0xff, 0xa5]
FILLERS = [0x00, 0x7f, 0xff]
BOUNDARY_HASHES = [P.LONG_MIN, P.LONG_MIN + 1, -1, 0, 1, P.LONG_MAX - 1, P.LONG_MAX]


def key_class(key):
    rem = len(key) & 15
    tail = key[len(key) - rem:] if rem else b''
    bucket = '0' if rem == 0 else ('1-8' if rem <= 8 else '9-15')
    return 'tail=%s/blocks=%s/hibyte=%s' % (bucket, 'yes' if len(key) >= 16 else 'no',
                                            'yes' if any(b >= 0x80 for b in tail) else 'no')


def keys_of(unit):
    kind = unit[0]
    if kind == 'short':
        for n in range(0, 4):
            for t in itertools.product(ALPHA, repeat=n):
                yield bytes(t)
    elif kind == 'single':
        _, length, filler = unit
        base = bytearray([filler]) * length
        yield bytes(base)
        for pos in range(length):
            for b in range(256):
                if b == filler:
                    continue
                k = bytearray(base)
                k[pos] = b
                yield bytes(k)
    elif kind == 'pair':
        _, length, filler = unit
        base = bytearray([filler]) * length
        for p1 in range(length):
            for p2 in range(p1 + 1, length):
                for b1 in ALPHA:
                    for b2 in ALPHA:
                        if b1 == filler or b2 == filler:
                            continue      # those keys belong to the single family
                        k = bytearray(base)
                        k[p1] = b1
                        k[p2] = b2
                        yield bytes(k)
    elif kind == 'preimage':
        # keys constructed (reference hash run backwards) so that the raw hash is exactly a boundary value:
        # Long.MIN_VALUE (the one hash Cassandra maps to MAX_VALUE), its neighbours, -1, 0, 1, MAX_VALUE
        for target in BOUNDARY_HASHES:
            for free in (0, 1, 0x0123456789abcdef, P.M64, 1 << 63):
                yield P.murmur3_preimage16(target, free)
    else:
        raise HarnessError('unknown unit %r' % (unit,))


def check_key(part, key, drv):
    """compare one key; drv = (raw_fns, Murmur3Token, MD5Token, BytesToken)"""
    raw_fns, M3, MD5, BT = drv
    cls = key_class(key)
    want_raw = P.murmur3_raw(key)
    raw_ok = True
    for name, fn in raw_fns:
        try:
            got = fn(key)
        except Exception as e:
            part.violation('C08/murmur3/%s/raises/%s' % (name, cls), '%s(%r) raised %r' % (name, key, e), {'key': key})
            raw_ok = False
            continue
        if got != want_raw or isinstance(got, bool) or not isinstance(got, int):
            raw_ok = False
            part.violation('C08/murmur3/%s/raw/%s' % (name, cls),
                           '%s(%r) = %r, Cassandra MurmurHash.hash3_x64_128(seed 0)[0] = %r' % (name, key, got, want_raw),
                           {'key': key})
    if key:
        want_tok = P.murmur3_token(key)
        try:
            got = M3.from_key(key).value
            # a wrong raw hash is already reported above; the token clause is about what is added on top
            if (got != want_tok or not isinstance(got, int)) and raw_ok:
                part.violation('C08/murmur3/token/%s' % cls,
                               'Murmur3Token.from_key(%r).value = %r, Murmur3Partitioner token = %r' % (key, got, want_tok),
                               {'key': key})
        except Exception as e:
            part.violation('C08/murmur3/token/raises', 'Murmur3Token.from_key(%r) raised %r' % (key, e), {'key': key})
        want_md5 = P.md5_token(key)
        neg = 'neg' if P.hashlib.md5(key).digest()[0] >= 0x80 else 'pos'
        try:
            got = MD5.from_key(key).value
            if got != want_md5 or not isinstance(got, int):
                part.violation('C08/md5/token/digest=%s' % neg,
                               'MD5Token.from_key(%r).value = %r, RandomPartitioner token = %r' % (key, got, want_md5),
                               {'key': key})
        except Exception as e:
            part.violation('C08/md5/token/raises', 'MD5Token.from_key(%r) raised %r' % (key, e), {'key': key})
        if neg == 'neg':
            part.count('md5_negative_digests')
    try:
        got = BT.from_key(key).value
        if got != P.bytes_token(key) or not isinstance(got, bytes):
            part.violation('C08/bytes/token', 'BytesToken.from_key(%r).value = %r' % (key, got), {'key': key})
    except Exception as e:
        part.violation('C08/bytes/token/raises', 'BytesToken.from_key(%r) raised %r' % (key, e), {'key': key})
    part.count('evaluations')
    if 'hibyte=yes' in cls:
        part.count('distinct_nontrivial')
    part.outcome(('m3', len(key) & 15, 'neg' if want_raw < 0 else 'nonneg'))


def driver():
    import cassandra.murmur3 as m
    import cassandra.metadata as md
    raw_fns = [('_murmur3', m._murmur3)]
    if m.murmur3 is not m._murmur3:
        raw_fns.append(('murmur3', m.murmur3))
    if md.murmur3 is None:
        raise HarnessError('cassandra.metadata.murmur3 is None: Murmur3Token cannot hash')
    return raw_fns, md.Murmur3Token, md.MD5Token, md.BytesToken


def run_unit(unit):
    part = Part()
    drv = driver()
    n = 0
    for key in keys_of(unit):
        check_key(part, key, drv)
        n += 1
        if n <= 1:
            part.sample({'unit': list(unit), 'key': key, 'murmur3': P.murmur3_token(key) if key else None,
                         'md5': P.md5_token(key)}, limit=1)
    part.count('units')
    return part


def check_mapping(part):
    """Murmur3Token.hash_fn must map exactly Long.MIN_VALUE to Long.MAX_VALUE and nothing else."""
    import cassandra.metadata as md
    orig = md.murmur3
    try:
        for v in BOUNDARY_HASHES:
            md.murmur3 = lambda key, v=v: v
            want = P.murmur3_normalize(v)
            for how, f in (('hash_fn', lambda: md.Murmur3Token.hash_fn(b'k')),
                           ('from_key', lambda: md.Murmur3Token.from_key(b'k').value)):
                part.count('evaluations')
                part.count('mapping_cases')
                try:
                    got = f()
                except Exception as e:
                    got = 'raised %r' % (e,)
                part.outcome(('map', v == P.LONG_MIN, got == want))
                if got != want:
                    part.violation('C08/murmur3/normalize/%s' % ('min' if v == P.LONG_MIN else 'other'),
                                   'Murmur3Token.%s with raw hash %d gives %r, Murmur3Partitioner.normalize gives %d' % (
                                       how, v, got, want), {'raw_hash': v})
                if v == P.LONG_MIN:
                    part.count('distinct_nontrivial')
    finally:
        md.murmur3 = orig


def run(ctx):
    P.selftest()
    max_len = 48 if ctx.quick else 96
    units = [('short',), ('preimage',)]
    for length in range(4, max_len + 1):
        for f in FILLERS:
            units.append(('single', length, f))
    if ctx.thorough:
        for length in range(2, 34):
            for f in FILLERS:
                units.append(('pair', length, f))
    units = ctx.rotate(units)
    # longest units first inside the pool would be nicer, but order must only depend on the seed
    for part in ctx.pmap(run_unit, units, chunksize=2):
        ctx.merge(part)
    part = Part()
    check_mapping(part)
    ctx.merge(part)
    ctx.cov['rule'] = ('keys: all strings of length 0-3 over %d boundary bytes; lengths 4..%d: base key + every position x every '
                       'other byte value on fillers 00/7f/ff%s; all keys distinct by construction. non-trivial = key whose tail (len %% 16 '
                       'trailing bytes) holds a byte >= 0x80 (Cassandra sign-extends it), plus the MIN_VALUE mapping cases; '
                       'md5_negative_digests counts keys whose digest is a negative BigInteger' % (
                           len(ALPHA), max_len, '' if ctx.quick else '; lengths 2..33: all position pairs x 8x8 boundary bytes'))
    ctx.cov['exhaustive'] = True
    ctx.assume('the empty byte string is not a legal partition key (Cassandra rejects it and its partitioners map it to '
               'their MINIMUM sentinel): for it only the raw hash and BytesToken are compared')
    ctx.assume('keys hashing to Long.MIN_VALUE cannot be found by enumeration; 16-byte keys with that hash (and with the other '
               'boundary hashes) are constructed by running the reference hash backwards, and the mapping is also checked by '
               'rebinding cassandra.metadata.murmur3 to return boundary values')
    ctx.assume('cassandra.cmurmur3 (C) is compared only when it is importable; it is not built in this image')


def replay(ctx, data):
    part = Part()
    if 'key' in data:
        check_key(part, bytes.fromhex(data['key']['hex']), driver())
    else:
        check_mapping(part)
    for fp, what, _ in part.violations:
        print(fp, '::', what)
    return bool(part.violations)
