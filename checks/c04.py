"""C04 Response frames decode to exactly what the server sent.

Engine N.  Response frames for every response opcode are produced by the independent builders in
``vt.spec.frames`` (all ERROR codes with their code-specific bodies, RESULT void / rows with every
metadata flag combination / set_keyspace / prepared / schema_change, EVENT topology/status/schema in
the v1-2 and v3+ layouts, SUPPORTED, READY, AUTHENTICATE, AUTH_CHALLENGE, AUTH_SUCCESS), decorated
with every subset of {tracing id, warnings, custom payload} and optionally compressed, for protocol
versions 1-6, DSE_V1, DSE_V2.  The header is split off the way ``Connection._read_frame_header``
does and the rest is handed to ``ProtocolHandler.decode_message`` exactly as
``Connection.process_msg`` does; the decoded message's fields, ``to_exception()`` type/attributes and
``summary_msg()`` are compared with the description the frame was built from.
"""
import gc
import itertools
import socket
import uuid

from vt.core import Part, HarnessError
from vt.spec import frames as F

META = {
    'level': 'exploration',
    'engine': 'N',
    'technique': 'bounded-exhaustive enumeration of response bodies x frame decorations x versions, built by an independent spec encoder and compared field by field after decoding',
    'text': 'For protocol versions 1-6, DSE_V1, DSE_V2: every ERROR code (21 codes, code-specific bodies over a grid of consistency '
            'levels, received/required pairs, write types, failure counts vs reason maps), RESULT void / set_keyspace / schema_change '
            '(all targets incl. function and aggregate signatures) / rows (column sets of scalar, collection, tuple, UDT and custom '
            'types x 0-2 rows with nulls x global_tables_spec x has_more_pages x no_metadata x new_metadata_id x DSE continuous page '
            'flags) / prepared (bind columns x global spec x pk indexes x result metadata x metadata ids), EVENT topology/status/schema, '
            'SUPPORTED, READY, AUTHENTICATE, AUTH_CHALLENGE, AUTH_SUCCESS, each with every subset of {tracing id, warnings, custom '
            'payload} x compression (thorough: additionally x stream ids {0,1,max} x beta flag and empty warnings / payload). Frames come from vt.spec.frames.build_response; the '
            'decoded message fields, to_exception() type and attributes and summary_msg() must equal the description.  Histories: for '
            'every ordered pair of 9 field types, two RESULTs describing the same user type name with the other field type are decoded '
            'one after the other in one process (type dropped and re-created); the second must decode as sent.',
    'note': 'Trusted base: vt/spec/frames.py.  A table in this check states which message / exception class and attribute names the '
            'driver documents for each error code.  Cell values use a minimal codec (int, bigint, varchar, ascii, blob, list, set, '
            'map, tuple, UDT, custom); value codecs as such are C01/C02.',
    'design_ref': 'C04',
}

MAXINT = 2 ** 31 - 1
TRACE = uuid.UUID('01234567-89ab-cdef-0123-456789abcdef')


def compressor(b):
    return b'Z' + bytes(b)[::-1]


def decompressor(b):
    if b[:1] != b'Z':
        raise ValueError('not produced by the stand-in compressor')
    return bytes(b[1:])[::-1]


# ------------------------------------------------------------------------------------------------
# what the driver documents per error code: message class, exception class (None = the message
# itself is raised), and how body fields map to exception attributes
WRITE_TYPE_VALUES = {'SIMPLE': 0, 'BATCH': 1, 'UNLOGGED_BATCH': 2, 'COUNTER': 3, 'BATCH_LOG': 4, 'CAS': 5, 'VIEW': 6, 'CDC': 7}
ERR_CLASSES = {
    0x0000: ('ServerError', None), 0x000A: ('ProtocolException', None), 0x0100: ('BadCredentials', None),
    0x1000: ('UnavailableErrorMessage', 'Unavailable'), 0x1001: ('OverloadedErrorMessage', None),
    0x1002: ('IsBootstrappingErrorMessage', None), 0x1003: ('TruncateError', None),
    0x1100: ('WriteTimeoutErrorMessage', 'WriteTimeout'), 0x1200: ('ReadTimeoutErrorMessage', 'ReadTimeout'),
    0x1300: ('ReadFailureMessage', 'ReadFailure'), 0x1400: ('FunctionFailureMessage', 'FunctionFailure'),
    0x1500: ('WriteFailureMessage', 'WriteFailure'), 0x1600: ('CDCWriteException', None),
    0x1700: (None, None),           # CAS_WRITE_UNKNOWN: no dedicated class documented; code and message must survive
    0x2000: ('SyntaxException', None), 0x2100: ('UnauthorizedErrorMessage', 'Unauthorized'),
    0x2200: ('InvalidRequestException', 'InvalidRequest'), 0x2300: ('ConfigurationException', None),
    0x2400: ('AlreadyExistsException', 'AlreadyExists'), 0x2500: ('PreparedQueryNotFound', None),
    0x8000: ('ClientWriteError', None),
}
CODE_NAMES = {v: k for k, v in F.ERR.items()}


# ------------------------------------------------------------------------------------------------
# body generators: yield (label, desc) ; desc is a vt.spec.frames.build_body description
def gen_errors(v, tier):
    msgs = ['', 'boom', 'é"€ \U0001F600']
    cls_ = [1, 4, 9]
    pairs = [(0, 1), (2, 3), (MAXINT, 0)]
    simple = [0x0000, 0x000A, 0x0100, 0x1001, 0x1002, 0x1003, 0x2000, 0x2100, 0x2200, 0x2300]
    if v in (5, 6):
        simple.append(0x1600)
    if F.is_dse(v):
        simple.append(0x8000)
    for code in simple:
        for m in msgs:
            yield {'op': 'ERROR', 'code': code, 'message': m, 'fields': {}}
    for cl, (a, b) in itertools.product(cls_, pairs):
        yield {'op': 'ERROR', 'code': 0x1000, 'message': 'unavailable', 'fields': {'cl': cl, 'required': a, 'alive': b}}
        for wt in F.WRITE_TYPES:
            yield {'op': 'ERROR', 'code': 0x1100, 'message': 'wt', 'fields': {'cl': cl, 'received': a, 'blockfor': b, 'write_type': wt}}
        if v in (5, 6):
            yield {'op': 'ERROR', 'code': 0x1100, 'message': 'wt', 'fields': {'cl': cl, 'received': a, 'blockfor': b, 'write_type': 'CAS', 'contentions': 3}}
            yield {'op': 'ERROR', 'code': 0x1700, 'message': 'cas unknown', 'fields': {'cl': cl, 'received': a, 'blockfor': b}}
        for dp in (False, True):
            yield {'op': 'ERROR', 'code': 0x1200, 'message': 'rt', 'fields': {'cl': cl, 'received': a, 'blockfor': b, 'data_present': dp}}
        if v >= 4:
            if F.failure_reason_map(v):
                fails = [{'reasons': {}}, {'reasons': {'10.0.0.1': 0}}, {'reasons': {'10.0.0.1': 1, '::1': 0xFFFF, '2001:db8::ff00:42:8329': 0x0102}}]
            else:
                fails = [{'numfailures': 0}, {'numfailures': 2}, {'numfailures': MAXINT}]
            for fl in fails:
                for dp in (False, True):
                    f = {'cl': cl, 'received': a, 'blockfor': b, 'data_present': dp}
                    f.update(fl)
                    yield {'op': 'ERROR', 'code': 0x1300, 'message': 'rf', 'fields': f}
                for wt in (F.WRITE_TYPES if tier == 'thorough' or cl == 4 else ('SIMPLE', 'CDC')):
                    f = {'cl': cl, 'received': a, 'blockfor': b, 'write_type': wt}
                    f.update(fl)
                    yield {'op': 'ERROR', 'code': 0x1500, 'message': 'wf', 'fields': f}
    if v >= 4:
        for ks, fn, args in [('ks', 'f', []), ('ks', 'fé', ['int']), ('', 'g', ['int', 'map<text, frozen<list<int>>>'])]:
            yield {'op': 'ERROR', 'code': 0x1400, 'message': 'ff', 'fields': {'keyspace': ks, 'function': fn, 'arg_types': args}}
    for ks, tb in [('ks', 'tbl'), ('ks', ''), ('Ké', 'Té')]:
        yield {'op': 'ERROR', 'code': 0x2400, 'message': 'exists', 'fields': {'keyspace': ks, 'table': tb}}
    for qid in (b'\x01', bytes(range(16)), b''):
        yield {'op': 'ERROR', 'code': 0x2500, 'message': 'unprepared', 'fields': {'query_id': qid}}


UDT = ('udt', 'ks', 'addr', [('street', 'varchar'), ('zip', 'int')])
TUP = ('tuple', ['int', 'blob'])


def column_sets(v):
    """name -> (cols, list of alternative row lists)."""
    cs = {
        'nocols': ([], [[]]),
        'int': ([('ks', 't', 'a', 'int')], [[], [[1]], [[None], [-2 ** 31]]]),
        'varchar+list': ([('ks', 't', 'b', 'varchar'), ('ks', 't', 'c', ('list', 'int'))],
                         [[], [['é€', [1, 2]]], [[None, [7]], ['x', None]]]),
        'twotables': ([('ks1', 't1', 'a', 'bigint'), ('ks2', 't2', 'b', 'blob')], [[], [[2 ** 63 - 1, b'\x00\xff']], [[None, b''], [0, None]]]),
        'map+set': ([('ks', 't', 'm', ('map', 'varchar', 'bigint')), ('ks', 't', 's', ('set', 'ascii'))],
                    [[], [[{'k': 5, 'l': -1}, ['a', 'b']]], [[None, ['z']], [{'q': 0}, None]]]),
        'custom': ([('ks', 't', 'k', ('custom', 'org.apache.cassandra.db.marshal.Int32Type')), ('ks', 't', 'u', ('custom', 'com.example.Foo'))],
                   [[], [[b'\x00\x00\x00\x07', b'raw']], [[None, None]]]),
    }
    if v >= 3:
        cs['udt+tuple'] = ([('ks', 't', 'u', UDT), ('ks', 't', 'p', TUP), ('ks', 't', 'n', ('list', UDT))],
                           [[], [[('main', 12345), (3, b'q'), [('a', 1)]]], [[(None, 1), (None, None), None], [None, (1, None), []]]])
    scal = [n for n in ('ascii', 'bigint', 'blob', 'boolean', 'counter', 'decimal', 'double', 'float', 'int', 'text', 'timestamp',
                        'uuid', 'varchar', 'varint', 'timeuuid', 'inet', 'date', 'time', 'smallint', 'tinyint', 'duration')
            if F.type_allowed(n, v) and not (n == 'duration' and F.is_dse(v))]
    cs['allscalars'] = ([('ks', 't', 'c_' + n, n) for n in scal], [[], [[None] * len(scal)]])
    return cs


def gen_rows(v, tier):
    for name, (cols, rowsets) in column_sets(v).items():
        same_table = len({(c[0], c[1]) for c in cols}) <= 1
        globals_ = [False, True] if same_table else [False]
        for rows in rowsets:
            if name == 'udt+tuple' and rows and rows[-1][-1] == []:
                rows = [r[:-1] + [None] if r[-1] == [] else r for r in rows]     # empty collections are C01 territory
            for g, ps, nometa, newid, cont in itertools.product(
                    globals_, [None, b'', b'\x00\x01state'], [False, True], [None, b'\x99\x98'], [None, (0, False), (7, True)]):
                if ps is not None and v == 1:
                    continue
                if nometa and (v == 1 or newid is not None or g):
                    continue
                if newid is not None and not F.has_metadata_id(v):
                    continue
                if cont is not None and (not F.is_dse(v) or nometa or newid is not None):
                    continue            # order of those fields relative to each other is not pinned down: left out
                meta = {'global_spec': g, 'paging_state': ps, 'no_metadata': nometa, 'new_metadata_id': newid, 'continuous': cont}
                if g and not cols:
                    meta['global_names'] = ('ks', 't')
                yield {'op': 'RESULT', 'kind': 'rows', 'colset': name, 'cols': cols, 'rows': rows, 'meta': meta}


def gen_prepared(v, tier):
    cs = column_sets(v)
    binds = ['nocols', 'int', 'twotables', 'varchar+list'] + (['udt+tuple'] if v >= 3 else [])
    results = ['nocols', 'int', 'map+set']
    for b, qid in itertools.product(binds, [b'\x01', bytes(range(16))]):
        bcols = cs[b][0]
        same = len({(c[0], c[1]) for c in bcols}) <= 1 and bool(bcols)
        for bg in ([False, True] if same else [False]):
            pks = [None]
            if v >= 4:
                pks = [[], [0]] if bcols else [[]]
                if len(bcols) > 1:
                    pks.append([1, 0])
            for pk in pks:
                if v == 1:
                    yield {'op': 'RESULT', 'kind': 'prepared', 'bindset': b, 'args': dict(query_id=qid, bind_cols=bcols, bind_global=bg)}
                    continue
                for r in results:
                    rcols = cs[r][0]
                    metas = [{'global_spec': False}]
                    if rcols:
                        metas.append({'global_spec': True})
                    else:
                        metas.append({'no_metadata': True})           # what Cassandra sends for statements without a result set
                    for rm in metas:
                        args = dict(query_id=qid, bind_cols=bcols, bind_global=bg, result_cols=rcols, result_meta=rm)
                        if v >= 4:
                            args['pk_indexes'] = pk
                        if F.has_metadata_id(v):
                            args['result_metadata_id'] = b'\xaa\xbb'
                        yield {'op': 'RESULT', 'kind': 'prepared', 'bindset': b, 'resultset': r, 'args': args}


def schema_changes(v):
    out = []
    for ct in ('CREATED', 'UPDATED', 'DROPPED'):
        out.append({'change_type': ct, 'target': 'KEYSPACE', 'keyspace': 'ks'})
        out.append({'change_type': ct, 'target': 'TABLE', 'keyspace': 'ks', 'name': 'tbl'})
        out.append({'change_type': ct, 'target': 'TABLE', 'keyspace': 'Ké', 'name': 'Té'})
        if v >= 3:
            out.append({'change_type': ct, 'target': 'TYPE', 'keyspace': 'ks', 'name': 'addr'})
        if v >= 4:
            for tgt in ('FUNCTION', 'AGGREGATE'):
                for args in ([], ['int'], ['int', 'map<text, frozen<list<int>>>']):
                    out.append({'change_type': ct, 'target': tgt, 'keyspace': 'ks', 'name': 'fn', 'arg_types': args})
    return out


ADDRS = ['10.0.0.1', '255.255.255.255', '::1', '2001:db8::ff00:42:8329', 'fe80::1']


def gen_misc(v, tier):
    yield {'op': 'RESULT', 'kind': 'void'}
    for ks in ('ks', 'Ké', 'a' * 48):
        yield {'op': 'RESULT', 'kind': 'set_keyspace', 'keyspace': ks}
    for ch in schema_changes(v):
        yield {'op': 'RESULT', 'kind': 'schema_change', 'change': ch}
        ev = dict(ch)
        ev['event_type'] = 'SCHEMA_CHANGE'
        yield {'op': 'EVENT', 'event': ev}
    for ad, port in itertools.product(ADDRS, (9042, 0)):
        for ct in ('NEW_NODE', 'REMOVED_NODE') + (('MOVED_NODE',) if v >= 3 else ()):
            yield {'op': 'EVENT', 'event': {'event_type': 'TOPOLOGY_CHANGE', 'change_type': ct, 'address': ad, 'port': port}}
        for ct in ('UP', 'DOWN'):
            yield {'op': 'EVENT', 'event': {'event_type': 'STATUS_CHANGE', 'change_type': ct, 'address': ad, 'port': port}}
    yield {'op': 'READY'}
    for name in ('org.apache.cassandra.auth.PasswordAuthenticator', '', 'Aé'):
        yield {'op': 'AUTHENTICATE', 'authenticator': name}
    for opts in ({'CQL_VERSION': ['3.4.5'], 'COMPRESSION': []},
                 {'CQL_VERSION': ['3.0.0', '3.4.5'], 'COMPRESSION': ['snappy', 'lz4'], 'PROTOCOL_VERSIONS': ['3/v3', '4/v4', '5/v5-beta']},
                 {'COMPRESSION': ['lz4'], 'CQL_VERSION': ['3.4.5'], 'PRODUCT_TYPE': ['DATASTAX_APOLLO'], 'Xé': ['é']}):
        yield {'op': 'SUPPORTED', 'options': opts}
    if v >= 2:
        for tok in (None, b'', b'abc', b'\x00\xff\xfe binary'):
            yield {'op': 'AUTH_CHALLENGE', 'token': tok}
            yield {'op': 'AUTH_SUCCESS', 'token': tok}


GROUPS = {'error': gen_errors, 'rows': gen_rows, 'prepared': gen_prepared, 'misc': gen_misc}


def subkind(desc):
    op = desc['op']
    if op == 'ERROR':
        return 'ERROR.' + CODE_NAMES.get(desc['code'], hex(desc['code']))
    if op == 'RESULT':
        return 'RESULT.' + desc['kind']
    if op == 'EVENT':
        return 'EVENT.' + desc['event']['event_type']
    return op


# ------------------------------------------------------------------------------------------------
def decorations(v, full):
    """List of dict(tracing, warnings, payload, compress, stream, beta).
    Always: every subset of {tracing id, warnings, custom payload} x compression on/off."""
    tr = [None, TRACE]
    wa = [None, ['w1', 'wé €']] if v >= 4 else [None]
    pa = [None, {'k': b'v', 'e': b'', 'n': None}] if v >= 4 else [None]
    co = [False, True] if not F.segment_layer(v) else [False]
    out = []
    for t, w, p, c in itertools.product(tr, wa, pa, co):
        out.append(dict(tracing=t, warnings=w, payload=p, compress=c, stream=0, beta=False))
    if full:
        ex = []
        for d in out:
            for s, b in itertools.product((1, F.max_stream(v)), (False, True)):
                e = dict(d)
                e.update(stream=s, beta=b)
                ex.append(e)
        if v >= 4:          # empty warnings list / empty payload map are legal too
            ex.append(dict(tracing=None, warnings=[], payload={}, compress=False, stream=0, beta=False))
            ex.append(dict(tracing=TRACE, warnings=[], payload={}, compress=bool(len(co) > 1), stream=0, beta=True))
        out += ex
    return out


# ------------------------------------------------------------------------------------------------
class Env(object):
    _inst = None

    @classmethod
    def get(cls):
        if cls._inst is None:
            cls._inst = cls()
        return cls._inst

    def __init__(self):
        import logging
        logging.getLogger('cassandra').setLevel(logging.CRITICAL)
        import cassandra
        import cassandra.protocol as cp
        import cassandra.cqltypes as ct
        self.c, self.cp, self.ct = cassandra, cp, ct
        self.decode = cp.ProtocolHandler.decode_message

    def driver_type(self, t):
        """The type class a session would hold as result_metadata for type tree t (needed for no_metadata rows)."""
        ct = self.ct
        name = t if isinstance(t, str) else t[0]
        simple = {'ascii': 'AsciiType', 'bigint': 'LongType', 'blob': 'BytesType', 'boolean': 'BooleanType',
                  'counter': 'CounterColumnType', 'decimal': 'DecimalType', 'double': 'DoubleType', 'float': 'FloatType',
                  'int': 'Int32Type', 'text': 'UTF8Type', 'timestamp': 'DateType', 'uuid': 'UUIDType', 'varchar': 'VarcharType',
                  'varint': 'IntegerType', 'timeuuid': 'TimeUUIDType', 'inet': 'InetAddressType', 'date': 'SimpleDateType',
                  'time': 'TimeType', 'smallint': 'ShortType', 'tinyint': 'ByteType', 'duration': 'DurationType'}
        if name in simple:
            return getattr(ct, simple[name])
        if name in ('list', 'set'):
            return (ct.ListType if name == 'list' else ct.SetType).apply_parameters((self.driver_type(t[1]),))
        if name == 'map':
            return ct.MapType.apply_parameters((self.driver_type(t[1]), self.driver_type(t[2])))
        if name == 'tuple':
            return ct.TupleType.apply_parameters(tuple(self.driver_type(x) for x in t[1]))
        if name == 'udt':
            return ct.UserType.make_udt_class(t[1], t[2], [f for f, _ in t[3]], [self.driver_type(x) for _, x in t[3]])
        if name == 'custom':
            return ct.lookup_casstype(t[1])
        raise HarnessError('no driver type for %r' % (t,))


def describe(cls):
    """Driver type class -> the type-tree notation of vt.spec.frames."""
    tn = cls.typename
    sub = tuple(getattr(cls, 'subtypes', ()) or ())
    if getattr(cls, 'fieldnames', None) is not None and getattr(cls, 'keyspace', None) is not None:
        return ('udt', cls.keyspace, tn, [(f, describe(s)) for f, s in zip(cls.fieldnames, sub)])
    if tn in ('list', 'set'):
        return (tn, describe(sub[0]))
    if tn == 'map':
        return ('map', describe(sub[0]), describe(sub[1]))
    if tn == 'tuple':
        return ('tuple', [describe(s) for s in sub])
    return tn


def expected_type(t):
    """What describe() should give for a column built from type tree t."""
    if isinstance(t, str):
        return t
    if t[0] == 'custom':
        if t[1] == 'org.apache.cassandra.db.marshal.Int32Type':
            return 'int'
        return ('customclass', t[1])
    if t[0] in ('list', 'set'):
        return (t[0], expected_type(t[1]))
    if t[0] == 'map':
        return ('map', expected_type(t[1]), expected_type(t[2]))
    if t[0] == 'tuple':
        return ('tuple', [expected_type(x) for x in t[1]])
    if t[0] == 'udt':
        return ('udt', t[1], t[2], [(f, expected_type(x)) for f, x in t[3]])
    raise HarnessError(t)


def type_matches(want, got):
    if isinstance(want, tuple) and want[0] == 'customclass':
        return isinstance(got, str) and want[1] in got
    if isinstance(want, tuple):
        if not isinstance(got, tuple) or len(got) != len(want) or got[0] != want[0]:
            return False
        if want[0] == 'tuple':
            return len(want[1]) == len(got[1]) and all(type_matches(a, b) for a, b in zip(want[1], got[1]))
        if want[0] == 'udt':
            return want[1:3] == got[1:3] and len(want[3]) == len(got[3]) and \
                all(a[0] == b[0] and type_matches(a[1], b[1]) for a, b in zip(want[3], got[3]))
        return all(type_matches(a, b) for a, b in zip(want[1:], got[1:]))
    return want == got


def norm_value(t, x):
    """Driver cell value -> plain python in the shape the description used."""
    if x is None:
        return None
    name = t if isinstance(t, str) else t[0]
    if name == 'list':
        return [norm_value(t[1], e) for e in x]
    if name == 'set':
        return sorted(norm_value(t[1], e) for e in x)
    if name == 'map':
        return {norm_value(t[1], k): norm_value(t[2], e) for k, e in x.items()}
    if name == 'tuple':
        return tuple(norm_value(tt, e) for tt, e in zip(t[1], tuple(x)))
    if name == 'udt':
        return tuple(norm_value(ft, e) for (fn, ft), e in zip(t[3], tuple(x)))
    if name == 'custom' and t[1] == 'org.apache.cassandra.db.marshal.Int32Type':
        return None if x is None else int(x).to_bytes(4, 'big', signed=True)
    return x


def cols_obs(md):
    return None if md is None else [(c[0], c[1], c[2], describe(c[3])) for c in md]


def cols_match(want_cols, got):
    if got is None or len(got) != len(want_cols):
        return False
    return all(w[:3] == tuple(g[:3]) and type_matches(expected_type(w[3]), g[3]) for w, g in zip(want_cols, got))


def addr_text(a):
    fam = socket.AF_INET6 if ':' in a else socket.AF_INET
    return socket.inet_ntop(fam, socket.inet_pton(fam, a))


# ------------------------------------------------------------------------------------------------
def evaluate(env, v, desc, deco):
    """Build, decode, compare.  Returns list of (field, failure_kind, what)."""
    frame = F.build_response(v, {k: x for k, x in desc.items() if k not in ('colset', 'bindset', 'resultset')},
                             stream=deco['stream'] if desc['op'] != 'EVENT' else -1,
                             tracing_id=deco['tracing'], warnings=deco['warnings'], payload=deco['payload'],
                             compress=compressor if deco['compress'] else None, beta=deco['beta'])
    version, is_resp, flags, stream, opcode, length, hl = F.split_header(frame)
    body = frame[hl:]
    result_metadata = None
    if desc['op'] == 'RESULT' and desc['kind'] == 'rows' and desc['meta'].get('no_metadata'):
        result_metadata = [(c[0], c[1], c[2], env.driver_type(c[3])) for c in desc['cols']]
    try:
        msg = env.decode(version, {}, stream, flags, opcode, body, decompressor, result_metadata)
    except Exception as e:
        return [('decode', 'raises-' + type(e).__name__, 'decode_message raised %s: %s' % (type(e).__name__, e))], frame
    probs = []

    def chk(field, want, got, ok=None):
        good = (want == got) if ok is None else ok
        if not good:
            probs.append((field, 'mismatch', '%s: sent %r, decoded %r' % (field, want, got)))

    # frame-level decorations
    chk('stream_id', stream, getattr(msg, 'stream_id', '<missing>'))
    chk('trace_id', deco['tracing'], getattr(msg, 'trace_id', '<missing>'))
    w = getattr(msg, 'warnings', '<missing>')
    chk('warnings', deco['warnings'], w, ok=(w == deco['warnings'] or (not deco['warnings'] and w in (None, []))))
    p = getattr(msg, 'custom_payload', '<missing>')
    chk('custom_payload', deco['payload'], p, ok=(p == deco['payload'] or (not deco['payload'] and p in (None, {}))))
    try:
        _compare_body(env, v, desc, msg, chk, probs)
    except Exception as e:      # an attribute the description promises is missing / has an unusable type
        probs.append(('message', 'unusable-' + type(e).__name__, 'reading the decoded message failed: %s: %s' % (type(e).__name__, e)))
    return probs, frame


def _compare_body(env, v, desc, msg, chk, probs):
    op = desc['op']
    cp = env.cp
    want_cls = {'ERROR': 'ErrorMessage', 'READY': 'ReadyMessage', 'AUTHENTICATE': 'AuthenticateMessage',
                'SUPPORTED': 'SupportedMessage', 'RESULT': 'ResultMessage', 'EVENT': 'EventMessage',
                'AUTH_CHALLENGE': 'AuthChallengeMessage', 'AUTH_SUCCESS': 'AuthSuccessMessage'}[op]
    chk('class', want_cls, type(msg).__name__, ok=isinstance(msg, getattr(cp, want_cls)))
    if op == 'ERROR':
        _compare_error(env, v, desc, msg, chk, probs)
    elif op == 'AUTHENTICATE':
        chk('authenticator', desc['authenticator'], msg.authenticator)
    elif op == 'SUPPORTED':
        o = {k: list(x) for k, x in desc['options'].items()}
        chk('cql_versions', o.pop('CQL_VERSION'), msg.cql_versions)
        chk('options', o, msg.options)
    elif op in ('AUTH_CHALLENGE', 'AUTH_SUCCESS'):
        got = msg.challenge if op == 'AUTH_CHALLENGE' else msg.token
        want = desc['token']
        same = got == want or (isinstance(got, str) and want is not None and got.encode('utf-8') == want) or \
            (want is None and got in (None, b'', ''))
        chk('token', want, got, ok=same)
    elif op == 'EVENT':
        ev = desc['event']
        chk('event_type', ev['event_type'], msg.event_type)
        if ev['event_type'] in ('TOPOLOGY_CHANGE', 'STATUS_CHANGE'):
            chk('event_args', {'change_type': ev['change_type'], 'address': (addr_text(ev['address']), ev['port'])}, msg.event_args)
        else:
            _compare_schema_change(ev, msg.event_args, chk)
    elif op == 'RESULT':
        kind = desc['kind']
        chk('kind', {'void': 1, 'rows': 2, 'set_keyspace': 3, 'prepared': 4, 'schema_change': 5}[kind], msg.kind)
        if kind == 'set_keyspace':
            chk('new_keyspace', desc['keyspace'], msg.new_keyspace)
        elif kind == 'schema_change':
            _compare_schema_change(desc['change'], msg.schema_change_event, chk)
        elif kind == 'rows':
            _compare_rows(env, v, desc, msg, chk)
        elif kind == 'prepared':
            a = desc['args']
            chk('query_id', a['query_id'], msg.query_id)
            chk('result_metadata_id', a.get('result_metadata_id'), msg.result_metadata_id)
            bm = cols_obs(msg.bind_metadata)
            chk('bind_metadata', a['bind_cols'], bm, ok=cols_match(a['bind_cols'], bm))
            if msg.bind_metadata and not all(type(c).__name__ == 'ColumnMetadata' for c in msg.bind_metadata):
                chk('bind_metadata_type', 'ColumnMetadata', [type(c).__name__ for c in msg.bind_metadata], ok=False)
            chk('pk_indexes', a.get('pk_indexes') if v >= 4 else None, msg.pk_indexes)
            rc = list(a.get('result_cols', ()))
            got = cols_obs(msg.column_metadata)
            nometa = (a.get('result_meta') or {}).get('no_metadata')
            if not rc or nometa or v == 1:
                chk('result_column_metadata', [], got, ok=not got)
            else:
                chk('result_column_metadata', rc, got, ok=cols_match(rc, got))


def _compare_schema_change(ch, got, chk):
    want = {'target_type': ch['target'], 'change_type': ch['change_type'], 'keyspace': ch['keyspace']}
    if ch['target'] in ('TABLE', 'TYPE'):
        want[ch['target'].lower()] = ch['name']
    g = dict(got) if isinstance(got, dict) else got
    if ch['target'] in ('FUNCTION', 'AGGREGATE') and isinstance(g, dict):
        key = ch['target'].lower()
        d = g.pop(key, None)
        chk('schema_change.' + key, (ch['name'], ch['arg_types']), (getattr(d, 'name', None), getattr(d, 'argument_types', None)))
        want_cls = 'UserFunctionDescriptor' if key == 'function' else 'UserAggregateDescriptor'
        chk('schema_change.descriptor', want_cls, type(d).__name__)
    chk('schema_change', want, g)


def _compare_rows(env, v, desc, msg, chk):
    cols, rows, meta = desc['cols'], desc['rows'], desc['meta']
    chk('paging_state', meta.get('paging_state'), msg.paging_state)
    if meta.get('no_metadata'):
        chk('column_metadata', None, cols_obs(msg.column_metadata), ok=not msg.column_metadata)
    else:
        got = cols_obs(msg.column_metadata)
        chk('column_metadata', cols, got, ok=cols_match(cols, got))
    chk('column_names', [c[2] for c in cols], msg.column_names)
    ctypes = [describe(t) for t in (msg.column_types or [])]
    chk('column_types', [expected_type(c[3]) for c in cols], ctypes,
        ok=len(ctypes) == len(cols) and all(type_matches(expected_type(c[3]), g) for c, g in zip(cols, ctypes)))
    want_rows = [tuple(_want_cell(c[3], x) for c, x in zip(cols, r)) for r in rows]
    got_rows = None if msg.parsed_rows is None else [tuple(norm_value(c[3], x) for c, x in zip(cols, r)) + tuple(r[len(cols):]) for r in msg.parsed_rows]
    chk('parsed_rows', want_rows, got_rows)
    if meta.get('new_metadata_id') is not None:
        chk('result_metadata_id', meta['new_metadata_id'], getattr(msg, 'result_metadata_id', None))
    if meta.get('continuous') is not None:
        chk('continuous_paging_seq', meta['continuous'][0], msg.continuous_paging_seq)
        chk('continuous_paging_last', bool(meta['continuous'][1]), bool(msg.continuous_paging_last))
    else:
        chk('continuous_paging_seq', None, msg.continuous_paging_seq)


def _want_cell(t, x):
    if x is None:
        return None
    name = t if isinstance(t, str) else t[0]
    if name == 'set':
        return sorted(x)
    if name == 'list':
        return [_want_cell(t[1], e) for e in x]
    if name == 'tuple':
        return tuple(_want_cell(tt, e) for tt, e in zip(t[1], x))
    if name == 'udt':
        return tuple(_want_cell(ft, e) for (fn, ft), e in zip(t[3], x))
    return x


def _compare_error(env, v, desc, msg, chk, probs):
    code, text, f = desc['code'], desc['message'], desc.get('fields', {})
    cname, ename = ERR_CLASSES[code]
    chk('code', code, msg.code)
    chk('message', text, msg.message)
    if cname is not None:
        chk('message_class', cname, type(msg).__name__, ok=type(msg).__name__ == cname or (code == 0x1600 and type(msg).__name__ == 'CDCWriteException'))
    s = msg.summary_msg()
    chk('summary_msg', 'contains code=%04x and the message' % code, s, ok=('code=%04x' % code) in s and text in s)
    # info as decoded
    want_info = None
    fails = None
    if code in (0x1300, 0x1500):
        if F.failure_reason_map(v):
            ecm = {addr_text(a): c for a, c in f['reasons'].items()}
            fails = (len(ecm), ecm)
        else:
            fails = (f['numfailures'], None)
    if code == 0x1000:
        want_info = {'consistency': f['cl'], 'required_replicas': f['required'], 'alive_replicas': f['alive']}
    elif code == 0x1100:
        want_info = {'consistency': f['cl'], 'received_responses': f['received'], 'required_responses': f['blockfor'],
                     'write_type': WRITE_TYPE_VALUES[f['write_type']]}
    elif code == 0x1200:
        want_info = {'consistency': f['cl'], 'received_responses': f['received'], 'required_responses': f['blockfor'],
                     'data_retrieved': f['data_present']}
    elif code == 0x1300:
        want_info = {'consistency': f['cl'], 'received_responses': f['received'], 'required_responses': f['blockfor'],
                     'failures': fails[0], 'error_code_map': fails[1], 'data_retrieved': f['data_present']}
    elif code == 0x1500:
        want_info = {'consistency': f['cl'], 'received_responses': f['received'], 'required_responses': f['blockfor'],
                     'failures': fails[0], 'error_code_map': fails[1], 'write_type': WRITE_TYPE_VALUES[f['write_type']]}
    elif code == 0x1400:
        want_info = {'keyspace': f['keyspace'], 'function': f['function'], 'arg_types': list(f['arg_types'])}
    elif code == 0x2400:
        want_info = {'keyspace': f['keyspace'], 'table': f['table']}
    elif code == 0x2500:
        want_info = f['query_id']
    if code != 0x1700:
        chk('info', want_info, msg.info)
    # what surfaces to the application
    try:
        exc = msg.to_exception()
    except Exception as e:
        probs.append(('to_exception', 'raises-' + type(e).__name__, 'to_exception() raised %s: %s' % (type(e).__name__, e)))
        return
    chk('exception_is_exception', True, isinstance(exc, Exception))
    if ename is None:
        if cname is not None:
            chk('exception_class', cname, type(exc).__name__)
        chk('exception_code', code, getattr(exc, 'code', None))
        chk('exception_message', text, getattr(exc, 'message', None))
        return
    chk('exception_class', ename, type(exc).__name__, ok=type(exc) is getattr(env.c, ename))
    if isinstance(want_info, dict):
        for k, want in want_info.items():
            chk('exception.' + k, want, getattr(exc, k, '<missing>'))
    if ename in ('Unauthorized', 'InvalidRequest'):
        chk('exception_text', text, str(exc), ok=text in str(exc) and ('code=%04x' % code) in str(exc))


# ------------------------------------------------------------------------------------------------
def cases(group, v, tier):
    """Deterministic enumeration of (index, desc, deco) for one group and version."""
    full = decorations(v, tier == 'thorough')
    i = 0
    for desc in GROUPS[group](v, tier):
        for d in full:
            yield i, desc, d
            i += 1


BARE = dict(tracing=None, warnings=None, payload=None, compress=False, stream=0, beta=False)


def deco_trigger(env, v, desc, deco, field, kindf):
    """If resetting a single frame decoration makes this failure disappear, name it (first in order)."""
    for k in ('tracing', 'warnings', 'payload', 'compress', 'stream', 'beta'):
        if deco[k] == BARE[k]:
            continue
        d2 = dict(deco)
        d2[k] = BARE[k]
        probs, _ = evaluate(env, v, desc, d2)
        if not any(p[0] == field and p[1] == kindf for p in probs):
            return k
    return None


REDEF_FIELDS = [('int', 7), ('varchar', 'x'), (('list', 'int'), [1, 2]), (('list', 'varchar'), ['a', 'b']), (('set', 'int'), [3]),
                (('map', 'varchar', 'bigint'), {'k': 5}), (('map', 'int', 'varchar'), {1: 'v'}),
                (('tuple', ['int', 'blob']), (3, b'q')), (('tuple', ['varchar', 'blob']), ('s', b'q'))]


def redefinition_histories(env, part):
    """Two RESULTs decoded one after the other in one process, describing the same user type name with the same field
    names but another field type (the type was dropped and re-created): the second must be decoded as sent."""
    for v in (3, 4, 5):
        for (ta, va), (tb, vb) in itertools.permutations(REDEF_FIELDS, 2):
            descs = []
            for t, val in ((ta, va), (tb, vb)):
                udt = ('udt', 'ks', 'redef', [('f', t), ('g', 'int')])
                meta = {'global_spec': False, 'paging_state': None, 'no_metadata': False, 'new_metadata_id': None, 'continuous': None}
                descs.append({'op': 'RESULT', 'kind': 'rows', 'colset': 'redefined-udt', 'cols': [('ks', 't', 'u', udt)],
                              'rows': [[(val, 1)]], 'meta': meta})
            env.ct.UserType._cache.pop(('ks', 'redef'), None)
            alone, _ = evaluate(env, v, descs[1], BARE)
            env.ct.UserType._cache.pop(('ks', 'redef'), None)
            evaluate(env, v, descs[0], BARE)
            probs, frame = evaluate(env, v, descs[1], BARE)
            env.ct.UserType._cache.pop(('ks', 'redef'), None)
            part.count('evaluations')
            part.count('redefinition_histories')
            part.count('distinct_nontrivial')
            part.outcome('RESULT.rows after-redefinition %s' % ('ok' if not probs else 'FAIL'))
            known = set((f, k) for f, k, _ in alone)
            for field, kindf, what in probs:
                if (field, kindf) in known:
                    continue
                part.violation('C04/RESULT.rows/%s/%s/after-redefinition' % (field, kindf),
                               'protocol version %d: after a RESULT describing ks.redef with field f of type %r, a RESULT describing it '
                               'with f of type %r: %s; frame=%s' % (v, ta, tb, what, frame.hex()[:300]),
                               {'redefinition': True, 'version': v, 'first': [ta, va], 'second': [tb, vb]})


def run_chunk(args):
    """Worker `idx` of `n`: walks the whole enumeration and takes every n-th case."""
    tier, idx, n = args
    env = Env.get()
    part = Part()
    seen_fp = set()
    j = -1
    for group in GROUPS:
        for v in F.VERSIONS:
            for i, desc, deco in cases(group, v, tier):
                j += 1
                if j % n != idx:
                    continue
                _one(env, part, seen_fp, group, v, tier, i, desc, deco)
    if idx == 0:
        redefinition_histories(env, part)
    return part


def _one(env, part, seen_fp, group, v, tier, i, desc, deco):
    probs, frame = evaluate(env, v, desc, deco)
    part.count('evaluations')
    sk = subkind(desc)
    decorated = deco['tracing'] is not None or deco['warnings'] is not None or deco['payload'] is not None or deco['compress']
    if decorated or desc['op'] in ('ERROR', 'RESULT', 'EVENT'):
        part.count('distinct_nontrivial')
    part.outcome('%s %s' % (sk, 'ok' if not probs else 'FAIL'))
    for field, kindf, what in probs:
        trig = deco_trigger(env, v, desc, deco, field, kindf)
        if trig is not None:        # a frame-level failure, the same for every message kind
            fp = 'C04/decoration.%s/%s/%s' % (trig, field, kindf)
        else:
            fp = 'C04/%s/%s/%s' % (sk, field, kindf)
            if field == 'decode' and (desc.get('colset') or desc.get('bindset')):
                fp += '/' + (desc.get('colset') or desc.get('bindset'))      # input class: which column set
        if fp in seen_fp:
            part.count('violating_cases')
            continue
        seen_fp.add(fp)
        part.violation(fp, '%s on protocol version %s, decorations %r: %s; description=%r; frame=%s' % (
            sk, hex(v) if v > 6 else v, {k: x for k, x in deco.items() if x}, what,
            {k: x for k, x in desc.items() if k != 'cols'}, frame.hex()[:400]),
            {'group': group, 'version': v, 'tier': tier, 'index': i, 'subkind': sk})
    if not probs and decorated and desc['op'] == 'RESULT' and desc['kind'] in ('rows', 'prepared'):
        part.sample({'version': v, 'subkind': sk, 'meta': desc.get('meta') or desc.get('args', {}).get('result_meta'),
                     'decorations': sorted(k for k, x in deco.items() if x), 'frame': frame.hex()[:300]}, limit=1)


def run(ctx):
    if not F.selftest():
        raise HarnessError('vt.spec.frames self-test failed')
    Env.get()
    gc.freeze()          # keep the imported heap out of the workers' collections (no copy-on-write storms)
    n = min(8, ctx.nproc) if ctx.quick else 4 * ctx.nproc       # few workers for the small tier: forking costs more than it saves
    items = ctx.rotate([(ctx.tier, idx, n) for idx in range(n)])
    for part in ctx.pmap(run_chunk, items):
        ctx.merge(part)
    ctx.cov['rule'] = ('cases = version {1,2,3,4,5,6,0x41,0x42} x response bodies (errors: all codes x field grid; rows: column sets x '
                       'row sets x metadata flag combinations; prepared: bind sets x global spec x pk indexes x result metadata; schema '
                       'changes, events over 5 addresses, supported, ready, authenticate, auth tokens) x decorations (every subset of '
                       'tracing id / warnings / custom payload x compression%s); non-trivial = ERROR/RESULT/EVENT body or any decoration' % (
                           '' if ctx.quick else ' x stream ids {0,1,max} x beta flag, plus empty warnings/payload'))
    ctx.cov['exhaustive'] = True
    ctx.assume('header fields are split off as Connection._read_frame_header does and passed to decode_message as Connection.process_msg does; '
               'user_type_map is empty; for no_metadata rows the result_metadata of the prepared statement is supplied (as the session does)')
    ctx.assume('SUPPORTED always carries CQL_VERSION (every server sends it)')
    ctx.assume('null AUTH token may decode to None or to an empty value; a valid UTF-8 token may surface as str or bytes')
    ctx.assume('empty warnings list / empty payload map may decode to None')
    ctx.assume('0x1700 CAS_WRITE_UNKNOWN (v5) has no documented class in the driver: only code, message and the ErrorMessage type are required; '
               '<contentions> of a v5 CAS write timeout is not required to surface; 0x1600 may surface as CDCWriteException')
    ctx.assume('DSE continuous-paging result flags only in the layout <flags><count>[<paging_state>]<seq_no>..., never together with '
               'no_metadata or new_metadata_id (relative order not pinned down); DSE dialects use failure reason maps; duration type code '
               'not generated for DSE dialects')
    ctx.assume('empty collections and empty cells of non-text types are left to C01/C02')
    ctx.assume('no_metadata is not combined with global_tables_spec or new_metadata_id (the specification excludes the latter)')


def replay(ctx, data):
    env = Env.get()
    if data.get('redefinition'):
        part = Part()
        redefinition_histories(env, part)
        for fp, what, _ in part.violations:
            print(fp, '::', what)
        return bool(part.violations)
    for i, desc, deco in cases(data['group'], data['version'], data['tier']):
        if i == data['index']:
            probs, frame = evaluate(env, data['version'], desc, deco)
            print('frame:', frame.hex())
            for field, kindf, what in probs:
                print('C04/%s/%s/%s ::' % (subkind(desc), field, kindf), what)
            return bool(probs)
    raise HarnessError('case index %r not found' % (data['index'],))
