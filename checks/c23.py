"""C23 Built-in retry policies make bounded, consistency-safe decisions.

Engine N: the full product consistency level x required x received/alive x data_retrieved x write
type x retry count is given to every handler of every built-in retry policy; the returned
(decision, consistency) pair is compared with reference tables written from the documentation
(the docstrings of cassandra/policies.py) and from the C23 statement.
"""
from vt.core import Part, HarnessError

META = {
    'level': 'exploration',
    'engine': 'N',
    'technique': 'full-product enumeration of failure descriptions vs documented decision tables',
    'text': 'Every (consistency in 11 levels, required 0..5, received/alive 0..5, data_retrieved, write type in 8, '
            'retry_num 0..3) tuple is passed to on_read_timeout / on_write_timeout / on_unavailable / on_request_error of '
            'RetryPolicy, FallthroughRetryPolicy, NeverRetryPolicy and DowngradingConsistencyRetryPolicy. RetryPolicy '
            'and Fallthrough are compared with the exact documented table on every tuple; NeverRetry must rethrow every '
            'timeout/unavailable; Downgrading is judged on the tuples a coordinator can report by the clauses of the '
            'statement (no retry after the first, serial levels untouched, chosen level in ONE/TWO/THREE needing no more '
            'replicas than responded/alive nor than the requested level required, retries and IGNORE only in the documented cases).',
    'note': 'Reference = docstrings + statement, not the code.  Reportable tuples: required>=1 and equal to 1/2/3 for ANY,ONE,LOCAL_ONE/TWO/THREE; unavailable => alive<required; '
            'write timeout => received<required unless BATCH_LOG; serial levels appear in write timeouts only with write type CAS.',
    'design_ref': 'C23',
}

CLS = ['ANY', 'ONE', 'TWO', 'THREE', 'QUORUM', 'ALL', 'LOCAL_QUORUM', 'EACH_QUORUM', 'SERIAL', 'LOCAL_SERIAL', 'LOCAL_ONE']
SERIAL = ('SERIAL', 'LOCAL_SERIAL')
WTS = ['SIMPLE', 'BATCH', 'UNLOGGED_BATCH', 'COUNTER', 'BATCH_LOG', 'CAS', 'VIEW', 'CDC']
NEED = {'ONE': 1, 'TWO': 2, 'THREE': 3}
RANGE = range(0, 6)
RETRIES = range(0, 4)
DEC = {0: 'RETRY', 1: 'RETHROW', 2: 'IGNORE', 3: 'RETRY_NEXT_HOST'}      # documented class enums


FIXED_REQUIRED = {'ANY': 1, 'ONE': 1, 'LOCAL_ONE': 1, 'TWO': 2, 'THREE': 3}     # the others depend on the replication factor


def reportable(kind, cl, required, got, wt):
    if required < 1:
        return False
    if cl in FIXED_REQUIRED and required != FIXED_REQUIRED[cl]:
        return False
    if kind == 'unavailable':
        return got < required
    if kind == 'write_timeout':
        if cl in SERIAL and wt != 'CAS':
            return False
        return wt == 'BATCH_LOG' or got < required
    return True


# ---------------------------------------------------------------- documented tables
def ref_default(kind, cl, required, got, data, wt, retry_num):
    """RetryPolicy docstrings.  Returns (decision name, 'same' | None)."""
    if kind == 'read_timeout':
        # "retried at most once, and only if a sufficient number of replicas responded (with data digests)"
        if retry_num == 0 and got >= required and not data:
            return 'RETRY', 'same'
        return 'RETHROW', None
    if kind == 'write_timeout':
        # "retried at most once, and will only be retried if the write_type was BATCH_LOG"
        if retry_num == 0 and wt == 'BATCH_LOG':
            return 'RETRY', 'same'
        return 'RETHROW', None
    if kind == 'unavailable':
        # "if this is the first retry, it triggers a retry on the next host in the query plan with the same
        #  consistency level. If this is not the first retry, no retries will be attempted and the error will be re-raised"
        if retry_num == 0:
            return 'RETRY_NEXT_HOST', 'same'
        return 'RETHROW', None
    # on_request_error: "By default, it triggers a retry on the next host in the query plan with the same consistency level."
    return 'RETRY_NEXT_HOST', 'same'


def ref_fallthrough(kind, *a):
    """'never retries and always propagates failures to the application'"""
    return 'RETHROW', None


def downgrading_retry_documented(kind, cl, required, got, data, wt):
    """Upper bound of the cases in which DowngradingConsistencyRetryPolicy's documentation (its own docstring plus
    'implements the same retries as RetryPolicy') allows a retry: returns the set of allowed level relations."""
    allowed = set()
    if kind == 'read_timeout':
        if got >= required and not data:
            allowed.add('same')
        if 1 <= got < required:
            allowed.add('lower')
    elif kind == 'write_timeout':
        if wt == 'BATCH_LOG':
            allowed.add('same')
        if wt == 'UNLOGGED_BATCH' and got >= 1:
            allowed.add('lower')
    elif kind == 'unavailable':
        allowed.add('next-host-same')
        if got >= 1:
            allowed.add('lower')
    else:
        allowed.add('next-host-same')
    return allowed


# ---------------------------------------------------------------- running
def make_policies():
    import warnings
    import cassandra.policies as pol
    out = [('RetryPolicy', pol.RetryPolicy()), ('FallthroughRetryPolicy', pol.FallthroughRetryPolicy())]
    if hasattr(pol, 'NeverRetryPolicy'):
        out.append(('NeverRetryPolicy', pol.NeverRetryPolicy()))
    with warnings.catch_warnings():
        warnings.simplefilter('ignore')
        out.append(('DowngradingConsistencyRetryPolicy', pol.DowngradingConsistencyRetryPolicy()))
    return out


def call(policy, kind, CL, WT, cl, required, got, data, wt, retry_num, error):
    q = None
    if kind == 'read_timeout':
        return policy.on_read_timeout(q, getattr(CL, cl), required, got, data, retry_num)
    if kind == 'write_timeout':
        return policy.on_write_timeout(q, getattr(CL, cl), getattr(WT, wt), required, got, retry_num)
    if kind == 'unavailable':
        return policy.on_unavailable(q, getattr(CL, cl), required, got, retry_num)
    return policy.on_request_error(q, getattr(CL, cl), error, retry_num)


def judge(part, pname, policy, CL, WT, kind, cl, required, got, data, wt, retry_num, errname=None):
    from cassandra import OperationTimedOut
    from cassandra.connection import ConnectionShutdown
    errors = {'OperationTimedOut': OperationTimedOut('x'), 'ConnectionShutdown': ConnectionShutdown('x'),
              'Exception': Exception('overloaded')}
    case = {'policy': pname, 'kind': kind, 'cl': cl, 'required': required, 'got': got, 'data_retrieved': data,
            'write_type': wt, 'retry_num': retry_num, 'error': errname}
    part.count('evaluations')
    short = {'RetryPolicy': 'default', 'FallthroughRetryPolicy': 'fallthrough', 'NeverRetryPolicy': 'never',
             'DowngradingConsistencyRetryPolicy': 'downgrading'}[pname]
    try:
        res = call(policy, kind, CL, WT, cl, required, got, data, wt, retry_num, errors.get(errname))
    except Exception as e:
        part.violation('C23/%s/%s/raises' % (short, kind), '%s.on_%s raised %r for %r' % (pname, kind, e, case), case)
        return
    names = dict((getattr(CL, n), n) for n in CLS)
    if not (isinstance(res, tuple) and len(res) == 2 and res[0] in DEC and (res[1] is None or res[1] in names)):
        part.violation('C23/%s/%s/malformed' % (short, kind), '%s.on_%s returned %r for %r' % (pname, kind, res, case), case)
        return
    dec = DEC[res[0]]
    if getattr(policy, dec) != res[0]:
        raise HarnessError('decision enum %s moved' % dec)
    rcl = names[res[1]] if res[1] is not None else None
    rel = None if rcl is None else ('same' if rcl == cl else rcl)
    rep = reportable(kind, cl, required, got, wt)
    part.outcome((short, kind, dec, 'cl:' + ('none' if rcl is None else 'same' if rcl == cl else 'other')))
    if rep and dec != 'RETHROW':
        part.mark_nontrivial(repr((pname, kind, cl, required, got, data, wt, retry_num, errname)))
    what = '%s.on_%s -> (%s, %s) for %r' % (pname, kind, dec, rcl, case)

    def same_level():
        return rcl is None or rcl == cl

    if short in ('default', 'fallthrough'):
        want, wcl = (ref_default if short == 'default' else ref_fallthrough)(kind, cl, required, got, data, wt, retry_num)
        if dec != want:
            part.violation('C23/%s/%s/decision' % (short, kind), what + '; documented decision is ' + want, case)
        elif dec in ('RETRY', 'RETRY_NEXT_HOST') and not same_level():
            part.violation('C23/%s/%s/level' % (short, kind), what + '; documented: same consistency level', case)
        return
    if short == 'never':
        if kind != 'request_error' and dec != 'RETHROW':
            part.violation('C23/never/%s/decision' % kind, what + '; the never-retry policy must rethrow', case)
        return
    # downgrading
    if kind == 'request_error':
        if dec in ('RETRY', 'RETRY_NEXT_HOST') and not same_level():
            part.violation('C23/downgrading/request_error/level', what + '; a level change is documented nowhere', case)
        return
    if retry_num >= 1 and dec in ('RETRY', 'RETRY_NEXT_HOST'):
        part.violation('C23/downgrading/%s/retries-more-than-once' % kind, what, case)
    if not rep:
        return
    if cl in SERIAL and not same_level():
        part.violation('C23/downgrading/%s/serial-downgraded' % kind, what, case)
    if dec in ('RETRY', 'RETRY_NEXT_HOST'):
        allowed = downgrading_retry_documented(kind, cl, required, got, data, wt)
        if same_level():
            ok = ('same' in allowed and dec == 'RETRY') or ('next-host-same' in allowed and dec == 'RETRY_NEXT_HOST') \
                or ('same' in allowed and dec == 'RETRY_NEXT_HOST')
            if not ok:
                part.violation('C23/downgrading/%s/retry-not-documented' % kind, what + '; allowed here: %s' % sorted(allowed), case)
        else:
            if rcl not in NEED:
                part.violation('C23/downgrading/%s/level-outside-ONE-TWO-THREE' % kind, what, case)
            else:
                if NEED[rcl] > got:
                    part.violation('C23/downgrading/%s/level-needs-more-than-responded' % kind,
                                   what + '; %s needs %d replicas, %d responded/alive' % (rcl, NEED[rcl], got), case)
                if NEED[rcl] > required or cl == 'ANY':
                    part.violation('C23/downgrading/%s/level-stronger-than-requested' % kind,
                                   what + '; %s needs %d, the requested level needed %d' % (rcl, NEED[rcl], required), case)
                if 'lower' not in allowed:
                    part.violation('C23/downgrading/%s/retry-not-documented' % kind, what + '; allowed here: %s' % sorted(allowed), case)
    elif dec == 'IGNORE':
        # "For writes, ignore the exception ... if we know the write has been persisted on at least one replica"
        if kind != 'write_timeout' or got < 1:
            part.violation('C23/downgrading/%s/ignore-without-ack' % kind, what, case)


def cases():
    for cl in CLS:
        for required in RANGE:
            for got in RANGE:
                for retry_num in RETRIES:
                    for data in (False, True):
                        yield ('read_timeout', cl, required, got, data, None, retry_num, None)
                    for wt in WTS:
                        yield ('write_timeout', cl, required, got, None, wt, retry_num, None)
                    yield ('unavailable', cl, required, got, None, None, retry_num, None)
        for retry_num in RETRIES:
            for err in ('OperationTimedOut', 'ConnectionShutdown', 'Exception'):
                yield ('request_error', cl, 0, 0, None, None, retry_num, err)


def run(ctx):
    from cassandra import ConsistencyLevel as CL, WriteType as WT
    if sorted(CLS) != sorted(CL.name_to_value) or sorted(WTS) != sorted(WT.name_to_value):
        raise HarnessError('level / write type lists changed: %r %r' % (sorted(CL.name_to_value), sorted(WT.name_to_value)))
    part = Part()
    pols = make_policies()
    allc = ctx.rotate(list(cases()))
    nrep = 0
    for c in allc:
        kind, cl, required, got, data, wt, retry_num, err = c
        if kind != 'request_error' and reportable(kind, cl, required, got, wt):
            nrep += 1
        for pname, p in pols:
            judge(part, pname, p, CL, WT, kind, cl, required, got, data, wt, retry_num, err)
    names = dict((getattr(CL, n), n) for n in CLS)
    for c in [c for c in allc if c[0] != 'request_error' and reportable(c[0], c[1], c[2], c[3], c[5]) and c[6] == 0 and c[3] >= 1][:40:10]:
        kind, cl, required, got, data, wt, retry_num, err = c
        dec = {}
        for pname, p in pols:
            r = call(p, kind, CL, WT, cl, required, got, data, wt, retry_num, None)
            dec[pname] = '%s/%s' % (DEC.get(r[0]), names.get(r[1]))
        part.sample({'case': {'kind': kind, 'cl': cl, 'required': required, 'got': got, 'data': data, 'write_type': wt, 'retry_num': retry_num},
                     'decisions': dec}, limit=4)
    ctx.merge(part)
    ctx.cov['policies'] = [n for n, _ in pols]
    ctx.cov['tuples'] = len(allc)
    ctx.cov['reportable_tuples'] = nrep
    ctx.cov['rule'] = ('%d failure descriptions x %d policies; non-trivial = coordinator-reportable description on which the '
                       'policy did something other than rethrow' % (len(allc), len(pols)))
    ctx.cov['exhaustive'] = True
    ctx.assume('a coordinator reports: required>=1 (exactly 1 for ANY/ONE/LOCAL_ONE, 2 for TWO, 3 for THREE); Unavailable only with alive<required; WriteTimeout with received<required '
               'unless write type BATCH_LOG; a serial level in a WriteTimeout only with write type CAS (Cassandra StorageProxy.cas)')
    ctx.assume('Downgrading read-timeout downgrade is accepted from 1 responding replica (docstring says "greater than one", '
               'the Java driver documentation it was ported from says "at least one")')
    ctx.assume('NeverRetryPolicy.on_request_error is unconstrained (no documentation, not in the statement)')


def replay(ctx, d):
    from cassandra import ConsistencyLevel as CL, WriteType as WT
    part = Part()
    for pname, p in make_policies():
        if pname == d['policy']:
            judge(part, pname, p, CL, WT, d['kind'], d['cl'], d['required'], d['got'], d['data_retrieved'],
                  d['write_type'], d['retry_num'], d.get('error'))
    for fp, what, _ in part.violations:
        print(fp, '::', what)
    return bool(part.violations)
